#!/usr/bin/env python3
"""Rewrites the two count columns of DESIGN.md section 12.2 from evidence/*.json (run after a full quick run)."""
import json, os, re
HERE = os.path.dirname(os.path.abspath(__file__))
p = os.path.join(HERE, "DESIGN.md")
s = open(p).read()
for f in sorted(os.listdir(os.path.join(HERE, "evidence"))):
    pid = f[:-5]
    c = json.load(open(os.path.join(HERE, "evidence", f)))["coverage"]
    m = re.search(r"^\| %s \| (\S+) \| (\S+) \| (.*)$" % pid, s, re.M)
    if not m:
        continue
    s = s.replace(m.group(0), "| %s | %s | %s | %s" % (pid, c.get("claimed_obligations", "-"), c.get("closed_obligations") or "-", m.group(3)))
open(p, "w").write(s)
print("updated")
