TB = ("clang 14 front end + -O1 passes, own IR parser/encoder (validated every run against native g++/clang builds on concrete inputs), "
      "z3 5.1 and cvc5 1.0.3, x86-64 SysV type sizes")
CHECKS["C03"] = dict(
    category="model_checking",
    technique="bounded symbolic execution of clang LLVM IR of the real templates, SMT (z3/cvc5, integer and bit-vector emissions)",
    text="For every (rep, N/D) instance of an enumerated factor grid, the solver decides for ALL stored values that "
         "not is_conversion_lossy(x) implies coerce_in/coerce_as compute exactly x*N/D with no reachable UB or unsigned-wrap trap. "
         "Complete over values inside each instance; the factor quantifier is a stated grid.",
    note=TB + "; factors enumerated not symbolic; out-of-domain (non-compiling) conversions dropped and counted.")
NA["C01"] = ("observable is the compiler's accept/reject verdict on ill-formed programs; no function body executes, so there is no IR "
             "to encode and no value for a solver to range over (DESIGN.md section 7)")
