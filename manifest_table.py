TB = ("clang 14 front end + -O1 passes, own IR parser/encoder (validated every run against native g++/clang builds on concrete inputs), "
      "z3 5.1 and cvc5 1.0.3, x86-64 SysV type sizes")
CHECKS["C03"] = dict(
    category="model_checking",
    technique="bounded symbolic execution of clang LLVM IR of the real templates, SMT (z3/cvc5, integer and bit-vector emissions)",
    text="For every (rep, N/D) instance of an enumerated factor grid, the solver decides for ALL stored values that "
         "not is_conversion_lossy(x) implies coerce_in/coerce_as compute exactly x*N/D with no reachable UB or unsigned-wrap trap. "
         "The checker itself is UB-free for every x (otherwise its answer means nothing). Reps: the eight fixed-width types plus long long / unsigned long long (distinct types of the same width on LP64). "
         "Complete over values inside each instance; the factor quantifier is a stated grid.",
    note=TB + "; factors enumerated not symbolic; out-of-domain (non-compiling) conversions dropped and counted.")
NA["C01"] = ("observable is the compiler's accept/reject verdict on ill-formed programs; no function body executes, so there is no IR "
             "to encode and no value for a solver to range over (DESIGN.md section 7)")
CHECKS["C04"] = dict(
    category="model_checking",
    technique="bounded symbolic execution of clang LLVM IR of the real templates, SMT (z3/cvc5; integer, bit-vector and FP theories)",
    text="Per (rep, N/D) instance the solver decides, for ALL stored values and in both directions, that will_conversion_truncate / "
         "will_conversion_overflow / is_conversion_lossy equal the exact predicates (D does not divide x*N; x*N outside the promoted range "
         "or x*N/D outside the rep's range). For float/double/long double: (A) infinite converted value => overflow reported, "
         "(B) overflow reported => converted value infinite or within 2 ulp of max, for every bit pattern. Integral reps: the eight fixed-width types plus long long / unsigned long long. For floating reps also: is_conversion_lossy == overflow or truncate for every bit pattern.",
    note=TB + "; factors enumerated; FP claims are about the single IEEE operation the conversion performs; known finding D7 (one value per sign at the rounded threshold) is excluded by predicate and reported as KNOWN-FINDING.")
CHECKS["C05"] = dict(
    category="model_checking",
    technique="bounded symbolic execution of clang LLVM IR of the real templates, SMT (z3/cvc5; integer, bit-vector and FP theories)",
    text="For all 121 ordered rep pairs (plus 18 pairs with long long / unsigned long long) x enumerated factors, for ALL source values / bit patterns: not is_conversion_lossy<T> => the conversion "
         "executes no UB and is exact (integral common type) or value-preserving in the final cast (floating common type); NaN/inf/out-of-range/"
         "non-integral intermediate => lossy; for integral sources will_conversion_overflow<T> <=> some step's exact value leaves its range; "
         "the checkers themselves execute no UB.",
    note=TB + "; factor quantifier enumerated (rotating subset in quick); long-double common-type obligations with non-unit factor are stretch in quick.")
CHECKS["C08"] = dict(
    category="model_checking",
    technique="bounded symbolic execution of clang LLVM IR of the real templates, SMT (z3/cvc5, integer and bit-vector emissions)",
    text="Per (unit pair, rep pair) instance the solver decides for ALL operand pairs (x, y): if the exactly scaled operands x*k1, y*k2 fit "
         "the common rep then the six comparisons (and C++20 <=>) equal the exact order, + and - return exactly x*k1 +/- y*k2 with the raw operator's "
         "trap condition, and % equals the raw % of the scaled operands; k1, k2 come from an independent gcd-of-rationals model.",
    note=TB + "; unit and rep pairs enumerated (integral pairs of equal signedness, incl. sub-int and mixed-width pairs; more pairs in thorough); floating reps (float/double, incl. float <=>): each operator equals the raw operator applied to the operands scaled by a constant within 4 ulp of the exact factor - the few-ulp bound itself is the closed constant check, not a solver statement about real arithmetic; long double pairs with scale factors needing more than 53 bits (10^24, 3^34, 2^53+1) must be scaled by ONE multiplication by the exact factor.")
CHECKS["C09"] = dict(
    category="model_checking",
    technique="bounded symbolic execution of clang LLVM IR of the real templates, SMT (z3/cvc5, integer emission) against an exact affine model",
    text="Per ordered unit pair x rep, for ALL stored values: (E) no UB and exact affine result integral and representable => conversion returns exactly it; "
         "(R) intermediates fit => no UB trap; mixed-unit/mixed-rep comparisons, <=> and point-point differences equal the exact order/displacement of "
         "positions in the common point unit; point + quantity, quantity + point, point - quantity (other unit, other rep, incl. unsigned reps narrower than the common rep) equal x*k1 +/- y*k2 in the common unit "
         "with the raw operator's trap condition; 22 operations without affine meaning are observed to be rejected by the compiler (with positive controls); on float / double the six mixed-unit point comparisons are mutually consistent for every pair of bit patterns.",
    note=TB + "; unit pairs enumerated; the 'must not compile' clause is a compiler verdict observed on enumerated probes, not a solver result; origin representation units are a datum of the model.")
CHECKS["C10"] = dict(
    category="model_checking",
    technique="bounded symbolic execution of clang LLVM IR of the real templates, SMT (z3/cvc5) plus closed compile-time facts checked against an exact rational model",
    text="Per list of point units (pairs, triples; library + seeded random generated units): multiplier m and offset o are read off each to-common-point-unit kernel and the solver "
         "proves to_cpu(x) == x*m + o for ALL x (mod 2^64 unsigned; exact and trap-free when it fits, signed); closed facts: m positive integer, o non-negative, one common unit "
         "dividing the gcd of the scales and origin differences, offsets consistent with exact origins (origins written in kelvins, prefixed units and anonymous scalings of prefixed / derived units), "
         "type identical under permutation/repetition and through common_point_unit(...), equals an input exactly when m=1,o=0; the explicit-rep spellings (coerce_as<T>, converting constructor) "
         "from narrow signed/unsigned reps into wider ones yield exactly x*m + o for ALL x whenever that fits; lists include inputs that all share one non-zero origin with non-nested scales.",
    note=TB + "; lists enumerated; type-identity facts are compile-time booleans, not solver-decided.")
CHECKS["C06"] = dict(
    category="model_checking",
    technique="closed compile-time trait values lowered through clang and compared with an independent predicate; bounded symbolic execution + SMT for the value-level consequence",
    text="The implicit-conversion predicate is observed for a 10x10 rep grid x ratios straddling every threshold (incl. factors the target cannot represent: the query must compile - totality) "
         "and must equal the documented predicate; for every permitted conversion into an integral rep the solver decides for ALL inputs: exact multiplication when it fits, "
         "no overflow for |x| <= 2147 that the target can hold, no division in the kernel.",
    note=TB + "; the predicate itself is a compile-time fact (closed obligations); a trait query that does not compile is reported as a lowering-stage VIOLATION; overload-resolution probes outside.")
CHECKS["C13"] = dict(
    category="translation_validation",
    technique="solver equivalence (SMT over clang LLVM IR) of each Au operator kernel with the raw-operator reference kernel compiled in the same TU",
    text="For 11 reps x several units: round trip through Quantity is the identity on bit patterns; every same-unit operator of Quantity and QuantityPoint is equivalent to the raw operator "
         "on the rep for ALL operand values (same result bits, same trap condition); raw integer references are themselves checked against an exact integer oracle; layout/triviality/"
         "result-type facts are closed compile-time booleans.",
    note=TB + "; clang only (g++ and C++17/20 axes belong to C20); FP arithmetic NaN payloads are not modelled by SMT-LIB (two NaN results count as equal).")
CHECKS["C19"] = dict(
    category="translation_validation",
    technique="solver equivalence (SMT over clang LLVM IR) of each ZERO kernel with the raw-zero reference kernel compiled in the same TU",
    text="For 11 reps x several units and every bit pattern (NaN, inf, -0.0 included): q op ZERO / ZERO op q equal x op 0 / 0 op x, q +/- ZERO equals q at value level, "
         "Quantity(ZERO), T(ZERO) and chrono duration(ZERO) are 0; the comparisons are additionally lowered at -std=c++20 (one unit per rep); rejection for QuantityPoint observed as closed trait booleans.",
    note=TB + "; clang only; 'never accepted where a point is required' is observed only through is_constructible/is_convertible/is_assignable booleans.")
CHECKS["C02"] = dict(
    category="model_checking",
    technique="bounded symbolic execution of clang LLVM IR of conversion kernels between generated unit expressions, SMT (z3/cvc5), against an independent exact unit model",
    text="For seeded generated pairs of unit expressions (products, quotients, rational powers, roots, magnitudes, prefixes; five spellings) the int64 conversion kernel is proved for ALL x to be exactly "
         "x*N/D with the MODEL's N, D; the double kernel is proved for ALL x to be a single IEEE multiply/divide by a constant that is within 4 ulp of the model's exact ratio; ratio-1 pairs are the identity; "
         "equivalence / same-dimension / type-identity / is_integer / is_rational are closed booleans compared with the model; the nine base-dimension exponents, read out of the unit's Dimension pack, equal the model's exponent vector for products and quotients of every pair of library units (one per distinct dimension in quick) and for every generated expression; every spelling (maker, singular name, symbol) of every library unit denotes its type's unit; scaling by a magnitude that is exactly 1 (six spellings) leaves named, prefixed, already-scaled and compound units unchanged; a composite scale factor written in one step equals the same factor written through its prime factors (pseudoprime composites).",
    note=TB + "; unit model written from SI/NIST definitions; expression trees enumerated (seeded); canonical type identity observed only as closed booleans; documented Hertz/Becquerel-style exclusions applied.")
CHECKS["C07"] = dict(
    category="model_checking",
    technique="bounded symbolic execution of clang LLVM IR of to-common-unit kernels, SMT (z3/cvc5), against an independent gcd-of-rationals model; closed type-identity booleans",
    text="For seeded lists (2-4) of same-dimension units: each to-common-unit kernel is proved for ALL x to be x*m_i (no division, trap-free when it fits) and the m_i must equal the model's U_i/gcd(U_1..U_k) "
         "(positive, jointly coprime); the common unit is an input exactly when the model says so; CommonUnitT is the identical type under permutations/repetitions, the value-level spelling common_unit(u1, u2, ...) denotes that same type in every argument order, and nested forms - one nested common unit, and two nested common units in both orders, type- and value-level - are quantity-equivalent to the flat one "
         "(closed booleans); irrational lists: symmetry booleans only.",
    note=TB + "; lists enumerated (seeded); type identity is a compile-time boolean.")
CHECKS["C12"] = dict(
    category="model_checking",
    technique="bounded symbolic execution of clang LLVM IR (unsigned-wrap traps on), SMT: integer emission with quotient/remainder abstraction (z3/cvc5 NIA) and bit-vector emission at reduced width",
    text="At full 64-bit width and for ALL inputs under the documented preconditions: add_mod, sub_mod, half_mod_odd return the exact residue with no intermediate wrap; decompose(n) = (s, d) with n == d<<s, d odd "
         "(unwind 64 + unwinding assertion); mul_mod: one inductive step (recursive call replaced by its contract): call-site precondition, strict decrease, no wrap/div-by-zero, result < n, result formula, "
         "and a*b == result + Q*n with a witness Q; the same step bit-precisely at W=5/6 bits without hints; is_perfect_square(n) is false and trap-free for ALL 64-bit odd n that are non-residues mod 8 or mod 3/5/7 (Newton loop unwound 5 quick / 12 thorough, unwinding is a precondition); gcd(a,b) at 6 bits (quick) / 8 bits (thorough) of the re-interpreted IR is the greatest common divisor for ALL a,b; find_prime_factor(n) at full width is the least prime factor for ALL 1 < n < 2^12 (2^16 thorough; trial-division phase, unwound with assertion); jacobi_symbol at 5 (6) bits equals an independent table for ALL signed a and odd n; thorough: pow_mod at 4 bits == base^exp mod n by repeated multiplication, miller_rabin at 4 bits (no wrap) and 5 bits == the definition, with mul_mod recursion inlined. Factorisation/primality read-outs for adversarial numbers (all base-2 strong pseudoprimes below 2^21 and a dense tail, Carmichael numbers, squares that wrap, 64-bit semiprimes, the largest primes below every 2^k (k = 33..64) whose first Selfridge parameter has magnitude >= 17, one per sign) and find_prime_factor on inputs chosen per path through the function (trial hit, early exit, prime beyond the table, Pollard rho returning a prime / a composite divisor with one or more re-splits / needing a parameter retry) and the canonical factorisation type of mag<N>() for structured N (all powers of 2,3,5,6,7,10,12,60,100,1000,1024,3600 below 2^64, factorials, primorials, 1..130, 2^k +/- 1, smooth numbers) are closed compile-time facts.",
    note=TB + "; primality/factor-finder exactness for every 64-bit n, 64-bit pow_mod, gcd, jacobi, miller_rabin, strong Lucas and Pollard rho are NOT claimed (outside bounded symbolic execution); reduced-width results are about the re-interpreted IR and are flagged as such in evidence.")
CHECKS["C14"] = dict(
    category="translation_validation",
    technique="solver equivalence (SMT over clang LLVM IR) of Au product/quotient/power kernels with raw-operator / std-function reference kernels in the same TU; closed unit facts vs model",
    text="For reps x unit pairs and ALL operand values: q*q, q/q, s*q, s/q, unblock_int_div forms, int_pow<k>, sqrt, cbrt, as_raw_number equal the raw operator / libm call on the stored values (same bits or both NaN, "
         "same trap condition); int_pow on 8/16-bit reps equals x^k whenever x^k is representable; resulting units and collapse-to-raw-number are closed booleans vs a hand-written model table; as_raw_number compiles exactly when the documented policy accepts the conversion to the unitless unit "
         "(grid rep x factor at the thresholds floor(max/2147), +1, 10^7, 10^9, non-integers) and accepted forms equal x*k for ALL x; units that cancel in dimension but leave an irrational factor (pi, 1/pi, sqrt 10, 100^(-1/3)) stay quantities, exactly cancelling ones collapse; roots of roots and roots of root-scaled units have the unit with the product of the exponents; 1/q, symbol / q, constant / q keep the rep of the quantity operand (hand-written facts).",
    note=TB + "; libm functions are uninterpreted (congruence only); rejection clauses (integer-division guard, as_raw_number on dimensioned / overflow-risky input) are compiler verdicts observed at lowering, not solver results.")
CHECKS["C17"] = dict(
    category="translation_validation",
    technique="solver equivalence (SMT over clang LLVM IR) of Au chrono-interop kernels with pure std::chrono reference kernels in the same TU; closed mapping facts vs model",
    text="For Rep in {int32,int64,float,double} x 9 periods and ALL counts: duration -> quantity -> duration is the identity bit-for-bit (implicit and as_chrono_duration), as_quantity has the count in seconds x Period; "
         "mixed duration/quantity comparisons, + and - equal the std::chrono computation whenever that computation does not trap (32-bit: operands in range); is_convertible<duration,Q> equals that of the corresponding quantity and the policy model; the C++20 calendar durations (days, weeks, months, years) are lowered at -std=c++20: round trips, unit == seconds x Period, "
         "same duration type back, value in seconds == count x Period for ALL counts; implicit Quantity -> duration conversions that widen the rep and refine the period (4 period pairs x 4 rep pairs) equal chrono's own duration -> duration conversion for ALL counts whose product fits the destination.",
    note=TB + "; libstdc++ chrono as shipped; NaN counts excluded for <= and >= (libstdc++ defines a<=b as !(b<a)); periods enumerated.")
CHECKS["C11"] = dict(
    category="model_checking",
    technique="bounded symbolic execution of clang LLVM IR of the value-level magnitude helpers (loops unwound with unwinding assertions), SMT NIA with quotient/remainder abstraction; closed compile-time grid vs exact model",
    text="For ALL 64-bit bases >= 1: checked_int_pow<uintmax/intmax>(base, e) (e = 0..4) and base_power_value<T, N, 1>(base) answer OK exactly when base^e fits and then return base^e exactly; "
         "safe_to_cast_to<T>(x) == (min(T) <= x <= max(T)) for all x; checked_int_pow<uint8/int8> with base AND exponent symbolic (thorough). Closed grid: representable_in / get_value / is_integer / "
         "is_rational / numerator / denominator for magnitudes with primes up to 2^64-59, rational powers and pi, straddling every type limit, vs exact big-integer / interval model (floats: positive, within 4 ulp).",
    note=TB + "; root() and product<> not encoded symbolically (seen only through the closed grid); 'compile error rather than wrong number' observed through bounded must-not-compile probes.")
CHECKS["C15"] = dict(
    category="model_checking",
    technique="bounded symbolic execution of clang LLVM IR, SMT (QF_FP for rounding brackets, NIA for inversions); libm calls as uninterpreted functions compared with std reference kernels",
    text="For ALL inputs per (rep, unit pair) instance: round/floor/ceil _in/_as equal std::round/floor/ceil of the value y the library itself converts, and for every finite y the result is integral and brackets y "
         "(floor <= y < floor+1, ceil-1 < y <= ceil, |round-y| <= 1/2 ties away); inverse_in/as == trunc(K/x) with the model's exact K for all x != 0 and inv(inv(n)) == n for n in [1,1000]; "
         "sin/cos/tan/arc*/hypot/fmod/remainder/atan2/min/max/clamp/abs/copysign/isnan equal the std function on operands expressed in radians / the common unit; result units closed.",
    note=TB + "; the rounding bounds are relative to the converted value y (its closeness to the true value is the closed 4-ulp bound on the constant); libm error itself outside; refusal of K < 10^6 observed only on enumerated probes; x == 0 for integral inversion assumed away.")
CHECKS["C16"] = dict(
    category="model_checking",
    technique="solver-decided identity kernels (SMT over clang LLVM IR) plus closed compile-time grid compared with the exact unit/magnitude model",
    text="For ALL x: multiplying/dividing numbers and quantities by a constant leaves the stored number bit-identical (only the unit changes). Closed grid over the 9 library constants and generated constants "
         "(integer, rational, huge-prime, irrational) x target units x 11 types: can_store_value_in<T>(u) equals 'exact ratio representable in T' and in<T>/as<T>/implicit conversion yield exactly that value; "
         "where the model says not representable the in<T> kernel must be rejected by the compiler (observed, counted).",
    note=TB + "; mostly closed (compile-time) facts; known finding D11 (denormal-range 1/N ratios for floating T) excluded by key and reported as KNOWN-FINDING.")
CHECKS["C18"] = dict(
    category="model_checking",
    technique="bounded symbolic execution of clang LLVM IR: digit-count loops unwound (20) for all 64-bit inputs; label arrays read at a symbolic index (SMT ite-chains over constant data) vs an independent grammar model",
    text="string_size_unsigned(x) == number of decimal digits for ALL x < 2^64 and string_size(x) for all x > INT64_MIN; for a grid of unit expressions, IToA/UIToA arguments and magnitude labels: for ALL indices i <= len the "
         "i-th character equals the independently generated expected label, the terminator is NUL and sizeof == len+1; labels of distinct units differ (closed); operator<< on Quantity/QuantityPoint over a recording stream stub: for ALL stored values the emitted event trace is (value inserted with the promoted arithmetic type - never a char insertion for 8-bit reps -, then one space, then the label), and the printed text equals `os << +value` followed by the label under five stream formatting states (native twins); streamed units include dimensionless ones (%, m / km, U, [1000 U]).",
    note=TB + "; the real std::ostream (virtual dispatch, locale, digit formatting) is replaced by the recording stub and is outside; unit expressions enumerated.")
CHECKS["C20"] = dict(
    category="translation_validation",
    technique="solver equivalence (SMT over clang LLVM IR) of each kernel lowered in several build configurations against the c++14 multi-header baseline",
    text="A seeded subset of the other checks' kernels is lowered at c++14 (baseline), c++17, c++20, and against generated single-file headers (with and without I/O; thorough: random unit subset, double inclusion) "
         "with no other Au path on the include line; every (kernel, configuration) pair is proved equivalent to the baseline for ALL inputs (same bits, same trap condition); accept/reject parity per kernel and "
         "'every public header compiles on its own (twice)' are observed as lowering-stage facts; container-level comparisons equal the raw-rep comparison in every configuration; closed facts (labels, sizes, traits, constexpr values) are required identical between the clang and the g++ build of the same kernels in every -std; a two-translation-unit program that ODR-uses labels and numeric_limits members and streams quantities "
         "is built at -O0 by g++ and clang++ at c++14/17/20 against the multi-header tree and the single-file header: every configuration must link, run and print the same text, including quantities and points streamed with a pending field width, fill, adjustment and float format (observed).",
    note=TB + "; the symbolic half is clang only (gcc has no IR to encode): the gcc axis is covered by closed-fact parity (g++-built kernels executed natively) and the differential execution in translator validation, which is sampling, not a solver verdict; fwd-declaration agreement is observed only as: the _fwd header followed by the definition compiles.")
NA["C01"] = NA["C01"]
