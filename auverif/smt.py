"""Emit term DAGs as SMT-LIB2 text (bit-vector/FP emission and integer emission) and evaluate them
concretely.  See DESIGN.md section 2.2 for the integer emission rules."""
from . import terms as T
from . import fpeval


class EmitUnsupported(Exception):
    pass


def _bvlit(v, w):
    return "(_ bv%d %d)" % (v & ((1 << w) - 1), w)


def _name(s):
    return "|%s|" % s


# --------------------------------------------------------------------------- interval analysis for Int terms

def _int_bounds(order):
    b = {}
    for t in order:
        if t.sort != T.INT:
            continue
        if t.op == "const":
            b[t.uid] = (t.attr, t.attr)
        elif t.op == "var":
            raise EmitUnsupported("free Int variable in BV emission")
        elif t.op == "sval":
            w = T.width(t.args[0])
            b[t.uid] = (-(1 << (w - 1)), (1 << (w - 1)) - 1)
        elif t.op == "uval":
            w = T.width(t.args[0])
            b[t.uid] = (0, (1 << w) - 1)
        elif t.op in ("iadd", "isub", "imul"):
            (al, ah), (bl, bh) = b[t.args[0].uid], b[t.args[1].uid]
            if t.op == "iadd":
                b[t.uid] = (al + bl, ah + bh)
            elif t.op == "isub":
                b[t.uid] = (al - bh, ah - bl)
            else:
                c = [al * bl, al * bh, ah * bl, ah * bh]
                b[t.uid] = (min(c), max(c))
        elif t.op in ("idiv", "imod"):
            (al, ah), (bl, bh) = b[t.args[0].uid], b[t.args[1].uid]
            m = max(abs(al), abs(ah), abs(bl), abs(bh))
            b[t.uid] = (-m, m)
        elif t.op == "ite":
            (al, ah), (bl, bh) = b[t.args[1].uid], b[t.args[2].uid]
            b[t.uid] = (min(al, bl), max(ah, bh))
        else:
            raise EmitUnsupported("int op " + t.op)
    return b


_FP_RM = {"rtz": "RTZ", "rtn": "RTN", "rtp": "RTP", "rna": "RNA", "rne": "RNE"}


def emit_bv(assertions, values=(), logic=None, produce_models=True):
    """assertions: list of Bool terms (conjoined). values: list of terms to (get-value)."""
    order = T.subterms(list(assertions) + list(values))
    ib = _int_bounds(order)
    W = 8
    for lo, hi in ib.values():
        W = max(W, max(abs(lo), abs(hi) + 1).bit_length() + 2)
    has_fp = any(t.op.startswith("fp.") for t in order)
    has_uf = any(t.op == "uf" for t in order)
    lines = []
    if logic is None:
        logic = "QF_" + ("UF" if has_uf else "") + "BV" + ("FP" if has_fp else "")
        if has_fp:
            logic = "QF_UFBVFP" if has_uf else "QF_BVFP"
    lines.append("(set-logic %s)" % logic)
    if produce_models:
        lines.append("(set-option :produce-models true)")
    ref = {}
    ufs = {}

    def fpconv(fmt, s):
        return "((_ to_fp %d %d) %s)" % (fmt[0], fmt[1], s)

    def sort_s(so):
        if so == T.BOOL:
            return "Bool"
        if so == T.INT:
            return "(_ BitVec %d)" % W
        return "(_ BitVec %d)" % so[1]

    n = 0
    for t in order:
        if t.op == "const":
            if t.sort == T.BOOL:
                ref[t.uid] = "true" if t.attr else "false"
            elif t.sort == T.INT:
                ref[t.uid] = _bvlit(t.attr, W)
            else:
                ref[t.uid] = _bvlit(t.attr, t.sort[1])
            continue
        if t.op == "var":
            nm = _name(t.attr)
            lines.append("(declare-fun %s () %s)" % (nm, sort_s(t.sort)))
            ref[t.uid] = nm
            continue
        a = [ref[x.uid] for x in t.args]
        op = t.op
        fp_result = False
        if op in T._BV_FOLD:
            e = "(%s %s %s)" % (op, a[0], a[1])
        elif op == "bvnot":
            e = "(bvnot %s)" % a[0]
        elif op == "eq":
            e = "(= %s %s)" % (a[0], a[1])
        elif op in ("bvult", "bvule", "bvslt", "bvsle"):
            e = "(%s %s %s)" % (op, a[0], a[1])
        elif op == "not":
            e = "(not %s)" % a[0]
        elif op in ("and", "or"):
            e = "(%s %s)" % (op, " ".join(a))
        elif op == "ite":
            e = "(ite %s %s %s)" % tuple(a)
        elif op == "zext":
            e = "((_ zero_extend %d) %s)" % (t.attr - T.width(t.args[0]), a[0])
        elif op == "sext":
            e = "((_ sign_extend %d) %s)" % (t.attr - T.width(t.args[0]), a[0])
        elif op == "extract":
            e = "((_ extract %d %d) %s)" % (t.attr[0], t.attr[1], a[0])
        elif op == "concat":
            e = "(concat %s %s)" % (a[0], a[1])
        elif op == "ovf":
            kind = t.attr
            w = T.width(t.args[0])
            ext = "sign_extend" if kind[0] == "s" else "zero_extend"
            if kind[1:] == "mul":
                w2 = 2 * w
                x = "((_ %s %d) %s)" % (ext, w, a[0])
                y = "((_ %s %d) %s)" % (ext, w, a[1])
                full = "(bvmul %s %s)" % (x, y)
                back = "((_ %s %d) ((_ extract %d 0) %s))" % (ext, w, w - 1, full)
                e = "(not (= %s %s))" % (full, back)
            else:
                x = "((_ %s 1) %s)" % (ext, a[0])
                y = "((_ %s 1) %s)" % (ext, a[1])
                full = "(%s %s %s)" % ("bvadd" if kind[1:] == "add" else "bvsub", x, y)
                back = "((_ %s 1) ((_ extract %d 0) %s))" % (ext, w - 1, full)
                e = "(not (= %s %s))" % (full, back)
        elif op in ("fp.add", "fp.sub", "fp.mul", "fp.div"):
            f = t.attr
            e = "(%s RNE %s %s)" % (op, fpconv(f, a[0]), fpconv(f, a[1]))
            fp_result = f
        elif op == "fp.sqrt":
            e = "(fp.sqrt RNE %s)" % fpconv(t.attr, a[0])
            fp_result = t.attr
        elif op in ("fp.rtz", "fp.rtn", "fp.rtp", "fp.rna", "fp.rne"):
            e = "(fp.roundToIntegral %s %s)" % (_FP_RM[op[3:]], fpconv(t.attr, a[0]))
            fp_result = t.attr
        elif op == "fp.cmp":
            pred, f = t.attr
            x, y = fpconv(f, a[0]), fpconv(f, a[1])
            un = "(or (fp.isNaN %s) (fp.isNaN %s))" % (x, y)
            base = {"eq": "(fp.eq %s %s)", "gt": "(fp.gt %s %s)", "ge": "(fp.geq %s %s)",
                    "lt": "(fp.lt %s %s)", "le": "(fp.leq %s %s)"}
            if pred == "ord":
                e = "(not %s)" % un
            elif pred == "uno":
                e = un
            elif pred == "one":
                e = "(or (fp.lt %s %s) (fp.gt %s %s))" % (x, y, x, y)
            elif pred == "une":
                e = "(not (fp.eq %s %s))" % (x, y)
            elif pred == "ueq":
                e = "(not (or (fp.lt %s %s) (fp.gt %s %s)))" % (x, y, x, y)
            elif pred[0] == "o":
                e = base[pred[1:]] % (x, y)
            else:
                e = "(or %s %s)" % (un, base[pred[1:]] % (x, y))
        elif op == "fp.cvt":
            f1, f2 = t.attr
            e = "((_ to_fp %d %d) RNE %s)" % (f2[0], f2[1], fpconv(f1, a[0]))
            fp_result = f2
        elif op == "fp.from_sint":
            f = t.attr
            e = "((_ to_fp %d %d) RNE %s)" % (f[0], f[1], a[0])
            fp_result = f
        elif op == "fp.from_uint":
            f = t.attr
            e = "((_ to_fp_unsigned %d %d) RNE %s)" % (f[0], f[1], a[0])
            fp_result = f
        elif op == "fp.to_sint":
            f, w = t.attr
            e = "((_ fp.to_sbv %d) RTZ %s)" % (w, fpconv(f, a[0]))
        elif op == "fp.to_uint":
            f, w = t.attr
            e = "((_ fp.to_ubv %d) RTZ %s)" % (w, fpconv(f, a[0]))
        elif op == "uf":
            nm = _name(t.attr)
            if t.attr not in ufs:
                ufs[t.attr] = True
                lines.append("(declare-fun %s (%s) %s)" % (nm, " ".join(sort_s(x.sort) for x in t.args),
                                                            sort_s(t.sort)))
            e = "(%s %s)" % (nm, " ".join(a)) if a else nm
        elif op == "sval":
            e = "((_ sign_extend %d) %s)" % (W - T.width(t.args[0]), a[0])
        elif op == "uval":
            e = "((_ zero_extend %d) %s)" % (W - T.width(t.args[0]), a[0])
        elif op in ("iadd", "isub", "imul"):
            e = "(%s %s %s)" % ({"iadd": "bvadd", "isub": "bvsub", "imul": "bvmul"}[op], a[0], a[1])
        elif op in ("idiv", "imod"):
            d = t.args[1]
            if not (T.is_const(d) and d.attr > 0):
                raise EmitUnsupported("idiv/imod by non-constant in BV emission")
            r = "(bvsrem %s %s)" % (a[0], a[1])
            r2 = "(ite (bvslt %s %s) (bvadd %s %s) %s)" % (r, _bvlit(0, W), r, a[1], r)
            if op == "imod":
                e = r2
            else:
                e = "(bvsdiv (bvsub %s %s) %s)" % (a[0], r2, a[1])
        elif op == "ile":
            e = "(bvsle %s %s)" % (a[0], a[1])
        elif op == "ilt":
            e = "(bvslt %s %s)" % (a[0], a[1])
        else:
            raise EmitUnsupported("bv emission of " + op)
        n += 1
        nm = "t%d" % n
        if fp_result:
            wd = T.fmt_width(fp_result)
            lines.append("(declare-fun %s () (_ BitVec %d))" % (nm, wd))
            lines.append("(assert (= ((_ to_fp %d %d) %s) %s))" % (fp_result[0], fp_result[1], nm, e))
        else:
            lines.append("(define-fun %s () %s %s)" % (nm, sort_s(t.sort), e))
        ref[t.uid] = nm
    for asr in assertions:
        lines.append("(assert %s)" % ref[asr.uid])
    lines.append("(check-sat)")
    if values:
        lines.append("(get-value (%s))" % " ".join(ref[v.uid] for v in values))
    return "\n".join(lines) + "\n"


def emit(kind, assertions, values=()):
    if kind == "int":
        return emit_int(assertions, values)
    if kind == "intq":
        return emit_int(assertions, values, div_abstraction=True)
    return emit_bv(assertions, values)


def emit_int(assertions, values=(), logic="QF_NIA", div_abstraction=False):
    """div_abstraction: every division/remainder by a non-constant divisor is replaced by fresh quotient/remainder
    variables q, r with  y != 0 => (x == y*q + r and 0 <= r < |y|)  (exact definition of Euclidean division; for y == 0 the
    value is left unconstrained, which only weakens the hypotheses: division by zero is asserted as UB separately)."""
    order = T.subterms(list(assertions) + list(values))
    lines = ["(set-logic %s)" % logic, "(set-option :produce-models true)"]
    ref = {}
    n = 0
    qr = {}

    def absdiv(xs, ys, key):
        if key not in qr:
            i = len(qr)
            qn, rn = "q!%d" % i, "r!%d" % i
            lines.append("(declare-fun %s () Int)" % qn)
            lines.append("(declare-fun %s () Int)" % rn)
            lines.append("(assert (=> (not (= %s 0)) (and (= %s (+ (* %s %s) %s)) (<= 0 %s) (< %s (abs %s)))))" % (
                ys, xs, ys, qn, rn, rn, rn, ys))
            qr[key] = (qn, rn)
        return qr[key]

    def sview(s, w):
        return "(ite (>= %s %d) (- %s %d) %s)" % (s, 1 << (w - 1), s, 1 << w, s)

    def ilit(v):
        return str(v) if v >= 0 else "(- %d)" % (-v)

    for t in order:
        if t.op == "const":
            if t.sort == T.BOOL:
                ref[t.uid] = "true" if t.attr else "false"
            else:
                ref[t.uid] = ilit(t.attr)
            continue
        if t.op == "var":
            nm = _name(t.attr)
            if t.sort == T.BOOL:
                lines.append("(declare-fun %s () Bool)" % nm)
            else:
                lines.append("(declare-fun %s () Int)" % nm)
                if t.sort != T.INT:
                    lines.append("(assert (and (<= 0 %s) (< %s %d)))" % (nm, nm, 1 << t.sort[1]))
            ref[t.uid] = nm
            continue
        a = [ref[x.uid] for x in t.args]
        op = t.op
        so = t.sort
        w = so[1] if isinstance(so, tuple) else None
        if op in ("bvadd", "bvsub", "bvmul"):
            e = "(mod (%s %s %s) %d)" % ({"bvadd": "+", "bvsub": "-", "bvmul": "*"}[op], a[0], a[1], 1 << w)
        elif op in ("bvudiv", "bvurem") and div_abstraction and not T.is_const(t.args[1]):
            qn, rn = absdiv(a[0], a[1], (a[0], a[1]))
            ref[t.uid] = qn if op == "bvudiv" else rn
            continue
        elif op == "bvudiv":
            e = "(ite (= %s 0) %d (div %s %s))" % (a[1], (1 << w) - 1, a[0], a[1])
        elif op == "bvurem":
            e = "(ite (= %s 0) %s (mod %s %s))" % (a[1], a[0], a[0], a[1])
        elif op in ("bvsdiv", "bvsrem"):
            x, y = sview(a[0], w), sview(a[1], w)
            ax, ay = "(abs %s)" % x, "(abs %s)" % y
            if op == "bvsdiv":
                q = "(div %s %s)" % (ax, ay)
                sq = "(ite (= (< %s 0) (< %s 0)) %s (- %s))" % (x, y, q, q)
                e = "(ite (= %s 0) (ite (< %s 0) 1 %d) (mod %s %d))" % (a[1], x, (1 << w) - 1, sq, 1 << w)
            else:
                r = "(mod %s %s)" % (ax, ay)
                sr = "(ite (< %s 0) (- %s) %s)" % (x, r, r)
                e = "(ite (= %s 0) %s (mod %s %d))" % (a[1], a[0], sr, 1 << w)
        elif op in ("bvshl", "bvlshr", "bvashr"):
            k = t.args[1]
            if not T.is_const(k):
                raise EmitUnsupported("symbolic shift")
            kk = k.attr
            if kk >= w:
                e = "0" if op != "bvashr" else "(ite (>= %s %d) %d 0)" % (a[0], 1 << (w - 1), (1 << w) - 1)
            elif op == "bvshl":
                e = "(mod (* %s %d) %d)" % (a[0], 1 << kk, 1 << w)
            elif op == "bvlshr":
                e = "(div %s %d)" % (a[0], 1 << kk)
            else:
                e = "(mod (div %s %d) %d)" % (sview(a[0], w), 1 << kk, 1 << w)
        elif op in ("bvand", "bvor", "bvxor"):
            x, y = t.args
            if T.is_const(x):
                x, y = y, x
                a = [a[1], a[0]]
            if not T.is_const(y):
                raise EmitUnsupported("bitwise on two symbolic operands")
            c = y.attr
            full = (1 << w) - 1
            if op == "bvand":
                if c & (c + 1) == 0:          # low mask 2^k - 1
                    e = "(mod %s %d)" % (a[0], c + 1)
                elif (full ^ c) & ((full ^ c) + 1) == 0:   # high mask
                    e = "(- %s (mod %s %d))" % (a[0], a[0], (full ^ c) + 1)
                elif c & (c - 1) == 0:        # single bit
                    k = c.bit_length() - 1
                    e = "(* %d (mod (div %s %d) 2))" % (c, a[0], 1 << k)
                else:
                    raise EmitUnsupported("bvand with general mask")
            elif op == "bvxor":
                if c == full:
                    e = "(- %d %s)" % (full, a[0])
                elif c == 1 << (w - 1):
                    e = "(mod (+ %s %d) %d)" % (a[0], c, 1 << w)
                else:
                    raise EmitUnsupported("bvxor with general constant")
            else:
                if c & (c - 1) == 0 and c:
                    k = c.bit_length() - 1
                    e = "(+ %s (* %d (- 1 (mod (div %s %d) 2))))" % (a[0], c, a[0], 1 << k)
                else:
                    raise EmitUnsupported("bvor with general constant")
        elif op == "bvnot":
            e = "(- %d %s)" % ((1 << w) - 1, a[0])
        elif op == "eq":
            e = "(= %s %s)" % (a[0], a[1])
        elif op in ("bvult", "bvule"):
            e = "(%s %s %s)" % ("<" if op == "bvult" else "<=", a[0], a[1])
        elif op in ("bvslt", "bvsle"):
            w0 = T.width(t.args[0])
            e = "(%s %s %s)" % ("<" if op == "bvslt" else "<=", sview(a[0], w0), sview(a[1], w0))
        elif op == "not":
            e = "(not %s)" % a[0]
        elif op in ("and", "or"):
            e = "(%s %s)" % (op, " ".join(a))
        elif op == "ite":
            e = "(ite %s %s %s)" % tuple(a)
        elif op == "zext":
            ref[t.uid] = a[0]
            continue
        elif op == "sext":
            w0 = T.width(t.args[0])
            e = "(mod %s %d)" % (sview(a[0], w0), 1 << w)
        elif op == "extract":
            hi, lo = t.attr
            e = "(mod (div %s %d) %d)" % (a[0], 1 << lo, 1 << (hi - lo + 1)) if lo else \
                "(mod %s %d)" % (a[0], 1 << (hi + 1))
        elif op == "concat":
            e = "(+ (* %s %d) %s)" % (a[0], 1 << T.width(t.args[1]), a[1])
        elif op == "ovf":
            kind = t.attr
            w0 = T.width(t.args[0])
            if kind[0] == "s":
                x, y = sview(a[0], w0), sview(a[1], w0)
                lo, hi = -(1 << (w0 - 1)), (1 << (w0 - 1)) - 1
            else:
                x, y = a[0], a[1]
                lo, hi = 0, (1 << w0) - 1
            r = "(%s %s %s)" % ({"add": "+", "sub": "-", "mul": "*"}[kind[1:]], x, y)
            e = "(not (and (<= %s %s) (<= %s %s)))" % (ilit(lo), r, r, ilit(hi))
        elif op == "sval":
            e = sview(a[0], T.width(t.args[0]))
        elif op == "uval":
            ref[t.uid] = a[0]
            continue
        elif op in ("iadd", "isub", "imul"):
            e = "(%s %s %s)" % ({"iadd": "+", "isub": "-", "imul": "*"}[op], a[0], a[1])
        elif op in ("idiv", "imod") and div_abstraction and not T.is_const(t.args[1]):
            qn, rn = absdiv(a[0], a[1], (a[0], a[1]))
            ref[t.uid] = qn if op == "idiv" else rn
            continue
        elif op == "idiv":
            e = "(div %s %s)" % (a[0], a[1])
        elif op == "imod":
            e = "(mod %s %s)" % (a[0], a[1])
        elif op == "ile":
            e = "(<= %s %s)" % (a[0], a[1])
        elif op == "ilt":
            e = "(< %s %s)" % (a[0], a[1])
        else:
            raise EmitUnsupported("int emission of " + op)
        n += 1
        nm = "t%d" % n
        lines.append("(define-fun %s () %s %s)" % (nm, "Bool" if so == T.BOOL else "Int", e))
        ref[t.uid] = nm
    for asr in assertions:
        lines.append("(assert %s)" % ref[asr.uid])
    lines.append("(check-sat)")
    if values:
        lines.append("(get-value (%s))" % " ".join(ref[v.uid] for v in values))
    return "\n".join(lines) + "\n"


# --------------------------------------------------------------------------- concrete evaluation

class Unspecified(Exception):
    pass


def evaluate(root, env, uf_impl=None):
    """env: var name -> python value (int for BV/INT, bool for Bool). Returns python value.
    Raises Unspecified when the value depends on an unspecified result (fptosi out of range...)."""
    val = {}
    for t in T.subterms([root]):
        op = t.op
        if op == "const":
            val[t.uid] = t.attr
            continue
        if op == "var":
            if t.attr not in env:
                if str(t.attr).startswith("undef!"):
                    val[t.uid] = None          # an undefined value: unspecified unless the result does not depend on it
                    continue
                raise KeyError("no value for variable %s" % t.attr)
            val[t.uid] = env[t.attr]
            continue
        if op == "ite":
            c = val[t.args[0].uid]
            if c is None:
                val[t.uid] = None
            else:
                val[t.uid] = val[t.args[1].uid] if c else val[t.args[2].uid]
            continue
        a = [val[x.uid] for x in t.args]
        if op in ("and", "or"):
            # lazy wrt Unspecified: treat None as unknown
            if op == "and":
                if any(x is False for x in a):
                    val[t.uid] = False
                elif any(x is None for x in a):
                    val[t.uid] = None
                else:
                    val[t.uid] = True
            else:
                if any(x is True for x in a):
                    val[t.uid] = True
                elif any(x is None for x in a):
                    val[t.uid] = None
                else:
                    val[t.uid] = False
            continue
        if any(x is None for x in a):
            val[t.uid] = None
            continue
        so = t.sort
        w = so[1] if isinstance(so, tuple) else None
        if op in T._BV_FOLD:
            r = T._BV_FOLD[op](a[0], a[1], w) & ((1 << w) - 1)
        elif op == "bvnot":
            r = ~a[0] & ((1 << w) - 1)
        elif op == "eq":
            r = a[0] == a[1]
        elif op in ("bvult", "bvule"):
            r = a[0] < a[1] if op == "bvult" else a[0] <= a[1]
        elif op in ("bvslt", "bvsle"):
            w0 = T.width(t.args[0])
            x, y = T._sgn(a[0], w0), T._sgn(a[1], w0)
            r = x < y if op == "bvslt" else x <= y
        elif op == "not":
            r = not a[0]
        elif op == "zext":
            r = a[0]
        elif op == "sext":
            r = T._sgn(a[0], T.width(t.args[0])) & ((1 << w) - 1)
        elif op == "extract":
            hi, lo = t.attr
            r = (a[0] >> lo) & ((1 << (hi - lo + 1)) - 1)
        elif op == "concat":
            r = (a[0] << T.width(t.args[1])) | a[1]
        elif op == "ovf":
            kind = t.attr
            w0 = T.width(t.args[0])
            x, y = a
            if kind[0] == "s":
                x, y = T._sgn(x, w0), T._sgn(y, w0)
                lo, hi = -(1 << (w0 - 1)), (1 << (w0 - 1)) - 1
            else:
                lo, hi = 0, (1 << w0) - 1
            rr = {"add": x + y, "sub": x - y, "mul": x * y}[kind[1:]]
            r = not (lo <= rr <= hi)
        elif op in ("fp.add", "fp.sub", "fp.mul", "fp.div"):
            r = fpeval.binop(op[3:], t.attr, a[0], a[1])
        elif op in ("fp.sqrt", "fp.rtz", "fp.rtn", "fp.rtp", "fp.rna", "fp.rne"):
            r = fpeval.unop(op[3:], t.attr, a[0])
        elif op == "fp.cmp":
            r = fpeval.cmp(t.attr[0], t.attr[1], a[0], a[1])
        elif op == "fp.cvt":
            r = fpeval.cvt(t.attr[0], t.attr[1], a[0])
        elif op in ("fp.from_sint", "fp.from_uint"):
            r = fpeval.from_int(op == "fp.from_sint", t.attr, a[0], T.width(t.args[0]))
        elif op in ("fp.to_sint", "fp.to_uint"):
            r = fpeval.to_int(op == "fp.to_sint", t.attr[0], a[0], t.attr[1])
        elif op == "uf":
            if uf_impl is None:
                r = None
            else:
                r = uf_impl(t.attr, a)
        elif op == "sval":
            r = T._sgn(a[0], T.width(t.args[0]))
        elif op == "uval":
            r = a[0]
        elif op == "iadd":
            r = a[0] + a[1]
        elif op == "isub":
            r = a[0] - a[1]
        elif op == "imul":
            r = a[0] * a[1]
        elif op == "idiv":
            if a[1] == 0:
                r = None
            else:
                r = a[0] // a[1] if a[1] > 0 else -(a[0] // -a[1])
        elif op == "imod":
            r = None if a[1] == 0 else a[0] % abs(a[1])
        elif op == "ile":
            r = a[0] <= a[1]
        elif op == "ilt":
            r = a[0] < a[1]
        else:
            raise ValueError("evaluate: " + op)
        val[t.uid] = r
    return val[root.uid]
