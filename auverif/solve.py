"""Solver portfolio: runs z3 5.1 (z3-new) / cvc5 CLIs on emitted SMT-LIB text under time and memory caps."""
import os
import re
import subprocess
import tempfile
import time
from . import smt
from . import terms as T

Z3 = "/usr/local/bin/z3-new"
CVC5 = "/usr/bin/cvc5"
MEM_KB = 8 * 1024 * 1024

ROUTES = {
    # name: (emission, argv-builder)
    "z3-int": ("int", lambda f, to: [Z3, "-T:%d" % to, f]),
    "cvc5-int": ("int", lambda f, to: [CVC5, "--tlimit=%d" % (to * 1000), f]),
    "z3-intq": ("intq", lambda f, to: [Z3, "-T:%d" % to, f]),
    "cvc5-intq": ("intq", lambda f, to: [CVC5, "--tlimit=%d" % (to * 1000), f]),
    "cvc5-bvint": ("bv", lambda f, to: [CVC5, "--solve-bv-as-int=sum", "--tlimit=%d" % (to * 1000), f]),
    "z3-bv": ("bv", lambda f, to: [Z3, "-T:%d" % to, f]),
    "cvc5-bv": ("bv", lambda f, to: [CVC5, "--fp-exp", "--tlimit=%d" % (to * 1000), f]),
}


def _limit():
    import resource
    resource.setrlimit(resource.RLIMIT_AS, (MEM_KB * 1024, MEM_KB * 1024))


def parse_model(text):
    """parse '((a v) (b v) ...)' from get-value into a list of python ints/bools (in order)."""
    i = text.find("((")
    if i < 0:
        return None
    s = text[i:]
    toks = re.findall(r"\(|\)|\|[^|]*\||[^\s()]+", s)
    pos = [0]

    def parse():
        tok = toks[pos[0]]
        pos[0] += 1
        if tok == "(":
            lst = []
            while toks[pos[0]] != ")":
                lst.append(parse())
            pos[0] += 1
            return lst
        return tok

    tree = parse()

    def val(v):
        if isinstance(v, str):
            if v.startswith("#x"):
                return int(v[2:], 16)
            if v.startswith("#b"):
                return int(v[2:], 2)
            if v == "true":
                return True
            if v == "false":
                return False
            return int(v)
        if v[0] == "-":
            return -val(v[1])
        if v[0] == "_" and v[1].startswith("bv"):
            return int(v[1][2:])
        raise ValueError("model value %r" % (v,))

    return [val(pair[1]) for pair in tree]


class Result:
    def __init__(self):
        self.status = "unknown"   # unsat | sat | unknown
        self.model = None
        self.route = None
        self.secs = 0.0
        self.attempts = []        # (route, status, secs)


def run_text(route, text, timeout, workdir):
    emission, argv = ROUTES[route]
    fd, path = tempfile.mkstemp(suffix=".smt2", dir=workdir)
    with os.fdopen(fd, "w") as f:
        f.write(text)
    t0 = time.time()
    try:
        p = subprocess.run(argv(path, timeout), stdout=subprocess.PIPE, stderr=subprocess.PIPE,
                           timeout=timeout + 5, preexec_fn=_limit, universal_newlines=True)
        out = p.stdout
        err = p.stderr
    except subprocess.TimeoutExpired:
        out, err = "timeout", ""
    dt = time.time() - t0
    os.unlink(path)
    lines = [l.strip() for l in out.strip().splitlines()]
    verdict = None
    for l in lines:
        if l in ("sat", "unsat", "unknown", "timeout"):
            verdict = l
            break
        if "(error" in l:
            return "error", None, dt, l[:300]
    if verdict is None and ("(error" in err or "rror" in err):
        return "error", None, dt, err[:300]
    if verdict == "unsat":
        return "unsat", None, dt, ""
    if verdict == "sat":
        return "sat", out, dt, ""
    return "unknown", None, dt, out[:100]


def solve(assertions, values, routes, timeout, workdir, texts=None, want_all=False):
    """Try routes in order; first definitive answer wins (or all routes when want_all)."""
    res = Result()
    texts = texts if texts is not None else {}
    answers = {}
    for route in routes:
        emission = ROUTES[route][0]
        if emission not in texts:
            try:
                texts[emission] = smt.emit(emission, assertions, values)
            except smt.EmitUnsupported as e:
                texts[emission] = None
                res.attempts.append((route, "unsupported:" + str(e), 0.0))
        text = texts[emission]
        if text is None:
            continue
        st, out, dt, info = run_text(route, text, timeout, workdir)
        res.attempts.append((route, st, round(dt, 3)))
        res.secs += dt
        if st in ("unsat", "sat"):
            answers[route] = st
            if res.route is None:
                res.status = st
                res.route = route
                if st == "sat" and values:
                    try:
                        res.model = parse_model(out[out.find("sat") + 3:])
                    except Exception as e:   # noqa
                        res.model = None
            if not want_all:
                break
    if len(set(answers.values())) > 1:
        res.status = "disagree"
    return res
