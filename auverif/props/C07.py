"""C07 - Common unit is the greatest common divisor unit, symmetric in its inputs (DESIGN.md section 6, C07)."""
import itertools
from fractions import Fraction
from math import gcd
from .. import framework as F
from .. import terms as T
from .. import unitmodel as U

INT64_MAX = (1 << 63) - 1


class Ent:
    """one list element: C++ type, model unit, whether it is a named type, and the unit it is a scaling of (if any)"""

    def __init__(self, cxx, unit, named, base=None, label=None):
        self.cxx = cxx
        self.unit = unit
        self.named = named
        self.base = base          # Ent of the unscaled unit for anonymous scaled units
        self.label = label or cxx


def lib(name):
    u = U.BY_NAME[name]
    return Ent(u.cxx, u, True)


def pref(p, e):
    return Ent("%s<%s>" % (p, e.cxx), U.prefixed(p, e.unit), True)


def anon(cxx, unit):
    return Ent(cxx, unit, False)


def scaled(base, n, d):
    g = gcd(n, d)
    n, d = n // g, d // g
    assert (n, d) != (1, 1)
    s = "%s{}" % base.cxx
    if n != 1:
        s += " * mag<%dull>()" % n
    if d != 1:
        s += " / mag<%dull>()" % d
    return Ent("decltype(%s)" % s, base.unit.scaled(Fraction(n, d)), False, base=base,
               label="%s*%d/%d" % (base.label, n, d))


def groups():
    """same-dimension pools built from the model table (library units, prefixed units, a few compound spellings)"""
    L = lib
    m, s = L("Meters"), L("Seconds")
    mps = anon("UnitQuotientT<Meters, Seconds>", m.unit / s.unit)
    g = {
        "length": [m, L("Inches"), L("Feet"), L("Yards"), L("Miles"), L("Fathoms"), L("Furlongs"), L("NauticalMiles"),
                   pref("Kilo", m), pref("Centi", m), pref("Milli", m), pref("Micro", L("Inches")), pref("Kibi", L("Feet"))],
        "time": [s, L("Minutes"), L("Hours"), L("Days"), pref("Milli", s), pref("Nano", s), pref("Kilo", s), pref("Mebi", s)],
        "volume": [L("Liters"), L("USGallons"), L("USQuarts"), L("USPints"),
                   anon("UnitPowerT<Meters, 3>", m.unit.pow(3)), anon("UnitPowerT<Inches, 3>", L("Inches").unit.pow(3)),
                   anon("decltype(cubed(Centi<Meters>{}))", U.prefixed("Centi", m.unit).pow(3)), pref("Milli", L("Liters"))],
        "mass": [L("Grams"), L("PoundsMass"), L("Slugs"), pref("Kilo", L("Grams")), pref("Milli", L("Grams"))],
        "force": [L("Newtons"), L("PoundsForce"), pref("Kilo", L("Newtons")),
                  anon("decltype(Kilo<Grams>{} * Meters{} / squared(Seconds{}))", L("Newtons").unit)],
        "pressure": [L("Pascals"), L("Bars"), pref("Kilo", L("Pascals")), pref("Milli", L("Bars")),
                     anon("UnitQuotientT<PoundsForce, UnitPowerT<Inches, 2>>", L("PoundsForce").unit / L("Inches").unit.pow(2))],
        "information": [L("Bits"), L("Bytes"), pref("Kibi", L("Bytes")), pref("Kilo", L("Bits")), pref("Mebi", L("Bits")),
                        pref("Kilo", L("Bytes"))],
        "angle_deg": [L("Degrees"), L("Revolutions"), L("Arcminutes"), L("Arcseconds"), pref("Milli", L("Degrees"))],
        "dimensionless": [L("Unos"), L("Percent"), pref("Milli", L("Unos")), pref("Kibi", L("Unos"))],
        "speed": [L("Knots"), mps, anon("UnitQuotientT<Miles, Hours>", L("Miles").unit / L("Hours").unit),
                  anon("decltype(Kilo<Meters>{} / Hours{})", U.prefixed("Kilo", m.unit) / L("Hours").unit),
                  anon("UnitQuotientT<Feet, Seconds>", L("Feet").unit / s.unit)],
        "frequency": [L("Hertz"), L("Becquerel"), anon("UnitInverseT<Seconds>", s.unit.pow(-1)),
                      anon("UnitInverseT<Minutes>", L("Minutes").unit.pow(-1)), pref("Kilo", L("Hertz")),
                      pref("Mega", L("Becquerel"))],
        "temperature": [L("Kelvins"), L("Celsius"), L("Fahrenheit"), pref("Milli", L("Kelvins")), pref("Centi", L("Celsius"))],
        "acceleration": [L("StandardGravity"), anon("decltype(Meters{} / squared(Seconds{}))", m.unit / s.unit.pow(2)),
                         anon("UnitQuotientT<Feet, UnitPowerT<Seconds, 2>>", L("Feet").unit / s.unit.pow(2))],
    }
    bases = {"length": [m, L("Feet"), L("Inches")], "time": [s, L("Minutes")], "information": [L("Bytes")], "speed": [mps],
             "frequency": [L("Hertz"), L("Becquerel")], "mass": [L("Grams")], "dimensionless": [L("Unos")]}
    irr = {
        "angle": [L("Radians"), L("Degrees"), L("Revolutions"), L("Arcminutes"), pref("Milli", L("Radians")),
                  anon("decltype(Radians{} * Magnitude<Pi>{})", L("Radians").unit.scaled(U.PI)),
                  anon("decltype(Radians{} / mag<7>())", L("Radians").unit.scaled(Fraction(1, 7)))],
        "length_pi": [m, L("Feet"), anon("decltype(Meters{} * Magnitude<Pi>{})", m.unit.scaled(U.PI)),
                      anon("decltype(Feet{} / Magnitude<Pi>{} * mag<3>())", L("Feet").unit.scaled(U.PI.pow(-1)).scaled(3))],
        "length_root": [m, anon("decltype(root<2>(squared(Meters{}) * mag<2>()))", (m.unit.pow(2).scaled(2)).pow(Fraction(1, 2))),
                        anon("decltype(root<3>(cubed(Feet{}) * mag<5>()))", (L("Feet").unit.pow(3).scaled(5)).pow(Fraction(1, 3))),
                        L("Inches")],
    }
    return g, bases, irr


def rand_factor(rng, bits):
    """random positive integer below 2^bits, biased towards smooth numbers so that gcds are non-trivial"""
    if rng.random() < 0.5:
        n = 1
        while True:
            p = rng.choice([2, 2, 2, 3, 3, 5, 5, 7, 11, 13, 127, 381, 1000, 1024])
            if n * p >= (1 << bits):
                break
            n *= p
            if rng.random() < 0.25:
                break
        return n
    return rng.randrange(1, 1 << rng.randrange(1, bits + 1)) | rng.choice([0, 1])


def excluded(ents):
    """documented ordering limitation: two distinct named units (list members or the units they are scalings of) of
    identical dimension, magnitude and origin; anonymous/anonymous twins are left out as well (conservative)"""
    seen = {}
    for e in ents:
        for x in (e, e.base):
            if x is not None:
                seen[x.cxx] = x
    xs = list(seen.values())
    for a, b in itertools.combinations(xs, 2):
        if a.unit.key() == b.unit.key() and a.named == b.named:
            return True
    return False


class C07(F.Check):
    pid = "C07"
    level = "model_checking"
    chunk_size = 60
    assumptions = [
        "clang 14 front end and -O1 pipeline, own LLVM-IR->SMT encoder, z3 5.1 / cvc5 1.0.3 are trusted",
        "unit lists (2..4 elements) are enumerated: same-dimension library units, prefixed units, a few compound spellings and VERIF_SEED-random "
        "anonymous scaled units decltype(B{} * mag<N>() / mag<D>()) with N, D < 2^40; the quantifier over stored values (all 2^64 int64 values) "
        "is solver-decided per list element",
        "m_i is read off each to-common-unit kernel (value at x = 1; value at 0 must be 0), then (a) proved to describe the kernel for ALL x "
        "(no UB => result == x*m_i in Z; x*m_i representable => no UB; no division instruction), (b) compared with the independent exact model "
        "(auverif/unitmodel.py, gcd of rationals): positive integers, one common unit U_i/m_i for the whole list, jointly coprime, equal to the "
        "model's U_i / gcd(U_1..U_k)",
        "lists whose model multipliers do not fit int64 (m_i >= 2^62) only get the closed (type-level) obligations",
        "type identity under permutation / repetition, 'is one of the inputs', and equivalence under nesting are compile-time facts observed as "
        "closed booleans, not solver-decided; for irrational pairwise ratios only those symmetry booleans are claimed",
        "excluded, as the property states: lists that contain two distinct named units (as members or as the unit an anonymous member is a scaling of) "
        "of identical dimension, magnitude and origin, e.g. Hertz with Becquerel; pairs of distinct anonymous units of identical magnitude are left out too",
        "when two inputs both equal the gcd unit (a named unit and an anonymous twin, or Kelvins and Celsius) the claim is that the result is one of them",
        "only UB traps count (signed overflow of x*m_i)",
    ]

    def bounds(self):
        return {"stored values": "all 2^64 int64 values per kernel", "lists": len(getattr(self, "lists", [])), "list sizes": "2..4",
                "scale factors": "N, D < 2^40", "permutations": "all (k <= 3) / all 24 in thorough, 8 seeded in quick (k = 4)"}

    # ---- list generation
    def gen_lists(self):
        rng = self.rng
        g, bases, irr = groups()
        nlists = 60 if self.tier == "quick" else 600
        fixed = [
            [g["length"][2], g["length"][0], g["length"][1]],               # Feet, Meters, Inches
            [g["length"][4], g["length"][7]],                               # Miles, NauticalMiles
            [g["length"][4], g["length"][7], g["length"][2], g["length"][8]],
            [g["time"][0], g["time"][1], g["time"][3]],
            [g["length"][8], scaled(g["length"][0], 1000, 1)],              # Kilo<Meters> and its anonymous twin
            [g["frequency"][0], g["frequency"][2]],                         # Hertz, 1/s
            [g["temperature"][0], g["temperature"][1]],                     # Kelvins, Celsius (same magnitude, different origin)
            [g["temperature"][2], g["temperature"][0], g["temperature"][1]],
            [g["volume"][0], g["volume"][1], g["volume"][3]],
            [g["information"][1], g["information"][2], g["information"][3]],
            [scaled(g["length"][0], (1 << 40) - 87, (1 << 40) - 167), g["length"][0]],
            [scaled(g["length"][0], 3, 7), scaled(g["length"][0], 5, 14), scaled(g["length"][2], 1, 3)],
            [g["dimensionless"][0], g["dimensionless"][1], g["dimensionless"][3]],
            [g["mass"][1], g["mass"][2], g["mass"][3]],
            # integer, jointly coprime multiples of a magnitude-1 base unit together with ONE rational multiple: the gcd of integers is 1, the
            # common unit must still pick up the denominator
            [scaled(g["length"][0], 5, 2), scaled(g["length"][0], 2, 1), scaled(g["length"][0], 3, 1)],
            [scaled(g["time"][0], 3, 1), scaled(g["time"][0], 7, 3), scaled(g["time"][0], 5, 1)],
            [scaled(g["length"][0], 2, 1), scaled(g["length"][0], 3, 1), scaled(g["length"][0], 5, 1), scaled(g["length"][0], 7, 4)],
            [g["length"][0], scaled(g["length"][0], 3, 1), scaled(g["length"][0], 1, 8)],
        ]
        lists = [("fixed", x) for x in fixed]
        names = sorted(g)
        seen_sig = {tuple(sorted(e.cxx for e in x)) for _, x in lists}
        tries = 0
        while len(lists) < nlists and tries < nlists * 50:
            tries += 1
            gn = rng.choice(names)
            k = rng.choice([2, 2, 3, 3, 4])
            pool = list(g[gn])
            ents = []
            for _ in range(k):
                r = rng.random()
                if gn in bases and r < 0.45:
                    b = rng.choice(bases[gn])
                    bits = rng.choice([4, 8, 12, 20, 30, 40])
                    n, d = rand_factor(rng, bits), rand_factor(rng, rng.choice([1, 4, 8, 12, 20, 40]))
                    if n == d:
                        n += 1
                    ents.append(scaled(b, n, d))
                else:
                    ents.append(rng.choice(pool))
            if len({e.cxx for e in ents}) != len(ents):
                continue
            sig = tuple(sorted(e.cxx for e in ents))
            if sig in seen_sig:
                continue
            seen_sig.add(sig)
            lists.append((gn, ents))
        # units that all carry the SAME power of pi still have rational pairwise ratios (the property's domain): derive such
        # lists from generated rational ones, plus two fixed cases where a factor of 3 meets pi
        def with_pi(e, k):
            spell = {1: "* Magnitude<Pi>{}", -1: "/ Magnitude<Pi>{}", 2: "* pow<2>(Magnitude<Pi>{})"}[k]
            return Ent("decltype(%s{} %s)" % (e.cxx, spell), e.unit.scaled(U.PI.pow(k)), False, label="%s*pi^%d" % (e.label, k))
        mm = g["length"][0]
        pil = [("length_pi_common", [with_pi(scaled(mm, 10, 1), 1), with_pi(scaled(mm, 12, 1), 1)]),
               ("length_pi_common", [with_pi(scaled(mm, 2, 1), 1), with_pi(scaled(mm, 3, 1), 1)]),
               ("length_pi_common", [with_pi(scaled(mm, 12, 1), 1), with_pi(scaled(mm, 10, 1), 1), with_pi(scaled(mm, 9, 4), 1)]),
               ("length_pi_common", [with_pi(scaled(mm, 6, 1), -1), with_pi(scaled(mm, 15, 2), -1)])]
        for j, (gn, ents) in enumerate(list(lists)):
            if gn != "fixed" and j % (6 if self.tier == "quick" else 3) == 0 and all(not e.named or True for e in ents):
                k = rng.choice([1, -1, 2])
                pil.append((gn + "_pi_common", [with_pi(e, k) for e in ents]))
        lists += pil
        out = []
        nexcl = 0
        for gn, ents in lists:
            if excluded(ents):
                nexcl += 1
                continue
            out.append((gn, ents))
        self.extra_cov["lists_excluded_identical_units"] = nexcl
        # irrational lists: symmetry booleans only
        irrl = [("angle", [irr["angle"][1], irr["angle"][0]]),                       # Degrees, Radians
                ("angle", [irr["angle"][1], irr["angle"][0], irr["angle"][2]]),      # Degrees, Radians, Revolutions
                ("angle", [irr["angle"][2], irr["angle"][3], irr["angle"][0], irr["angle"][4]])]
        for gn in sorted(irr):
            pool = irr[gn]
            cands = [list(c) for k in (2, 3) for c in itertools.combinations(pool, k)]
            rng.shuffle(cands)
            for c in cands[: (4 if self.tier == "quick" else 40)]:
                rat = True
                for a, b in itertools.combinations(c, 2):
                    if not U.ratio(a.unit, b.unit).is_rational():
                        rat = False
                if not rat and not excluded(c) and [x.cxx for x in c] not in [[y.cxx for y in l] for _, l in irrl]:
                    irrl.append((gn, c))
        return out, irrl

    def perms_of(self, ents):
        ps = list(itertools.permutations(range(len(ents))))[1:]
        if len(ents) == 4 and self.tier == "quick":
            self.rng.shuffle(ps)
            ps = ps[:8]
        return ps

    def kernels(self):
        ks = []
        self.lists, self.irr_lists = self.gen_lists()
        self.conv = []      # (kernel name, list index, element index, family, key)
        self.closed = []    # (kernel name, expected bool, key)
        self.isinput = {}   # list index -> [kernel names]
        self.model = {}     # list index -> model multipliers
        nbig = 0

        def cu(ents):
            return "CommonUnitT<%s>" % ", ".join(e.cxx for e in ents)

        def add_closed(name, body, expected, key, fam):
            k = F.Kernel(name, "bool", [], "return %s;" % body, key=key, family=fam)
            ks.append(k)
            self.closed.append((k.name, expected, key))

        for li, (gn, ents) in enumerate(self.lists):
            ms, G = U.common_unit([e.unit for e in ents])
            self.model[li] = ms
            labels = [e.label for e in ents]
            key0 = {"group": gn, "list": labels, "model_m": [str(m) for m in ms]}
            C = cu(ents)
            fits = all(m < (1 << 62) for m in ms)
            if not fits:
                nbig += 1
            if fits:
                qs = ", ".join("Quantity<%s, int64_t>" % e.cxx for e in ents)
                for ui, e in enumerate(ents):
                    key = dict(key0, unit=e.label, m_model=ms[ui])
                    k = F.Kernel("c07_tocu_%d_%d" % (li, ui), "int64_t", [("int64_t", "x")],
                                 "return make_quantity<%s>(x).coerce_in(%s{});" % (e.cxx, C), key=key, family="to_common_unit")
                    ks.append(k)
                    self.conv.append((k.name, li, ui, "cu", key))
                    k = F.Kernel("c07_toct_%d_%d" % (li, ui), "int64_t", [("int64_t", "x")],
                                 "return make_quantity<%s>(x).coerce_in(typename std::common_type_t<%s>::Unit{});" % (e.cxx, qs),
                                 key=key, family="to_common_type")
                    ks.append(k)
                    self.conv.append((k.name, li, ui, "ct", key))
            # closed: permutations, repetitions, identity with an input, nesting
            for pi, p in enumerate(self.perms_of(ents)):
                pe = [ents[i] for i in p]
                add_closed("c07_perm_%d_%d" % (li, pi), "std::is_same<%s, %s>::value" % (C, cu(pe)), True,
                           dict(key0, perm=[x.label for x in pe]), "perm")
            reps = [ents + [ents[0]], [ents[-1]] + ents + [ents[-1]], [x for e in ents for x in (e, e)]]
            for ri, r in enumerate(reps[: (2 if self.tier == "quick" else 3)]):
                add_closed("c07_rep_%d_%d" % (li, ri), "std::is_same<%s, %s>::value" % (C, cu(r)), True,
                           dict(key0, repeated=[x.label for x in r]), "repeat")
            # the value-level spelling common_unit(u1, u2, ...) denotes the same type as CommonUnitT<U1, U2, ...>, in every argument order
            forders = [list(range(len(ents)))] + [list(p) for p in self.perms_of(ents)[: (2 if self.tier == "quick" else 6)]]
            if len(ents) >= 3:
                forders.append(list(range(len(ents)))[::-1])
                forders.append(list(range(1, len(ents))) + [0])
            seen_o = set()
            for fi, p in enumerate(forders):
                if tuple(p) in seen_o:
                    continue
                seen_o.add(tuple(p))
                pe = [ents[i] for i in p]
                add_closed("c07_fn_%d_%d" % (li, fi), "std::is_same<std::remove_cv_t<decltype(common_unit(%s))>, %s>::value" % (
                    ", ".join("%s{}" % x.cxx for x in pe), C), True, dict(key0, function_spelling=[x.label for x in pe]), "function_spelling")
            names = []
            for ui, e in enumerate(ents):
                k = F.Kernel("c07_isinput_%d_%d" % (li, ui), "bool", [], "return std::is_same<%s, %s>::value;" % (C, e.cxx),
                             key=dict(key0, unit=e.label), family="is_input")
                ks.append(k)
                names.append(k.name)
            self.isinput[li] = names
            if len(ents) >= 3:
                nest = "CommonUnitT<CommonUnitT<%s, %s>, %s>" % (ents[0].cxx, ents[1].cxx, ", ".join(e.cxx for e in ents[2:]))
                add_closed("c07_nest_%d_a" % li, "are_units_quantity_equivalent(%s{}, %s{})" % (nest, C), True,
                           dict(key0, nesting="((0,1),rest)"), "nested")
                nest2 = "CommonUnitT<%s, CommonUnitT<%s>>" % (ents[0].cxx, ", ".join(e.cxx for e in ents[1:]))
                add_closed("c07_nest_%d_b" % li, "are_units_quantity_equivalent(%s{}, %s{})" % (nest2, C), True,
                           dict(key0, nesting="(0,(rest))"), "nested")
                # two nested common units, each of two (or more) inputs, in both orders - type- and value-level spelling
                n_ = len(ents)
                splits = [((0, 1), tuple(range(2, n_)))] if n_ == 3 else [((0, 1), (2, 3)), ((0, 2), (1, 3)), ((0, 3), (1, 2))]
                if n_ == 3:
                    splits.append(((0, 1), (1, 2)))
                    splits.append(((0, 2), (1, 2)))
                for si, (g1, g2) in enumerate(splits):
                    for oi, (ga, gb) in enumerate(((g1, g2), (g2, g1))):
                        if len(ga) < 1 or len(gb) < 1:
                            continue
                        ta = "CommonUnitT<%s>" % ", ".join(ents[i].cxx for i in ga)
                        tb = "CommonUnitT<%s>" % ", ".join(ents[i].cxx for i in gb)
                        add_closed("c07_nest2_%d_%d_%d" % (li, si, oi), "are_units_quantity_equivalent(CommonUnitT<%s, %s>{}, %s{})" % (ta, tb, C), True,
                                   dict(key0, nesting="(%s),(%s)" % (ga, gb)), "nested")
                        va = "common_unit(%s)" % ", ".join("%s{}" % ents[i].cxx for i in ga)
                        vb = "common_unit(%s)" % ", ".join("%s{}" % ents[i].cxx for i in gb)
                        add_closed("c07_nest2v_%d_%d_%d" % (li, si, oi), "are_units_quantity_equivalent(common_unit(%s, %s), %s{})" % (va, vb, C), True,
                                   dict(key0, nesting="value-level (%s),(%s)" % (ga, gb)), "nested")
                    add_closed("c07_nest2s_%d_%d" % (li, si), "std::is_same<CommonUnitT<CommonUnitT<%s>, CommonUnitT<%s>>, CommonUnitT<CommonUnitT<%s>, CommonUnitT<%s>>>::value" % (
                        ", ".join(ents[i].cxx for i in g1), ", ".join(ents[i].cxx for i in g2), ", ".join(ents[i].cxx for i in g2), ", ".join(ents[i].cxx for i in g1)),
                        True, dict(key0, nesting="order of the two nested common units"), "nested")
            else:
                nest = "CommonUnitT<CommonUnitT<%s, %s>, %s>" % (ents[0].cxx, ents[1].cxx, ents[0].cxx)
                add_closed("c07_nest_%d_a" % li, "are_units_quantity_equivalent(%s{}, %s{})" % (nest, C), True,
                           dict(key0, nesting="((0,1),0)"), "nested")
            # each input is a whole multiple of the common unit, as the library itself sees it
            for ui, e in enumerate(ents):
                add_closed("c07_divides_%d_%d" % (li, ui), "is_integer(unit_ratio(%s{}, %s{}))" % (e.cxx, C), True,
                           dict(key0, unit=e.label), "divides")
        self.extra_cov["lists_with_multipliers_beyond_int64"] = nbig
        for li, (gn, ents) in enumerate(self.irr_lists):
            C = cu(ents)
            key0 = {"group": gn, "list": [e.label for e in ents], "irrational": True}
            for pi, p in enumerate(list(itertools.permutations(range(len(ents))))[1:]):
                pe = [ents[i] for i in p]
                add_closed("c07_irrperm_%d_%d" % (li, pi), "std::is_same<%s, %s>::value" % (C, cu(pe)), True,
                           dict(key0, perm=[x.label for x in pe]), "perm_irrational")
            add_closed("c07_irrrep_%d" % li, "std::is_same<%s, %s>::value" % (C, cu(ents + [ents[0]])), True,
                       dict(key0, repeated=True), "repeat_irrational")
            add_closed("c07_irrdim_%d" % li, "has_same_dimension(%s{}, %s{})" % (C, ents[0].cxx), True, key0, "dim_irrational")
        return ks

    def derive(self, K, name):
        e0 = K[name](T.const_bv(0, 64))
        e1 = K[name](T.const_bv(1, 64))
        if not (T.is_const(e0.ret) and T.is_const(e1.ret)):
            return None
        return T._sgn(e1.ret.attr, 64), T._sgn(e0.ret.attr, 64)

    def obligations(self, K):
        obs = []
        derived = {}
        ndrop = 0
        xs = [("x", T.BV(64))]
        for name, li, ui, fam, key in self.conv:
            tag = "%s_%d_%d" % (fam, li, ui)
            if K[name].kernel.dropped:
                ndrop += 1
                self.notes.append("model says this conversion compiles but it was dropped: %s %s" % (key, K[name].kernel.dropped[:120]))
                ob = F.Ob("skip:" + tag, [], None, key=key)
                ob.status = "skipped-domain"
                obs.append(ob)
                continue
            d = self.derive(K, name)
            if d is None:
                self.inconclusive.append("%s: multiplier could not be read off the kernel (value at 0/1 does not fold)" % name)
                continue
            m, off = d
            derived[(li, ui, fam)] = (m, off)
            key = dict(key, m=m, at_zero=off)
            mm = self.model[li][ui]

            def fnE(K, x, name=name, m=m):
                e = K[name](x)
                return T.not_(e.ub), T.eq(T.sval(e.ret), T.imul(T.sval(x), T.const_int(m)))
            obs.append(F.Ob("exact:" + tag, xs, fnE, key=key, kernels=[name], note="no UB => to_common(x) == x*m in Z (m read off the kernel)"))

            def fnR(K, x, name=name, m=m):
                e = K[name](x)
                return T.in_range(T.imul(T.sval(x), T.const_int(m)), -(1 << 63), INT64_MAX), T.not_(e.ub)
            obs.append(F.Ob("reach:" + tag, xs, fnR, key=key, kernels=[name], note="x*m representable => no UB"))
            ev = K[name](T.var("x", T.BV(64)))
            has_div = any(op in ("sdiv", "udiv", "srem", "urem") for op in ev.stats.get("ops", []))

            def fnD(K, has_div=has_div):
                return T.TRUE, T.const_bool(not has_div)
            obs.append(F.Ob("no_division:" + tag, [], fnD, kind="closed", key=key, kernels=[name],
                            note="conversion to the common unit is a pure integer multiplication"))

            def fnM(K, name=name, mm=mm):
                e0 = K[name](T.const_bv(0, 64))
                e1 = K[name](T.const_bv(1, 64))
                return T.TRUE, T.and_(T.not_(e0.ub), T.not_(e1.ub), T.eq(e0.ret, T.const_bv(0, 64)), T.eq(e1.ret, T.const_bv(mm, 64)))
            obs.append(F.Ob("gcd_multiplier:" + tag, [], fnM, kind="closed", key=key, kernels=[name],
                            note="kernel(0) == 0 and kernel(1) == U_i / gcd(U_1..U_k) from the exact model (evenly divides + largest)"))
        # per-list closed facts phrased as the property does
        for li, (gn, ents) in enumerate(self.lists):
            for fam in ("cu", "ct"):
                mo = [derived.get((li, ui, fam)) for ui in range(len(ents))]
                if any(v is None for v in mo):
                    continue
                ms = [m for m, o in mo]
                facts = [("multipliers_positive_integers", all(m >= 1 for m in ms) and all(o == 0 for m, o in mo))]
                if all(m >= 1 for m in ms):
                    gs = [U.ratio(e.unit, ents[0].unit).as_fraction() / m for e, m in zip(ents, ms)]
                    facts.append(("one_common_unit", all(x == gs[0] for x in gs)))
                    g = 0
                    for m in ms:
                        g = gcd(g, m)
                    facts.append(("jointly_coprime", g == 1))
                key = {"group": gn, "list": [e.label for e in ents], "derived_m": ms, "model_m": self.model[li], "via": fam}
                for fname, val in facts:
                    def fn(K, val=val):
                        return T.TRUE, T.const_bool(bool(val))
                    obs.append(F.Ob("closed:%s:list%d:%s" % (fam, li, fname), [], fn, kind="closed", key=key,
                                    kernels=["c07_to%s_%d_%d" % ("cu" if fam == "cu" else "ct", li, ui) for ui in range(len(ents))]))
            # is one of the inputs exactly when the model says an input is the gcd unit
            names = self.isinput[li]
            if any(K[n].kernel.dropped for n in names):
                ndrop += 1
                self.notes.append("is_input kernels dropped for list %s: %s" % ([e.label for e in ents], [K[n].kernel.dropped for n in names if K[n].kernel.dropped][:1]))
                continue
            J = [ui for ui, m in enumerate(self.model[li]) if m == 1]
            key = {"group": gn, "list": [e.label for e in ents], "model_m": self.model[li], "gcd_inputs": J}

            def fnI(K, names=names, J=J):
                same = [K[n]().ret for n in names]
                others = [same[i] for i in range(len(names)) if i not in J]
                post = T.and_(*[T.not_(s) for s in others])
                if J:
                    post = T.and_(post, T.or_(*[same[j] for j in J]))
                return T.TRUE, post
            obs.append(F.Ob("closed:list%d:is_input_iff_gcd" % li, [], fnI, kind="closed", key=key, kernels=names,
                            note="CommonUnitT is (one of) the input(s) the model calls the gcd unit, and no other input"))
        for name, expected, key in self.closed:
            if K[name].kernel.dropped:
                ndrop += 1
                self.notes.append("closed kernel dropped: %s %s" % (key, K[name].kernel.dropped[:160]))
                continue

            def fn(K, name=name, expected=expected):
                e = K[name]()
                return T.TRUE, T.and_(T.not_(e.ub), T.eq(e.ret, T.const_bool(expected)))
            obs.append(F.Ob("closed:" + name, [], fn, kind="closed", key=key, kernels=[name]))
        self.extra_cov["kernels_dropped_although_model_in_domain"] = ndrop
        total = max(1, self.stats["kernels_generated"])
        if ndrop > max(3, total // 50):
            self.inconclusive.append("%d of %d kernels the model calls well-formed did not compile (see notes); the grid is not covered" % (ndrop, total))
        return obs


CHECK = C07
