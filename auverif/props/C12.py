"""C12 - Factorisation, primality and modular helpers (partial; DESIGN.md section 6, C12)."""
from .. import framework as F
from .. import terms as T
from .. import encode

MUL_MOD = "_ZN2au6detail7mul_modEmmm"
M64 = (1 << 64) - 1


def U(t):
    return T.uval(t)


class C12(F.Check):
    pid = "C12"
    level = "model_checking"
    chunk_size = 6
    encode_opts = {"inline_depth": 12}
    assumptions = [
        "clang 14 front end and -O1 pipeline, own LLVM-IR->SMT encoder, z3 5.1 / cvc5 1.0.3 are trusted",
        "lowering: -fsanitize=undefined,unsigned-integer-overflow as trap blocks, so 'no intermediate wrap-around' == trap blocks unreachable",
        "documented preconditions assumed: add_mod/sub_mod a,b < n; half_mod_odd a < n, n odd; mul_mod a,b < n, n >= 1; decompose n > 0",
        "mul_mod: ONE inductive step at full 64-bit width: the recursive call is replaced by a fresh value constrained only by the function's own contract "
        "(result < n and result == a'*b' mod n), after proving the call-site arguments satisfy the precondition and the first argument strictly decreases (termination); "
        "functional correctness uses a witness quotient Q built from (a, b, n) as a proof hint; if a refactoring invalidates the hint the obligation becomes undecided, never a false alarm",
        "the same step re-interpreted at W bits (quick W=5, thorough W=6) is checked bit-precisely with no hints; that result is about the W-bit re-interpretation of the same IR",
        "is_perfect_square: only the stated 64-bit non-residue claim within a bounded number of Newton iterations; gcd: bit-precise at 8 bits (re-interpreted IR); "
        "NOT claimed: pow_mod, jacobi_symbol, miller_rabin, strong_lucas, find_prime_factor and 'the primality test is exact for every 64-bit n' "
        "(needs 2^64 cases or number theory; outside bounded symbolic execution)",
        "factorisation read-outs mag<a>()*mag<b>() == mag<a*b>() for adversarial a, b (pseudoprimes, Carmichael numbers, prime squares, semiprimes near 2^16/2^31/2^32 computed by "
        "independent Python/sympy) observe the compiler's constexpr run of the real code: closed facts, no symbolic content",
    ]

    def bounds(self):
        return {"width": 64, "decompose unwind": 64, "mul_mod": "one inductive step; recursion replaced by contract",
                "reduced width W": 5 if self.tier == "quick" else 6}

    def kernels(self):
        D = "au::detail::"
        u = "uint64_t"
        ks = [
            F.Kernel("c12_add_mod", u, [(u, "a"), (u, "b"), (u, "n")], "return %sadd_mod(a, b, n);" % D, mode="wrap", family="add_mod"),
            F.Kernel("c12_sub_mod", u, [(u, "a"), (u, "b"), (u, "n")], "return %ssub_mod(a, b, n);" % D, mode="wrap", family="sub_mod"),
            F.Kernel("c12_half_mod_odd", u, [(u, "a"), (u, "n")], "return %shalf_mod_odd(a, n);" % D, mode="wrap", family="half_mod_odd"),
            F.Kernel("c12_dec_s", u, [(u, "n")], "return %sdecompose(n).power_of_two;" % D, mode="wrap", family="decompose"),
            F.Kernel("c12_dec_d", u, [(u, "n")], "return %sdecompose(n).odd_remainder;" % D, mode="wrap", family="decompose"),
            F.Kernel("c12_mul_mod", u, [(u, "a"), (u, "b"), (u, "n")], "return %smul_mod(a, b, n);" % D, mode="wrap", family="mul_mod"),
            F.Kernel("c12_bool_sign", "int32_t", [("bool", "x")], "return %sbool_sign(x);" % D, mode="wrap", family="bool_sign"),
            F.Kernel("c12_is_square", "bool", [(u, "n")], "return %sis_perfect_square(n);" % D, mode="ub", family="is_perfect_square"),
            F.Kernel("c12_gcd", u, [(u, "a"), (u, "b")], "return %sgcd(a, b);" % D, mode="ub", family="gcd"),
            F.Kernel("c12_pow_mod", u, [(u, "a"), (u, "e"), (u, "n")], "return %spow_mod(a, e, n);" % D, mode="wrap", family="pow_mod"),
            F.Kernel("c12_jacobi", "int32_t", [("int64_t", "a"), (u, "n")], "return %sjacobi_symbol(a, n);" % D, mode="ub", family="jacobi_symbol"),
            F.Kernel("c12_mr", "int32_t", [(u, "a"), (u, "n")], "return static_cast<int>(%smiller_rabin(a, n));" % D, mode="wrap", family="miller_rabin"),
            F.Kernel("c12_mr_ub", "int32_t", [(u, "a"), (u, "n")], "return static_cast<int>(%smiller_rabin(a, n));" % D, mode="ub", family="miller_rabin"),
            F.Kernel("c12_fpf", u, [(u, "n")], "return %sfind_prime_factor(n);" % D, mode="ub", family="find_prime_factor"),
        ]
        ks += self.factor_path_kernels()
        ks += self.closed_kernels()
        self.closed += self.fpf_closed
        return ks

    # ---- find_prime_factor on inputs chosen per path through the function, by an independent re-implementation of its steps
    def factor_path_kernels(self):
        """closed: find_prime_factor(n) is a prime divisor of n, for inputs selected so that every path is taken: trial division hit,
        early exit p*p > n, prime beyond the table, Pollard rho returning a prime, rho returning a COMPOSITE divisor (the re-split loop,
        one and several rounds), and rho's first parameter failing (factor == n, next t)."""
        import sympy
        from math import gcd

        def rho(n):
            """Pollard rho with Brent cycle detection exactly as documented in factoring.hh; returns (factor, t used)"""
            t = 1
            while t < n // 2:
                f = lambda x: (x * x + t) % n   # noqa
                maxc, cyc, tort = 1, 1, 2
                hare = f(tort)
                g = gcd(n, abs(tort - hare))
                while g == 1:
                    if maxc == cyc:
                        tort, maxc, cyc = hare, maxc * 2, 0
                    hare = f(hare)
                    cyc += 1
                    g = gcd(n, abs(tort - hare))
                if g < n:
                    return g, t
                t += 1
            return n, t
        rng = self.rng
        big = [int(p) for p in sympy.primerange(547, 1200)]
        classes = {"trial_hit": [2 * 3 * 5 * 7 * 11 * 13, 541 * 547, 3 * (2 ** 61 - 1)], "early_exit_prime": [2, 3, 541, 7919, 292681 - 2],
                   "prime_beyond_table": [int(sympy.nextprime(541 ** 2)), 2 ** 61 - 1, 18446744073709551557]}
        rho_prime, rho_comp1, rho_comp2, rho_t = [], [], [], []
        tries = 0
        want = (4, 8, 3, 3) if self.tier == "quick" else (8, 30, 8, 6)
        while tries < 6000 and (len(rho_comp1) < want[1] or len(rho_comp2) < want[2] or len(rho_t) < want[3] or len(rho_prime) < want[0]):
            tries += 1
            k = rng.choice([2, 3, 4, 4, 4, 5, 5])
            n = 1
            for p in (rng.choice(big) for _ in range(k)):
                n *= p
            if n >= 1 << 64:
                continue
            f, t = rho(n)
            if t > 1 and len(rho_t) < want[3]:
                rho_t.append(n)
            if sympy.isprime(f):
                if len(rho_prime) < want[0]:
                    rho_prime.append(n)
                continue
            f2, _ = rho(f)
            if sympy.isprime(f2):
                if len(rho_comp1) < want[1]:
                    rho_comp1.append(n)
            elif len(rho_comp2) < want[2]:
                rho_comp2.append(n)
        classes.update(rho_prime_divisor=rho_prime, rho_composite_divisor_one_resplit=rho_comp1, rho_composite_divisor_more_resplits=rho_comp2,
                       rho_parameter_retry=rho_t)
        # 64-bit: four primes near 2^16 (the divisor rho finds is often a product of two of them)
        p16 = [65521, 65519, 65497, 65479, 65449, 65447, 65437]
        for _ in range(3 if self.tier == "quick" else 10):
            ps = rng.sample(p16, 4)
            n = ps[0] * ps[1] * ps[2] * ps[3]
            if n < 1 << 64:
                f, t = rho(n)
                classes["rho_composite_divisor_one_resplit" if not sympy.isprime(f) else "rho_prime_divisor"].append(n)
        self.extra_cov["find_prime_factor_path_classes"] = {c: len(v) for c, v in classes.items()}
        ks = []
        self.fpf_closed = []
        seen = set()
        for cls, nums in classes.items():
            for n in nums:
                if n in seen or n < 2:
                    continue
                seen.add(n)
                primes = sorted(int(p) for p in sympy.factorint(n))
                cond = " || ".join("v == %dull" % p for p in primes)
                k = F.Kernel("c12_fpfc_%d" % n, "bool", [], "constexpr std::uintmax_t v = au::detail::find_prime_factor(%dull); return %s;" % (n, cond),
                             key={"n": n, "path_class": cls, "prime_divisors": primes}, family="find_prime_factor_paths", native=False)
                ks.append(k)
                self.fpf_closed.append(k)
        return ks

    # ---- closed factorisation facts
    def closed_kernels(self):
        import sympy
        nums = []
        spsp2 = [2047, 3277, 4033, 4681, 8321, 15841, 29341, 42799, 49141, 52633, 65281, 74665, 80581, 85489, 88357, 90751]
        carm = [561, 1105, 1729, 2465, 2821, 6601, 8911, 10585, 15841, 29341, 41041, 46657, 52633, 62745, 63973, 75361]
        slpsp = [5459, 5777, 10877, 16109, 18971, 22499, 24569, 25199, 40309, 58519, 75077, 97439]
        big = [3825123056546413051, 318665857834031151167461 % (1 << 64)]   # the first is the smallest spsp to bases 2..37 < 2^64
        nums += spsp2 + carm + slpsp + big[:1]
        for c in ((1 << 16, 1 << 31, 1 << 32) if self.tier == "thorough" else (1 << 16, 1 << 24)):
            p = sympy.prevprime(c)
            q = sympy.nextprime(c)
            p2 = sympy.prevprime(p)
            for n in (p * p, p * q, p * p2, q * q):
                if n < (1 << 64):
                    nums.append(n)
        for k in (31, 32, 61, 63, 64):
            nums.append(sympy.prevprime(1 << k))
            if k < 64:
                nums.append(sympy.nextprime(1 << k))
        if self.tier == "thorough":
            for _ in range(40):
                a = sympy.randprime(2, 1 << 20)
                b = sympy.randprime(1 << 20, 1 << 40)
                nums.append(a * b)
        nums = list(dict.fromkeys(int(n) for n in nums if 1 < n < (1 << 64)))
        ks = []
        self.closed = []
        for n in nums:
            fac = sympy.factorint(n)
            expected = " * ".join(("pow<%d>(Magnitude<Prime<%dull>>{})" % (k, p)) if k > 1 else ("Magnitude<Prime<%dull>>{}" % p)
                                  for p, k in sorted(fac.items()))
            k = F.Kernel("c12_fact_%d" % n, "bool", [], "return std::is_same<decltype(mag<%dull>()), decltype(%s)>::value;" % (n, expected),
                         key={"n": n, "factorisation": {str(p): e for p, e in fac.items()}}, family="factorisation", native=False)
            ks.append(k)
            self.closed.append(k)
            isp = len(fac) == 1 and list(fac.values())[0] == 1
            k2 = F.Kernel("c12_isprime_%d" % n, "bool", [], "constexpr bool v = au::detail::is_prime(%dull); return v == %s;" % (n, "true" if isp else "false"),
                          key={"n": n, "prime": isp}, family="is_prime", native=False)
            ks.append(k2)
            self.closed.append(k2)
        # is_prime on a dense adversarial list, batched: every base-2 strong pseudoprime below 2^22 (computed here), the
        # psi_k values (smallest strong pseudoprimes to the first k prime bases), Carmichael numbers with three factors
        # above the trial-division table, strong Lucas pseudoprimes, and the primes next to each of them
        def spsp2(limit):
            out = []
            for n in range(2047, limit, 2):
                d, s_ = n - 1, 0
                while d % 2 == 0:
                    d //= 2
                    s_ += 1
                x = pow(2, d, n)
                if x == 1 or x == n - 1:
                    ok = True
                else:
                    ok = False
                    for _ in range(s_ - 1):
                        x = x * x % n
                        if x == n - 1:
                            ok = True
                            break
                if ok and not sympy.isprime(n):
                    out.append(n)
            return out
        dense = spsp2(1 << (22 if self.tier == "quick" else 25))
        dense += [1373653, 25326001, 3215031751, 2152302898747, 3474749660383, 341550071728321, 3825123056546413051,
                  4759123141, 1122004669633, 318665857834031151167461 % (1 << 61)]
        dense += [5459, 5777, 10877, 16109, 18971, 22499, 24569, 25199, 40309, 58519, 75077, 97439, 100127, 113573, 115639, 130139,
                  155819, 158399, 161027, 162133, 176399, 176471, 189419, 192509, 197801, 224369, 230691, 231703, 243629, 253259]
        # odd non-squares n for which an early Newton iterate c of the ORIGINAL is_perfect_square satisfied c*c == n (mod 2^64)
        # (found with the solver / 2-adic square roots, see DESIGN.md D15); 10785637507345693793 is prime
        self.wrap_squares = [10685528935143053617, 15405458870843798969, 3705102001104354505, 12673371479969681361,
                             9425997995154109105, 11837406317022473153, 10785637507345693793, (1 << 34) + 4]
        dense += [x for x in self.wrap_squares if x % 2]
        dense += [int(sympy.nextprime(x)) for x in dense[::7]] + [int(sympy.prevprime(x)) for x in dense[3::11]]
        for a, b, c in ((547, 557, 563), (1009, 1013, 1019), (65521, 65537, 65539)):
            dense += [a * b * c, a * a * b]
        # primes whose first Selfridge parameter D (5, -7, 9, -11, ... with Jacobi symbol -1) is large in magnitude, just below every
        # power of two from 2^33 to 2^64, one with positive and one with negative D per width: products D*x in the strong Lucas
        # recurrences exceed 2^64 there unless they go through mul_mod (red-team change C12_r8: a direct product below 2^60)
        def selfridge_d(n):
            d = 5
            while sympy.jacobi_symbol(d % n, n) != -1:
                d = -(abs(d) + 2) if d > 0 else abs(d) + 2
            return d
        self.large_d = []
        for kk in range(33, 65):
            want, x, tries = {1, -1}, 1 << kk, 0
            while want and tries < 4000:
                x, tries = int(sympy.prevprime(x)), tries + 1
                d = selfridge_d(x)
                if abs(d) >= 17 and (1 if d > 0 else -1) in want:
                    want.discard(1 if d > 0 else -1)
                    self.large_d.append(x)
        dense += self.large_d
        self.extra_cov["is_prime_large_selfridge_d"] = len(self.large_d)
        dense = sorted(set(int(x) for x in dense if 1 < x < (1 << 64)))
        self.extra_cov["is_prime_dense_list"] = len(dense)
        for i in range(0, len(dense), 16):
            chunk = dense[i:i + 16]
            expr = " && ".join("(au::detail::is_prime(%dull) == %s)" % (x, "true" if sympy.isprime(x) else "false") for x in chunk)
            k = F.Kernel("c12_isprime_batch_%d" % (i // 16), "bool", [], "constexpr bool v = %s; return v;" % expr,
                         key={"numbers": chunk}, family="is_prime_batch", native=False)
            ks.append(k)
            self.closed.append(k)
        for x in self.wrap_squares:
            k = F.Kernel("c12_notsquare_%d" % x, "bool", [], "constexpr bool v = au::detail::is_perfect_square(%dull); return !v;" % x,
                         key={"n": x, "why": "an iterate squares to n modulo 2^64"}, family="is_perfect_square_closed", native=False)
            ks.append(k)
            self.closed.append(k)
        # mag<N>() for structured N that a shortcut table / fast path would single out: powers of 10, 2, 3, 5, 6, 12, 60, 1000, 1024,
        # factorials, primorials, every N up to 130, numbers around 2^k, and seeded smooth numbers - each must be the canonical factorisation
        structured = set(range(1, 131))
        for b in (2, 3, 5, 6, 7, 10, 12, 60, 100, 1000, 1024, 3600):
            x = b
            while x < (1 << 64):
                structured.add(x)
                x *= b
        f = 1
        for i in range(1, 21):
            f *= i
            structured.add(f)
        pr = 1
        for q in sympy.primerange(2, 60):
            pr *= int(q)
            if pr < (1 << 64):
                structured.add(pr)
        for k_ in (8, 16, 31, 32, 63):
            structured |= {(1 << k_) - 1, (1 << k_) + 1}
        structured.add((1 << 64) - 1)
        rr = self.rng
        for _ in range(40 if self.tier == "quick" else 400):
            x = 1
            for q in rr.sample([2, 3, 5, 7, 11, 13, 17, 19, 23, 29, 31, 37, 101, 257, 541, 547, 65537], rr.randrange(1, 6)):
                x *= q ** rr.randrange(1, 12)
            if x < (1 << 64):
                structured.add(x)
        if self.tier == "quick":
            keep = set(range(1, 131, 7)) | {10 ** k_ for k_ in range(1, 20)} | {2 ** k_ for k_ in range(1, 64, 3)} | {1000 ** k_ for k_ in range(1, 7)} | {1024 ** k_ for k_ in range(1, 7)}
            structured = {x for x in structured if x in keep or x > 130 and hash((x, self.seed)) % 3 == 0}
        structured = sorted(x for x in structured if 1 <= x < (1 << 64))
        self.extra_cov["structured_mag_arguments"] = len(structured)
        for i in range(0, len(structured), 8):
            chunk = structured[i:i + 8]
            conds = []
            for x in chunk:
                fac = sympy.factorint(x) if x > 1 else {}
                expected = " * ".join(("pow<%d>(Magnitude<Prime<%dull>>{})" % (e_, p_)) if e_ > 1 else ("Magnitude<Prime<%dull>>{}" % p_)
                                      for p_, e_ in sorted(fac.items())) or "Magnitude<>{}"
                conds.append("std::is_same<decltype(mag<%dull>()), decltype(%s)>::value" % (x, expected))
            k = F.Kernel("c12_structured_%d" % (i // 8), "bool", [], "return %s;" % " && ".join(conds),
                         key={"numbers": chunk}, family="factorisation_structured", native=False)
            ks.append(k)
            self.closed.append(k)
        # products: mag<a>() * mag<b>() == mag<a*b>()
        prods = [(2047, 3277), (561, 1729), (65521, 65537), (2147483647, 4294967291), (4294967291, 4294967311), (5459, 5777),
                 (1 << 16, 3 ** 10), (2147483629, 2147483647)]
        for a, b in prods:
            if a * b < (1 << 64):
                k = F.Kernel("c12_prod_%d_%d" % (a, b), "bool", [],
                             "return std::is_same<decltype(mag<%dull>() * mag<%dull>()), decltype(mag<%dull>())>::value;" % (a, b, a * b),
                             key={"a": a, "b": b}, family="mag_product", native=False)
                ks.append(k)
                self.closed.append(k)
        return ks

    # ---- mul_mod step machinery
    def mm_step(self, K, a, b, n, rec, width_map=None):
        """Encode mul_mod with the recursive call replaced by `rec`; returns (enc, site) where site has the call-site args/guard."""
        site = {}
        state = {"n": 0}

        def hook(encoder, callee, args, guard):
            if callee != MUL_MOD:
                return None
            state["n"] += 1
            if state["n"] == 1:
                return None                    # the kernel's own call: inline it
            if "args" in site:
                raise encode.IRUnsupported("more than one recursive call site")
            site["args"] = [x.t for x in args]
            site["guard"] = guard
            return encode.Val(rec)
        kw = {"call_hook": hook}
        if width_map:
            kw["width_map"] = width_map
        h = K["c12_mul_mod"]
        e = encode.encode_kernel(h.chunk.module, h.kernel.name, [a, b, n], **kw)
        return e, site

    def obligations(self, K):
        obs = []
        B = T.BV(64)
        v3 = [("a", B), ("b", B), ("n", B)]

        def pre_abn(a, b, n):
            return T.and_(T.bvcmp("ult", a, n), T.bvcmp("ult", b, n))

        def fn_add(K, a, b, n):
            e = K["c12_add_mod"](a, b, n)
            return pre_abn(a, b, n), T.and_(T.not_(e.ub), T.eq(U(e.ret), T.imod(T.iadd(U(a), U(b)), U(n))))
        obs.append(F.Ob("add_mod", v3, fn_add, kernels=["c12_add_mod"], note="a,b<n => exact residue of a+b, no wrap"))

        def fn_sub(K, a, b, n):
            e = K["c12_sub_mod"](a, b, n)
            return pre_abn(a, b, n), T.and_(T.not_(e.ub), T.eq(U(e.ret), T.imod(T.isub(U(a), U(b)), U(n))))
        obs.append(F.Ob("sub_mod", v3, fn_sub, kernels=["c12_sub_mod"], note="a,b<n => exact residue of a-b, no wrap"))

        def fn_half(K, a, n):
            e = K["c12_half_mod_odd"](a, n)
            pre = T.and_(T.bvcmp("ult", a, n), T.eq(T.imod(U(n), T.const_int(2)), T.const_int(1)))
            r = U(e.ret)
            return pre, T.and_(T.not_(e.ub), T.ilt(r, U(n)), T.eq(T.imod(T.imul(T.const_int(2), r), U(n)), U(a)))
        obs.append(F.Ob("half_mod_odd", [("a", B), ("n", B)], fn_half, kernels=["c12_half_mod_odd"],
                        note="a<n, n odd => r<n and 2r == a (mod n), no wrap"))

        def fn_dec(K, n):
            s = K["c12_dec_s"](n, unwind=64)
            d = K["c12_dec_d"](n, unwind=64)
            pre = T.ne(n, T.const_bv(0, 64))
            post = T.and_(T.not_(s.ub), T.not_(d.ub), T.bvcmp("ult", s.ret, T.const_bv(64, 64)),
                          T.eq(T.bvop("bvshl", d.ret, s.ret), n), T.eq(T.extract(d.ret, 0, 0), T.const_bv(1, 1)))
            return pre, T.and_(post, T.not_(s.unwind), T.not_(d.unwind))
        obs.append(F.Ob("decompose", [("n", B)], fn_dec, kernels=["c12_dec_s", "c12_dec_d"], routes=["z3-bv", "cvc5-bv"],
                        note="n>0 => n == d << s, d odd, s<64; unwind 64 with unwinding assertion"))

        def fn_bs(K, x):
            e = K["c12_bool_sign"](x)
            return T.TRUE, T.and_(T.not_(e.ub), T.eq(e.ret, T.ite(x, T.const_bv(1, 32), T.const_bv(-1, 32))))
        obs.append(F.Ob("bool_sign", [("x", T.BOOL)], fn_bs, kernels=["c12_bool_sign"], routes=F.CMP_ROUTES))

        # ---------------- mul_mod, one inductive step at 64 bits (integer emission with hints)
        v = v3 + [("rec", B)]

        class NativeStep(Exception):
            pass

        def native_claim(K, a, b, n):
            """replay form of every step obligation: the real mul_mod on the model's (a, b, n) against exact arithmetic"""
            e = K["c12_mul_mod"](a, b, n)
            pre = T.and_(T.bvcmp("ult", a, n), T.bvcmp("ult", b, n))
            return pre, T.and_(T.not_(e.ub), T.eq(U(e.ret), T.imod(T.imul(U(a), U(b)), U(n))))

        def stepfn(f):
            def g(K, a, b, n, rec, *rest):
                if isinstance(K["c12_mul_mod"], F.NativeHandle):
                    return native_claim(K, a, b, n)
                return f(K, a, b, n, rec, *rest)
            return g

        def parts(K, a, b, n, rec):
            e, site = self.mm_step(K, a, b, n, rec)
            if "args" not in site:
                raise encode.IRUnsupported("no recursive call site found in mul_mod")
            pre = T.and_(T.bvcmp("ult", a, n), T.bvcmp("ult", b, n))
            return e, site, pre

        # spec-level quantities mirrored from the algorithm (proof hints)
        def hints(a, b, n):
            A, Bv, N = U(a), U(b), U(n)
            cs = T.idiv(N, A)
            q = T.idiv(Bv, cs)
            nc = T.isub(N, T.imul(A, cs))
            l = T.isub(Bv, T.imul(q, cs))
            return A, Bv, N, cs, q, nc, l

        def fn_site_pre(K, a, b, n, rec):
            e, site, pre = parts(K, a, b, n, rec)
            a2, b2, n2 = site["args"]
            return T.and_(pre, site["guard"]), T.and_(T.bvcmp("ult", a2, n2), T.bvcmp("ult", b2, n2), T.eq(n2, n))
        obs.append(F.Ob("mul_mod:callsite_precondition", v, stepfn(fn_site_pre), kernels=["c12_mul_mod"], routes=["z3-intq", "cvc5-intq", "z3-int"],
                        note="arguments of the recursive call satisfy the contract's precondition"))

        def fn_term(K, a, b, n, rec):
            e, site, pre = parts(K, a, b, n, rec)
            return T.and_(pre, site["guard"]), T.bvcmp("ult", site["args"][0], a)
        obs.append(F.Ob("mul_mod:termination_measure", v, stepfn(fn_term), kernels=["c12_mul_mod"], routes=["z3-intq", "cvc5-intq", "z3-int"],
                        note="first argument strictly decreases at the recursive call"))

        def fn_site_hint(K, a, b, n, rec):
            e, site, pre = parts(K, a, b, n, rec)
            A, Bv, N, cs, q, nc, l = hints(a, b, n)
            return T.and_(pre, site["guard"]), T.and_(T.eq(U(site["args"][0]), nc), T.eq(U(site["args"][1]), q))
        obs.append(F.Ob("mul_mod:callsite_matches_hint", v, stepfn(fn_site_hint), kernels=["c12_mul_mod"], routes=["z3-intq", "cvc5-intq", "z3-int"],
                        note="recursive call arguments are n - a*(n div a) and b div (n div a)"))

        def realisable(K, a, b, n, rec):
            """refinement used when a counterexample with a free `rec` does not reproduce: ask for one in which the recursive call is in
            its simple branch (a2*b2 < 2^64), so that rec is exactly (a2*b2) mod n - the value the real code computes there"""
            if isinstance(K["c12_mul_mod"], F.NativeHandle):
                return T.TRUE
            e, site, pre = parts(K, a, b, n, rec)
            a2, b2, n2 = site["args"]
            prod = T.imul(U(a2), U(b2))
            return T.and_(site["guard"], T.ilt(prod, T.const_int(1 << 64)), T.eq(U(rec), T.imod(prod, U(n))))

        def fn_notrap(K, a, b, n, rec):
            e, site, pre = parts(K, a, b, n, rec)
            return T.and_(pre, T.bvcmp("ult", rec, n)), T.not_(e.ub)
        obs.append(F.Ob("mul_mod:no_trap", v, stepfn(fn_notrap), kernels=["c12_mul_mod"], routes=["z3-intq", "cvc5-intq", "z3-int"], timeout=60,
                        note="a,b<n and rec<n => no unsigned wrap, no division by zero anywhere in the step (incl. the simple branch a*b)"))

        def fn_range(K, a, b, n, rec):
            e, site, pre = parts(K, a, b, n, rec)
            return T.and_(pre, T.bvcmp("ult", rec, n), T.not_(e.ub)), T.bvcmp("ult", e.ret, n)
        obs.append(F.Ob("mul_mod:result_below_n", v, stepfn(fn_range), kernels=["c12_mul_mod"], routes=["z3-intq", "cvc5-intq", "z3-int"], timeout=60))

        def fn_simple(K, a, b, n, rec):
            e, site, pre = parts(K, a, b, n, rec)
            return T.and_(pre, T.not_(site["guard"]), T.not_(e.ub)), T.eq(U(e.ret), T.imod(T.imul(U(a), U(b)), U(n)))
        obs.append(F.Ob("mul_mod:simple_branch", v, stepfn(fn_simple), kernels=["c12_mul_mod"], routes=["z3-intq", "cvc5-intq", "z3-int"], timeout=60,
                        note="no recursion (and no trap, proved by mul_mod:no_trap) => result == a*b mod n"))

        def formula(a, b, n, rec):
            """spec-level expression of the recursive branch's result in terms of the hint quantities"""
            A, Bv, N, cs, q, nc, l = hints(a, b, n)
            cr = T.isub(N, U(rec))
            lr = T.imul(A, l)
            s_ = T.iadd(cr, lr)
            return T.ite(T.ile(N, s_), T.isub(s_, N), s_), (A, Bv, N, cs, q, nc, l)

        def fn_formula(K, a, b, n, rec):
            e, site, pre = parts(K, a, b, n, rec)
            f, _ = formula(a, b, n, rec)
            return T.and_(pre, site["guard"], T.bvcmp("ult", rec, n)), T.and_(T.not_(e.ub), T.eq(U(e.ret), f))
        obs.append(F.Ob("mul_mod:result_matches_formula", v, stepfn(fn_formula), kernels=["c12_mul_mod"],
                        routes=["z3-intq", "cvc5-intq", "z3-int"], timeout=60,
                        note="recursive branch: result == reduce_once((n - rec) + a*leftover), with leftover = b - (b div cs)*cs, cs = n div a"))

        def fn_ident(K, a, b, n, rec, k1):
            f, (A, Bv, N, cs, q, nc, l) = formula(a, b, n, rec)
            pre = T.and_(T.bvcmp("ult", a, n), T.bvcmp("ult", b, n), T.ilt(T.const_int(0), A), T.ile(T.const_int(1), cs))
            hyp = T.and_(T.bvcmp("ult", rec, n), T.ile(T.const_int(0), k1), T.eq(T.iadd(U(rec), T.imul(k1, N)), T.imul(nc, q)))
            q0 = T.isub(T.isub(q, k1), T.const_int(1))
            ab = T.imul(A, Bv)
            post = T.and_(T.or_(T.eq(T.iadd(f, T.imul(q0, N)), ab), T.eq(T.iadd(f, T.imul(T.iadd(q0, T.const_int(1)), N)), ab)),
                          T.ile(T.const_int(0), f), T.ilt(f, N))
            return T.and_(pre, hyp), post
        obs.append(F.Ob("lemma:mul_mod_identity_with_witness", v + [("k1", T.INT)], fn_ident, kernels=[],
                        routes=["z3-intq", "cvc5-intq"], timeout=60,
                        note="pure arithmetic over the hint quantities: rec + k1*n == nc*q (contract of the recursive call) => "
                             "formula + Q*n == a*b for Q in {Q0, Q0+1}, Q0 = q - k1 - 1, and 0 <= formula < n"))

        def fn_uniq(K, x, qq, nn, r):
            pre = T.and_(T.eq(x, T.iadd(T.imul(qq, nn), r)), T.ile(T.const_int(0), r), T.ilt(r, nn))
            return pre, T.eq(T.imod(x, nn), r)
        obs.append(F.Ob("lemma:uniqueness_of_residue", [("X", T.INT), ("Q", T.INT), ("N", T.INT), ("R", T.INT)], fn_uniq,
                        routes=["cvc5-int", "z3-int"], timeout=60,
                        note="X == Q*N + R and 0 <= R < N => X mod N == R (turns the identity into 'exact residue')"))

        for ob_ in obs:
            if ob_.name in ("mul_mod:no_trap", "mul_mod:result_below_n", "mul_mod:result_matches_formula"):
                ob_.realisable = realisable
                ob_.realisable_routes = ["z3-intq", "z3-int", "cvc5-intq"]
                ob_.realisable_timeout = 120
        # ---------------- same step, bit-precise at reduced width
        W = 5 if self.tier == "quick" else 6
        for w, kind in (((W, "claimed"),) if self.tier == "quick" else ((W, "claimed"), (W + 1, "stretch"))):
            Bw = T.BV(w)

            def fn_w(K, a, b, n, rec, w=w):
                if isinstance(K["c12_mul_mod"], F.NativeHandle):
                    # a W-bit counterexample is about the re-interpreted IR; it counts only if the zero-extended inputs
                    # also fail at 64 bits
                    return native_claim(K, T.zext(a, 64), T.zext(b, 64), T.zext(n, 64))
                e, site = self.mm_step(K, a, b, n, rec, width_map={64: w})
                pre = T.and_(T.bvcmp("ult", a, n), T.bvcmp("ult", b, n))
                z = lambda t: T.zext(t, 2 * w)
                spec = lambda x, y, m: T.trunc(T.bvop("bvurem", T.bvop("bvmul", z(x), z(y)), z(m)), w)
                if "args" in site:
                    a2, b2, n2 = site["args"]
                    hyp = T.or_(T.not_(site["guard"]), T.eq(rec, spec(a2, b2, n2)))
                else:
                    hyp = T.TRUE
                return T.and_(pre, hyp), T.and_(T.not_(e.ub), T.eq(e.ret, spec(a, b, n)))
            obw = F.Ob("mul_mod:step_at_%d_bits" % w, [("a", Bw), ("b", Bw), ("n", Bw), ("rec", Bw)], fn_w, kind=kind,
                       kernels=["c12_mul_mod"], routes=["z3-bv", "cvc5-bv"], timeout=120 if kind == "claimed" else 40,
                       note="IR re-interpreted at %d bits; recursive call replaced by its contract; no hints" % w)
            obw.reinterpreted = True
            obs.append(obw)
        # ---------------- is_perfect_square and gcd, bit-precise at reduced width (re-interpreted IR; loops unwound with assertion)
        # is_perfect_square at full 64-bit width: `curr * curr == n` is evaluated modulo 2^64, so a large Newton iterate whose square
        # wraps onto n would be a false positive (it is one for the even n = 2^34 + 4, which the primality test never passes in).
        # For ODD n with n mod 8 in {3, 5, 7} (so certainly not squares) the solver shows that
        # no return within the first U iterations answers 'true'.
        U_SQ = 5 if self.tier == "quick" else 12

        def fn_sq(K, n, U_SQ=U_SQ):
            if isinstance(K["c12_is_square"], F.NativeHandle):
                import math
                e = K["c12_is_square"](n)
                nv = n.attr
                return T.TRUE, T.and_(T.not_(e.ub), T.eq(e.ret, T.const_bool(math.isqrt(nv) ** 2 == nv)))
            e = K["c12_is_square"](n, unwind=U_SQ)

            # certificate of non-squareness that costs the solver nothing: odd squares are 1 mod 8
            # (adding the mod 3/5/7 certificates made the query undecided in 240 s; measured)
            nonres = T.ne(T.extract(n, 2, 0), T.const_bv(1, 3))
            pre = T.and_(T.eq(T.extract(n, 0, 0), T.const_bv(1, 1)), nonres, T.not_(e.unwind))
            return pre, T.and_(T.not_(e.ub), T.not_(e.ret))
        obs.append(F.Ob("is_perfect_square:odd_nonresidues_64bit", [("n", T.BV(64))], fn_sq, kernels=["c12_is_square"],
                        routes=["cvc5-bv", "z3-bv"], timeout=200 if self.tier == "quick" else 500,
                        note="64-bit, bit-precise: odd n with n mod 8 != 1 (hence not a square) is never reported as a perfect square by "
                             "any return within the first %d Newton iterations (paths needing more iterations are outside the claim)" % U_SQ))
        WG = 6 if self.tier == "quick" else 8

        def fn_gcd(K, a, b, WG=WG):
            if isinstance(K["c12_gcd"], F.NativeHandle):
                import math
                e = K["c12_gcd"](T.zext(a, 64), T.zext(b, 64))
                return T.TRUE, T.and_(T.not_(e.ub), T.eq(e.ret, T.const_bv(math.gcd(a.attr, b.attr), 64)))
            e = K["c12_gcd"](a, b, unwind=14, width_map={64: WG, 32: WG})
            g = e.ret
            z = T.const_bv(0, WG)
            nz = T.ne(g, z)
            div_a = T.eq(T.bvop("bvurem", a, g), z)
            div_b = T.eq(T.bvop("bvurem", b, g), z)
            greatest = T.and_(*[T.or_(T.ne(T.bvop("bvurem", a, T.const_bv(d, WG)), z), T.ne(T.bvop("bvurem", b, T.const_bv(d, WG)), z),
                                      T.eq(T.bvop("bvurem", g, T.const_bv(d, WG)), z)) for d in range(2, 1 << WG)])
            pre = T.or_(T.ne(a, z), T.ne(b, z))
            return pre, T.and_(T.not_(e.ub), T.not_(e.unwind), nz, div_a, div_b, greatest)
        ob = F.Ob("gcd:at_%d_bits" % WG, [("a", T.BV(WG)), ("b", T.BV(WG))], fn_gcd, kernels=["c12_gcd"], routes=["z3-bv", "cvc5-bv"],
                  timeout=120, note="IR re-interpreted at %d bits: result divides both and every common divisor divides it; Euclid loop unwound 14 (Fibonacci bound 12) with assertion" % WG)
        ob.reinterpreted = True
        obs.append(ob)
        # ---------------- find_prime_factor, full 64-bit width, every n below 2^KF (the trial-division phase incl. its early exit)
        import sympy
        KF = 12 if self.tier == "quick" else 16
        plist = [int(p) for p in sympy.primerange(2, (1 << ((KF + 1) // 2)) + 1)]

        def fn_fpf(K, n, KF=KF, plist=plist):
            if isinstance(K["c12_fpf"], F.NativeHandle):
                e = K["c12_fpf"](n)
                return T.TRUE, T.and_(T.not_(e.ub), T.eq(e.ret, T.const_bv(min(sympy.factorint(n.attr)) if n.attr > 1 else 0, 64)))
            e = K["c12_fpf"](n, unwind=len(plist) + 3, inline_depth=0)
            spec = n        # least prime factor: the first prime <= sqrt(2^KF) that divides n, else n itself (then n is prime)
            for p in reversed(plist):
                spec = T.ite(T.eq(T.bvop("bvurem", n, T.const_bv(p, 64)), T.const_bv(0, 64)), T.const_bv(p, 64), spec)
            pre = T.and_(T.bvcmp("ult", n, T.const_bv(1 << KF, 64)), T.bvcmp("ugt", n, T.const_bv(1, 64)))
            return pre, T.and_(T.not_(e.ub), T.not_(e.unwind), T.eq(e.ret, spec))
        obs.append(F.Ob("find_prime_factor:all_n_below_2^%d" % KF, [("n", T.BV(64))], fn_fpf, kernels=["c12_fpf"], routes=["z3-bv", "cvc5-bv"], timeout=300,
                        note="64-bit code, 1 < n < 2^%d: the result is the least prime factor of n (n itself iff n is prime); spec is the chain over the %d primes "
                             "<= 2^%d WITHOUT the early exit; loop unwound %d with assertion; Pollard rho is not reached below 541^2 and is covered by closed "
                             "path-class facts only" % (KF, len(plist), (KF + 1) // 2, len(plist) + 3)))

        # ---------------- jacobi_symbol, miller_rabin, pow_mod: the real functions (with everything they call inlined) at reduced width vs tables
        def table(idx, vals, wout):
            """balanced ITE tree over the bits of idx; vals[i] is the value at idx == i"""
            def rec(lo, bit):
                if bit < 0:
                    return T.const_bv(vals[lo], wout)
                a_, b_ = rec(lo, bit - 1), rec(lo + (1 << bit), bit - 1)
                return a_ if a_ is b_ else T.ite(T.eq(T.extract(idx, bit, bit), T.const_bv(1, 1)), b_, a_)
            return rec(0, T.width(idx) - 1)
        WJ = 5 if self.tier == "quick" else 6

        def fn_jac(K, a, n, WJ=WJ):
            if isinstance(K["c12_jacobi"], F.NativeHandle):
                sa = a.attr - (1 << WJ) if a.attr >= (1 << (WJ - 1)) else a.attr
                e = K["c12_jacobi"](T.const_bv(sa % (1 << 64), 64), T.zext(n, 64))
                return T.const_bool(n.attr % 2 == 1), T.and_(T.not_(e.ub), T.eq(e.ret, T.const_bv(int(sympy.jacobi_symbol(sa, n.attr)) % (1 << 32), 32)))
            e = K["c12_jacobi"](a, n, unwind=(40 if WJ == 5 else 64), inline_depth=3, width_map={64: WJ, 32: WJ})
            vals = []
            for nn in range(1 << WJ):
                for aa in range(1 << WJ):
                    sa = aa - (1 << WJ) if aa >= (1 << (WJ - 1)) else aa
                    vals.append((int(sympy.jacobi_symbol(sa, nn)) if nn % 2 == 1 else 0) % (1 << WJ))
            spec = table(T.concat(n, a), vals, WJ)
            pre = T.and_(T.eq(T.extract(n, 0, 0), T.const_bv(1, 1)), T.ne(a, T.const_bv(1 << (WJ - 1), WJ)))
            return pre, T.and_(T.not_(e.ub), T.not_(e.unwind), T.eq(e.ret, spec))
        ob = F.Ob("jacobi_symbol:at_%d_bits" % WJ, [("a", T.BV(WJ)), ("n", T.BV(WJ))], fn_jac, kernels=["c12_jacobi"], routes=["z3-bv", "cvc5-bv"], timeout=200,
                  note="IR re-interpreted at %d bits (int64 a signed, a != minimum; n odd): equals the Jacobi symbol (a/n) from an independent table, no UB, "
                       "loops unwound with assertion" % WJ)
        ob.reinterpreted = True
        obs.append(ob)
        COMP, PRIME, BAD = 0, 1, 2      # enum PrimeResult { COMPOSITE, PROBABLY_PRIME, BAD_INPUT }

        def mr_model(a_, n_):
            if a_ < 2 or n_ < a_ + 2 or n_ % 2 == 0:
                return BAD
            d, s_ = n_ - 1, 0
            while d % 2 == 0:
                d //= 2
                s_ += 1
            x = pow(a_, d, n_)
            if x == 1:
                return PRIME
            for _ in range(s_):
                if x == n_ - 1:
                    return PRIME
                x = x * x % n_
            return COMP
        # measured (z3-bv): wrap traps on, 4 bits: ~130 s; 5 bits: not decided in 300 s; UB traps only, 5 bits: ~60 s. Thorough tier only.
        for kname, WM, what in (("c12_mr", 4, "no UB and no unsigned wrap-around anywhere"), ("c12_mr_ub", 5, "no UB")):
            def fn_mr(K, a, n, WM=WM, kname=kname):
                if isinstance(K[kname], F.NativeHandle):
                    e = K[kname](T.zext(a, 64), T.zext(n, 64))
                    return T.TRUE, T.and_(T.not_(e.ub), T.eq(e.ret, T.const_bv(mr_model(a.attr, n.attr), 32)))
                e = K[kname](a, n, unwind=6 * WM, inline_depth=3 * WM, width_map={64: WM, 32: WM})
                vals = [mr_model(aa, nn) for nn in range(1 << WM) for aa in range(1 << WM)]
                spec = table(T.concat(n, a), vals, WM)
                pre = T.bvcmp("ult", a, T.const_bv((1 << WM) - 2, WM))      # a + 2 must not wrap (documented: n >= a + 2)
                return pre, T.and_(T.not_(e.ub), T.not_(e.unwind), T.eq(e.ret, spec))
            ob = F.Ob("miller_rabin:at_%d_bits" % WM, [("a", T.BV(WM)), ("n", T.BV(WM))], fn_mr, kernels=[kname], routes=["z3-bv", "cvc5-bv"], timeout=500,
                      note="IR re-interpreted at %d bits, pow_mod / mul_mod (recursive) / decompose inlined: BAD_INPUT, PROBABLY_PRIME (n prime or a strong "
                           "pseudoprime to base a) or COMPOSITE exactly as the definition says; %s" % (WM, what))
            ob.reinterpreted = True
            if self.tier == "thorough":
                obs.append(ob)
        WP = 4

        def fn_pm(K, a, x, n, WP=WP):
            if isinstance(K["c12_pow_mod"], F.NativeHandle):
                e = K["c12_pow_mod"](T.zext(a, 64), T.zext(x, 64), T.zext(n, 64))
                return T.const_bool(n.attr >= 1), T.and_(T.not_(e.ub), T.eq(e.ret, T.const_bv(pow(a.attr, x.attr, n.attr) if n.attr else 0, 64)))
            e = K["c12_pow_mod"](a, x, n, unwind=3 * WP, inline_depth=3 * WP, width_map={64: WP, 32: WP})
            z = lambda t: T.zext(t, 2 * WP)   # noqa
            N = z(n)
            r = T.bvop("bvurem", T.const_bv(1, 2 * WP), N)
            am = T.bvop("bvurem", z(a), N)
            spec = r
            for k in range(1, 1 << WP):       # naive repeated multiplication (not square-and-multiply), 2W-bit arithmetic: no wrap possible
                r = T.bvop("bvurem", T.bvop("bvmul", r, am), N)
                spec = T.ite(T.bvcmp("uge", x, T.const_bv(k, WP)), r, spec)
            return T.ne(n, T.const_bv(0, WP)), T.and_(T.not_(e.ub), T.not_(e.unwind), T.eq(z(e.ret), spec))
        ob = F.Ob("pow_mod:at_%d_bits" % WP, [("a", T.BV(WP)), ("e", T.BV(WP)), ("n", T.BV(WP))], fn_pm, kernels=["c12_pow_mod"], routes=["z3-bv", "cvc5-bv"],
                  timeout=300,
                  note="IR re-interpreted at %d bits with mul_mod (recursive) and add_mod inlined, all base, exponent, modulus >= 1: equals base^exp mod n computed by "
                       "repeated multiplication in 2W-bit arithmetic; no UB, no unsigned wrap-around" % WP)
        ob.reinterpreted = True
        if self.tier == "thorough":
            obs.append(ob)
        # ---------------- closed
        for k in self.closed:
            if K[k.name].kernel.dropped:
                self.notes.append("closed kernel does not compile: %s: %s" % (k.name, K[k.name].kernel.dropped[:200]))
                ob = F.Ob("closed:" + k.name, [], None, kind="closed", key=dict(k.key, compile_error=K[k.name].kernel.dropped[:200]),
                          kernels=[k.name])
                ob.status = "lowering-failed"
                obs.append(ob)
                continue

            def fn(K, name=k.name):
                e = K[name]()
                return T.TRUE, T.and_(T.not_(e.ub), e.ret)
            obs.append(F.Ob("closed:" + k.name, [], fn, kind="closed", key=k.key, kernels=[k.name]))
        return obs


CHECK = C12
