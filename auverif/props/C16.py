"""C16 - Constants convert exactly or not at all (partial, mostly closed; DESIGN.md section 6, C16).

Solver-decided half: multiplying / dividing a number or a quantity by a Constant leaves the stored number untouched
(identity kernels, bit-for-bit, no UB, for all inputs).  Closed half: `can_store_value_in<T>(u)`, `in<T>(u)`,
`as<T>(u)`, the implicit conversion to Quantity<u, T> and compositions with makers / magnitudes / other constants are
compile-time facts; they are lowered as no-argument kernels and compared with the exact model (unitmodel.Mag: prime
exponent map + power of pi), whose constant values are written here from the SI brochure (2019 redefinition), not read
from the headers."""
from fractions import Fraction
from .. import framework as F
from .. import terms as T
from .. import fpeval
from .. import unitmodel as U

TYPES11 = F.INT_REPS + F.FLOAT_REPS
PREC = {"float": 24, "double": 53, "long double": 64}
EMIN = {"float": -126, "double": -1022, "long double": -16382}
FMAX = {"float": (2 - Fraction(1, 2 ** 23)) * Fraction(2) ** 127,
        "double": (2 - Fraction(1, 2 ** 52)) * Fraction(2) ** 1023,
        "long double": (2 - Fraction(1, 2 ** 63)) * Fraction(2) ** 16383}
FMIN_SUB = {t: Fraction(2) ** (EMIN[t] - (PREC[t] - 1)) for t in PREC}
P_D4 = 18446744073709551557          # 2^64 - 59, prime
P_D4B = 9223372036854775837          # 2^63 + 29, first prime above 2^63
P_61 = 2305843009213693951           # 2^61 - 1, prime


def tname(t):
    return t.replace("_t", "").replace(" ", "")


def mag_of_int(n):
    import sympy
    return U.Mag({int(p): int(e) for p, e in sympy.factorint(int(n)).items()})


def mag_of(q):
    q = Fraction(q)
    return mag_of_int(q.numerator) / mag_of_int(q.denominator)


# ---------------------------------------------------------------------------------------------------------------------
# unit expressions: C++ value expression + exact model unit

class UE:
    def __init__(self, cxx, unit, sid):
        self.cxx = cxx
        self.unit = unit if isinstance(unit, U.Unit) and type(unit) is U.Unit else U.Unit(unit.dim, unit.mag)
        self.sid = sid

    def __mul__(self, o):
        return UE("(%s * %s)" % (self.cxx, o.cxx), self.unit * o.unit, "(%s*%s)" % (self.sid, o.sid))

    def __truediv__(self, o):
        return UE("(%s / %s)" % (self.cxx, o.cxx), self.unit / o.unit, "(%s/%s)" % (self.sid, o.sid))

    def pow(self, n):
        return UE("pow<%d>(%s)" % (n, self.cxx), self.unit.pow(n), "%s^%d" % (self.sid, n))

    def root(self, n):
        return UE("root<%d>(%s)" % (n, self.cxx), self.unit.pow(Fraction(1, n)), "%s^(1/%d)" % (self.sid, n))

    def inv(self):
        return UE("inverse(%s)" % self.cxx, self.unit.pow(-1), "1/%s" % self.sid)

    def by(self, m):
        """scale by a magnitude spec (cxx, Mag, sid)"""
        return UE("(%s * %s)" % (self.cxx, m[0]), self.unit.scaled(m[1]), "[%s %s]" % (m[2], self.sid))


def lib(name):
    return UE(name + "{}", U.BY_NAME[name], name)


def pre(p, ue):
    return UE("%s(%s)" % (p.lower(), ue.cxx), U.prefixed(p, ue.unit), "%s<%s>" % (p, ue.sid))


# magnitude specs
def MI(n):
    return ("mag<%dull>()" % n, mag_of_int(n), str(n))


def MR(n, d):
    return ("(mag<%dull>() / mag<%dull>())" % (n, d), mag_of(Fraction(n, d)), "%d/%d" % (n, d))


def MP(b, k):
    return ("pow<%d>(mag<%dull>())" % (k, b), mag_of_int(b).pow(k), "%d^%d" % (b, k))


def MROOT(b, k):
    return ("root<%d>(mag<%dull>())" % (k, b), mag_of_int(b).pow(Fraction(1, k)), "%d^(1/%d)" % (b, k))


def MPI(k):
    return ("pow<%d>(Magnitude<Pi>{})" % k if k != 1 else "Magnitude<Pi>{}", U.PI.pow(k), "pi^%d" % k)


def MMUL(a, b):
    return ("(%s * %s)" % (a[0], b[0]), a[1] * b[1], "%s*%s" % (a[2], b[2]))


def MDIV(a, b):
    return ("(%s / %s)" % (a[0], b[0]), a[1] / b[1], "%s/%s" % (a[2], b[2]))


# ---------------------------------------------------------------------------------------------------------------------
# the nine library constants: value and unit from the SI brochure, 9th edition (defining constants) / CGPM 1901 (g_0)

def _si():
    m, s, kg = lib("Meters"), lib("Seconds"), pre("Kilo", lib("Grams"))
    J, K, C, mol, Hz = lib("Joules"), lib("Kelvins"), lib("Coulombs"), lib("Moles"), lib("Hertz")
    lm, W = lib("Lumens"), lib("Watts")
    d = {}
    d["SPEED_OF_LIGHT"] = (m / s).unit.scaled(299792458)
    d["STANDARD_GRAVITY"] = (m / s.pow(2)).unit.scaled(Fraction("9.80665"))
    d["PLANCK_CONSTANT"] = (J * s).unit.scaled(Fraction("6.62607015e-34"))
    d["REDUCED_PLANCK_CONSTANT"] = (J * s).unit.scaled(Fraction("6.62607015e-34") / 2).scaled(U.PI.pow(-1))
    d["BOLTZMANN_CONSTANT"] = (J / K).unit.scaled(Fraction("1.380649e-23"))
    d["ELEMENTARY_CHARGE"] = C.unit.scaled(Fraction("1.602176634e-19"))
    d["AVOGADRO_CONSTANT"] = mol.inv().unit.scaled(Fraction("6.02214076e23"))
    d["CESIUM_HYPERFINE_TRANSITION_FREQUENCY"] = Hz.unit.scaled(9192631770)
    d["LUMINOUS_EFFICACY_540_TERAHERTZ"] = (lm / W).unit.scaled(683)
    return d


class CE:
    """constant expression: C++ value expression + exact model of the constant as a unit"""

    def __init__(self, cxx, unit, sid):
        self.cxx = cxx
        self.unit = unit
        self.sid = sid

    @property
    def ucxx(self):
        return "AssociatedUnitT<std::decay_t<decltype(%s)>>{}" % self.cxx

    def as_ue(self):
        return UE(self.ucxx, self.unit, "unit(%s)" % self.sid)


def libconst(name):
    return CE(name, _si()[name], name)


def genconst(ue):
    return CE("make_constant(%s)" % ue.cxx, ue.unit, "make_constant(%s)" % ue.sid)


# ---------------------------------------------------------------------------------------------------------------------
# model predicates

def model_representable(r, t):
    """exact ratio r (Mag) representable in arithmetic type t?  True / False / None (too close to call)"""
    if not F.ct_is_float(t):
        if not r.is_integer():
            return False
        return r.as_fraction() <= F.ct_range(t)[1]
    lo, hi = r.approx()
    if lo > FMAX[t]:
        return False
    if hi > FMAX[t]:
        return None
    if lo >= FMIN_SUB[t]:
        return True
    return None         # underflows (to zero or below the smallest subnormal): 'in range' is not decided by the model


def float_close(t, bits, r, ulps):
    """is the bit pattern within `ulps` units in the last place (of type t, at the exact value) of the exact ratio r?"""
    got = fpeval.to_fraction(F.FMT_OF[t], bits)
    if got is None or got <= 0:
        return False
    lo, hi = r.approx()
    e = lo.numerator.bit_length() - lo.denominator.bit_length()
    if Fraction(2) ** e > lo:
        e -= 1
    if Fraction(2) ** (e + 1) <= lo:
        e += 1
    ulp = Fraction(2) ** (max(e, EMIN[t]) - (PREC[t] - 1))
    return lo - ulps * ulp <= got <= hi + ulps * ulp


def inverse_integer_above_max(r, t):
    """ratio == 1/N with N an integer above max(t), t floating: the library converts by dividing by get_value<t>(N)"""
    if not F.ct_is_float(t) or not r.is_rational():
        return False
    q = r.as_fraction()
    return q.numerator == 1 and q.denominator > FMAX[t]


def bool_is(e, expected):
    """closed boolean kernel returned `expected` without UB"""
    if e.ret is None:
        return T.FALSE
    return T.and_(T.not_(e.ub), T.eq(e.ret, T.const_bool(bool(expected))))


def has_d4_factor(r):
    return any(p >= (1 << 63) for p in r.primes)


# ---------------------------------------------------------------------------------------------------------------------

class C16(F.Check):
    pid = "C16"
    level = "model_checking"
    chunk_size = 150
    assumptions = [
        "clang 14 front end and -O1 pipeline, own LLVM-IR->SMT encoder, z3 5.1 / cvc5 1.0.3 are trusted",
        "solver-decided (all inputs, bit-for-bit, no UB): (x * C), (C * x), (x / C), (q * C), (C * q), (q / C) read back in the unit the model "
        "predicts return the stored number unchanged; (C / x), (C / q) for floating reps equal the raw 1 / x",
        "everything about availability and values of C.in<T>(u) / C.as<T>(u) / implicit conversion / can_store_value_in<T>(u) is a compile-time fact: "
        "observed as closed no-argument kernels (the compiler's constant evaluation of the real code) and compared with the exact model; "
        "the grid of (constant, unit, T) is enumerated, not quantified",
        "'not available' is a compile error and cannot be observed by a solver: only the boolean can_store_value_in<T>(u) is compared with the model; "
        "in addition C.in<T>(u) is generated for every grid point: where the model says 'not representable' the kernel is expected to be refused by the "
        "compiler (counted in evidence); one that compiles is reported with the value it returns; where the model says 'representable' a refused kernel is reported",
        "implicit conversion to Quantity<U, R> is not SFINAE-observable (static_assert inside); the corresponding-quantity conversion (std::chrono::duration) is "
        "enable_if-guarded and is observed with std::is_convertible",
        "integral T: exact integer equality.  floating T: 'representable' = exact ratio <= max(T) (ratios within one ulp of max(T) are not in the grid: the "
        "library decides in long double); value within 4 ulp(T) of the exact ratio for |log10 ratio| <= 64, within 256 ulp (measured: 45) for the extreme powers "
        "(10^+-308, 10^+-4932, 2^+-16383: the library's repeated squaring in long double accumulates rounding), positive and finite",
        "the values of the nine library constants in the model are the SI defining constants (2019) and g_0 = 9.80665 m/s^2, written independently of the headers",
        "Constant * Unit / Unit * Constant is not an operation of the library (does not compile) and is not part of the grid",
    ]

    def bounds(self):
        return {"stored values (identity kernels)": "all values of int32, int64, float, double",
                "grid (constant, unit) pairs": len(getattr(self, "pairs", [])), "arithmetic types": 11,
                "identity kernels": len(getattr(self, "ident", []))}

    # ---- grid
    def grid(self):
        m, s = lib("Meters"), lib("Seconds")
        J, K, Cb, mol, Hz = lib("Joules"), lib("Kelvins"), lib("Coulombs"), lib("Moles"), lib("Hertz")
        lm, W = lib("Lumens"), lib("Watts")
        quick = self.tier == "quick"
        pairs = []

        def add(c, u, why=""):
            pairs.append((c, u, why))

        L = libconst
        c = L("SPEED_OF_LIGHT")
        add(c, m / s, "299792458: fits int32, not int16")
        add(c, pre("Kilo", m) / s, "299792.458: not an integer")
        add(c, pre("Milli", m) / s, "299792458000: fits int64 only")
        add(c, pre("Pico", m) / s, "2.99792458e20: above every integer type")
        add(c, lib("Miles") / lib("Hours"), "rational")
        add(c, (m / s).by(MI(299792458)), "1")
        g = L("STANDARD_GRAVITY")
        add(g, m / s.pow(2), "9.80665")
        add(g, pre("Micro", m) / s.pow(2), "9806650")
        add(g, lib("Feet") / s.pow(2), "rational")
        h = L("PLANCK_CONSTANT")
        add(h, J * s, "6.62607015e-34")
        add(h, (J * s).by(MP(10, -42)), "662607015")
        add(h, (J * s).by(MP(10, -40)), "6626070.15")
        hb = L("REDUCED_PLANCK_CONSTANT")
        add(hb, J * s, "irrational")
        add(hb, (J * s).by(MDIV(MP(10, -42), MMUL(MI(2), MPI(1)))), "662607015 (pi cancels)")
        add(hb, (J * s).by(MDIV(MP(10, -34), MPI(1))), "3.313035075 (pi cancels)")
        kb = L("BOLTZMANN_CONSTANT")
        add(kb, J / K, "1.380649e-23")
        add(kb, (J / K).by(MP(10, -29)), "1380649")
        add(kb, (J / K).by(MP(10, -30)), "13806490")
        e = L("ELEMENTARY_CHARGE")
        add(e, Cb, "1.602176634e-19")
        add(e, Cb.by(MP(10, -28)), "1602176634: fits int32 and uint32")
        add(e, Cb.by(MP(10, -29)), "16021766340: fits int64 only")
        na = L("AVOGADRO_CONSTANT")
        add(na, mol.inv(), "6.02214076e23: above every integer type")
        add(na, mol.inv().by(MP(10, 15)), "602214076")
        add(na, pre("Kilo", mol).inv(), "6.02214076e26")
        cs = L("CESIUM_HYPERFINE_TRANSITION_FREQUENCY")
        add(cs, Hz, "9192631770: above uint32, fits int64")
        add(cs, pre("Kilo", Hz), "9192631.77")
        add(cs, s.inv().by(MI(10)), "919263177: fits int32")
        kcd = L("LUMINOUS_EFFICACY_540_TERAHERTZ")
        add(kcd, lm / W, "683: fits int16, not int8/uint8")
        add(kcd, (lm / W).by(MI(683)), "1")
        add(kcd, lm / pre("Kilo", W), "683000")
        # generated constants: make_constant(Meters * M) read in Meters, ratio M
        mags = []
        for t in F.INT_REPS:
            hi = F.ct_range(t)[1]
            mags.append((MI(hi), "max(%s)" % t))
            if hi + 1 < (1 << 64):
                mags.append((MI(hi + 1), "max(%s)+1" % t))
        mags.append((MP(2, 64), "max(uint64_t)+1"))
        mags.append((MI(1), "one"))
        mags += [(MR(3, 7), "rational"), (MR(1, 3), "rational"), (MR(1, 1000), "rational"), (MR(22, 7), "rational > 1")]
        mags += [(MI(P_61), "prime 2^61-1"), (MI(P_D4), "prime 2^64-59"), (MI(P_D4B), "prime 2^63+29")]
        mags += [(MMUL(MI(P_D4), MI(2)), "2 * (2^64-59)"), (MR(P_D4, 3), "(2^64-59)/3")]
        mags += [(MPI(1), "pi"), (MPI(-1), "1/pi"), (MPI(2), "pi^2"), (MDIV(MI(180), MPI(1)), "180/pi"),
                 (MROOT(2, 2), "sqrt(2)"), (MROOT(4, 2), "sqrt(4) == 2"), (MROOT(27, 3), "cbrt(27) == 3")]
        # floating maxima: exact max(float), 2^128, decimal and binary powers straddling each format's maximum
        mags += [(MMUL(MP(2, 104), MI(16777215)), "max(float) exactly"), (MP(2, 127), "2^127"), (MP(2, 128), "2^128 > max(float)"),
                 (MP(10, 38), "1e38"), (MP(10, 39), "1e39 > max(float)"), (MP(10, -30), "1e-30"), (MP(10, -39), "1e-39: float subnormal"),
                 (MP(10, -309), "1e-309: double subnormal"),
                 (MP(2, 1023), "2^1023"), (MP(2, 1024), "2^1024 > max(double)"), (MP(10, 308), "1e308"), (MP(10, 309), "1e309 > max(double)"),
                 (MP(2, 16383), "2^16383"), (MP(2, 16384), "2^16384 > max(long double)"), (MP(10, 4932), "1e4932"),
                 (MP(10, 4933), "1e4933 > max(long double)"), (MP(10, -308), "1e-308")]
        for mg, why in mags:
            add(genconst(m.by(mg)), m, why)
        # the same through a non-trivial target unit / compound generated constants
        add(genconst(m.by(MP(2, 64))), m.by(MI(2)), "2^63: fits uint64, not int64")
        add(genconst(m.by(MP(2, 64))), m.by(MI(4)), "2^62")
        add(genconst(m.by(MI(P_D4))), m.by(MI(P_D4)), "1 (huge prime cancels)")
        add(genconst(pre("Kilo", m) / lib("Hours")), m / s, "5/18")
        add(genconst(lib("Miles")), lib("Inches"), "63360: above int16, fits uint16")
        add(genconst(lib("Miles")), lib("Feet"), "5280")
        add(genconst(lib("Feet")), lib("Miles"), "1/5280")
        add(genconst(lib("Revolutions")), lib("Degrees"), "360")
        add(genconst(lib("Degrees")), lib("Radians"), "pi/180")
        add(genconst(lib("Days")), pre("Milli", s), "86400000: fits int32")
        add(genconst(lib("Days")), pre("Micro", s), "86400000000: above uint32")
        add(genconst(lib("Bytes") * pre("Kibi", lib("Bits"))), lib("Bits").pow(2), "8192")
        add(genconst(m.pow(2)), pre("Centi", m).pow(2), "10000")
        add(genconst(m.root(2)), pre("Centi", m).root(2), "10")
        add(genconst(m.root(2)), pre("Milli", m).root(2), "sqrt(1000): irrational")
        # VERIF_SEED-random generated constants: integers of log-uniform size (smooth above 2^33 so that the library's compile-time
        # factorisation stays cheap), rationals, read in Meters or in a scaled target so that the ratio may or may not be an integer
        rng = self.rng
        from math import gcd

        def smooth(bits):
            n = 1
            while n.bit_length() < bits:
                n *= rng.choice([2, 3, 5, 7, 11, 13, 127, 257, 641, 65537])
            return n
        for _ in range(6 if quick else 60):
            kind = rng.random()
            if kind < 0.4:
                mg = MI(max(2, rng.getrandbits(rng.randrange(2, 34))))
            elif kind < 0.7:
                n = smooth(rng.randrange(20, 70))
                mg = MI(n) if n < (1 << 64) else MMUL(MI(n >> (n.bit_length() - 60) | 1), MP(2, n.bit_length() - 60))
            else:
                a, b = rng.randrange(1, 100000), rng.randrange(2, 1000)
                g = gcd(a, b)
                mg = MR(a // g, b // g) if b // g > 1 else MI(max(2, a // g))
            target = m if rng.random() < 0.5 else m.by(MI(rng.choice([2, 3, 4, 5, 7, 10, 12, 1000])))
            add(genconst(m.by(mg)), target, "random")
        return pairs

    def kernels(self):
        ks = []
        self.prelude = ""
        quick = self.tier == "quick"
        # ------------------------------------------------------------------ A. identity kernels
        m, s = lib("Meters"), lib("Seconds")
        consts = [libconst("SPEED_OF_LIGHT"), libconst("REDUCED_PLANCK_CONSTANT"), genconst(m.by(MR(3, 7))),
                  genconst(lib("Radians").by(MPI(1))), genconst(m.by(MI(P_D4))), genconst((m / s.pow(2)).by(MROOT(2, 2)))]
        if not quick:
            consts += [libconst(n) for n in sorted(_si()) if n not in ("SPEED_OF_LIGHT", "REDUCED_PLANCK_CONSTANT")]
        reps = ["int32_t", "int64_t", "float", "double"]
        qunits = [lib("Seconds")] if quick else [lib("Seconds"), lib("Feet"), pre("Kilo", lib("Grams"))]
        self.ident = []
        self.ident_types = []
        self.recip = []
        for ci, c in enumerate(consts):
            uc = c.as_ue()
            for r in reps:
                tg = "%d_%s" % (ci, tname(r))
                forms = [("xC", "(x * %s)" % c.cxx, uc), ("Cx", "(%s * x)" % c.cxx, uc), ("x_C", "(x / %s)" % c.cxx, uc.inv())]
                for qi, q in enumerate(qunits):
                    mk = "make_quantity<std::decay_t<decltype(%s)>>(x)" % q.cxx
                    forms += [("qC%d" % qi, "(%s * %s)" % (mk, c.cxx), q * uc), ("Cq%d" % qi, "(%s * %s)" % (c.cxx, mk), uc * q),
                              ("q_C%d" % qi, "(%s / %s)" % (mk, c.cxx), q / uc)]
                for fname, expr, target in forms:
                    key = {"constant": c.sid, "rep": r, "form": fname, "expression": expr, "read_in": target.sid}
                    k = F.Kernel("c16_id_%s_%s" % (fname, tg), r, [(r, "x")], "return %s.in(%s);" % (expr, target.cxx), key=key,
                                 family="identity:" + fname.rstrip("0123456789"))
                    ks.append(k)
                    self.ident.append(k)
                    # quantity-equivalence rather than type identity: the model predicts the unit, not the spelling of its type
                    kt = F.Kernel("c16_idty_%s_%s" % (fname, tg), "bool", [],
                                  "%s x{1}; (void)x; using Q = std::decay_t<decltype(%s)>; return std::is_same<typename Q::Rep, %s>::value && "
                                  "AreUnitsQuantityEquivalent<typename Q::Unit, std::decay_t<decltype(%s)>>::value;" % (r, expr, r, target.cxx),
                                  key=key, family="identity_result_type", native=False)
                    ks.append(kt)
                    self.ident_types.append(kt)
                if F.ct_is_float(r):
                    rforms = [("C_x", "(%s / x)" % c.cxx, uc)]
                    for qi, q in enumerate(qunits[:1]):
                        mk = "make_quantity<std::decay_t<decltype(%s)>>(x)" % q.cxx
                        rforms.append(("C_q%d" % qi, "(%s / %s)" % (c.cxx, mk), uc / q))
                    for fname, expr, target in rforms:
                        key = {"constant": c.sid, "rep": r, "form": fname, "expression": expr, "read_in": target.sid}
                        k = F.Kernel("c16_rc_%s_%s" % (fname, tg), r, [(r, "x")], "return %s.in(%s);" % (expr, target.cxx), key=key,
                                     family="reciprocal:" + fname.rstrip("0123456789"))
                        ks.append(k)
                        self.recip.append(k)
                        # the result keeps the operand's rep (a float divisor must not widen the quotient to double) and has the model's unit
                        kt = F.Kernel("c16_rcty_%s_%s" % (fname, tg), "bool", [],
                                      "%s x{1}; (void)x; using Q = std::decay_t<decltype(%s)>; return std::is_same<typename Q::Rep, %s>::value && "
                                      "AreUnitsQuantityEquivalent<typename Q::Unit, std::decay_t<decltype(%s)>>::value;" % (r, expr, r, target.cxx),
                                      key=key, family="identity_result_type", native=False)
                        ks.append(kt)
                        self.ident_types.append(kt)
        # ------------------------------------------------------------------ B. compositions (closed)
        self.comp = []      # (kernel, kind, payload)
        cs = [libconst("SPEED_OF_LIGHT"), libconst("PLANCK_CONSTANT"), genconst(m.by(MR(3, 7)))]
        if not quick:
            cs += [libconst("REDUCED_PLANCK_CONSTANT"), libconst("BOLTZMANN_CONSTANT"), genconst(lib("Degrees"))]
        partners_c = [libconst("ELEMENTARY_CHARGE"), genconst(lib("Feet"))]
        makers = [("meters", m), ("kilo(grams)", pre("Kilo", lib("Grams"))), ("(feet / second)", lib("Feet") / s)]
        singulars = [("second", s), ("meter", m)]
        magsB = [MI(3), MR(5, 7), MPI(1), MP(10, -9)]
        n = 0

        def comp(kind, expr, expected_unit, wrapper, key):
            """type-level: result is `wrapper` of a unit quantity-equivalent to the model's; value-level where it has a value"""
            nonlocal n
            n += 1
            key = dict(key, expression=expr, expected_unit=expected_unit.sid, wrapper=wrapper)
            body = ("using R = std::decay_t<decltype(%s)>; using EU = std::decay_t<decltype(%s)>; "
                    "return std::is_same<R, %s<AssociatedUnitT<R>>>::value && AreUnitsQuantityEquivalent<AssociatedUnitT<R>, EU>::value;" % (
                        expr, expected_unit.cxx, wrapper))
            k = F.Kernel("c16_comp_%d" % n, "bool", [], body, key=key, family="composition:" + kind, native=False)
            ks.append(k)
            self.comp.append((k, "type", None))
            if wrapper == "Constant":
                # value of the composed constant in the model's unit must be exactly 1 in every type
                for t in ("int32_t", "double"):
                    kv = F.Kernel("c16_compv_%d_%s" % (n, tname(t)), t, [], "return (%s).in<%s>(%s);" % (expr, t, expected_unit.cxx),
                                  key=dict(key, T=t), family="composition_value:" + kind, native=False)
                    ks.append(kv)
                    self.comp.append((kv, "one", t))

        for c in cs:
            uc = c.as_ue()
            for mkx, mu in makers:
                comp("maker", "(%s * %s)" % (c.cxx, mkx), uc * mu, "QuantityMaker", {"constant": c.sid, "partner": mkx, "op": "C*maker"})
                comp("maker", "(%s * %s)" % (mkx, c.cxx), mu * uc, "QuantityMaker", {"constant": c.sid, "partner": mkx, "op": "maker*C"})
                comp("maker", "(%s / %s)" % (c.cxx, mkx), uc / mu, "QuantityMaker", {"constant": c.sid, "partner": mkx, "op": "C/maker"})
                comp("maker", "(%s / %s)" % (mkx, c.cxx), mu / uc, "QuantityMaker", {"constant": c.sid, "partner": mkx, "op": "maker/C"})
            for sx, su in singulars:
                comp("singular", "(%s * %s)" % (c.cxx, sx), uc * su, "SingularNameFor", {"constant": c.sid, "partner": sx, "op": "C*singular"})
                comp("singular", "(%s / %s)" % (c.cxx, sx), uc / su, "SingularNameFor", {"constant": c.sid, "partner": sx, "op": "C/singular"})
                comp("singular", "(%s / %s)" % (sx, c.cxx), su / uc, "SingularNameFor", {"constant": c.sid, "partner": sx, "op": "singular/C"})
            for c2 in partners_c:
                u2 = c2.as_ue()
                comp("constant", "(%s * %s)" % (c.cxx, c2.cxx), uc * u2, "Constant", {"constant": c.sid, "partner": c2.sid, "op": "C*C'"})
                comp("constant", "(%s / %s)" % (c.cxx, c2.cxx), uc / u2, "Constant", {"constant": c.sid, "partner": c2.sid, "op": "C/C'"})
                comp("constant", "(%s / %s)" % (c2.cxx, c.cxx), u2 / uc, "Constant", {"constant": c.sid, "partner": c2.sid, "op": "C'/C"})
            for mg in magsB:
                comp("magnitude", "(%s * %s)" % (c.cxx, mg[0]), uc.by(mg), "Constant", {"constant": c.sid, "partner": mg[2], "op": "C*M"})
                comp("magnitude", "(%s * %s)" % (mg[0], c.cxx), uc.by(mg), "Constant", {"constant": c.sid, "partner": mg[2], "op": "M*C"})
                comp("magnitude", "(%s / %s)" % (c.cxx, mg[0]), uc.by((("(mag<1>() / %s)" % mg[0]), mg[1].pow(-1), "1/" + mg[2])), "Constant",
                     {"constant": c.sid, "partner": mg[2], "op": "C/M"})
                comp("magnitude", "(%s / %s)" % (mg[0], c.cxx), uc.inv().by(mg), "Constant", {"constant": c.sid, "partner": mg[2], "op": "M/C"})
            comp("power", "pow<2>(%s)" % c.cxx, uc.pow(2), "Constant", {"constant": c.sid, "op": "pow<2>"})
            comp("power", "pow<-1>(%s)" % c.cxx, uc.pow(-1), "Constant", {"constant": c.sid, "op": "pow<-1>"})
            comp("power", "root<2>(%s)" % c.cxx, uc.root(2), "Constant", {"constant": c.sid, "op": "root<2>"})
        # value-level composition facts against the model (not only 'equals the library's own unit algebra')
        self.compval = []
        cv = [("(SPEED_OF_LIGHT * PLANCK_CONSTANT)", _si()["SPEED_OF_LIGHT"] * _si()["PLANCK_CONSTANT"], (lib("Joules") * m), "h c in J m"),
              ("(PLANCK_CONSTANT / (mag<2>() * Magnitude<Pi>{}))", _si()["PLANCK_CONSTANT"].scaled(Fraction(1, 2)).scaled(U.PI.pow(-1)), (lib("Joules") * s), "h/(2 pi) in J s"),
              ("(REDUCED_PLANCK_CONSTANT * Magnitude<Pi>{} * mag<2>() / PLANCK_CONSTANT)", U.Unit(U.NODIM, U.ONE), lib("Unos"), "2 pi hbar / h == 1"),
              ("pow<2>(SPEED_OF_LIGHT)", _si()["SPEED_OF_LIGHT"].pow(2), (m / s).pow(2), "c^2 in m^2/s^2"),
              ("(ELEMENTARY_CHARGE * AVOGADRO_CONSTANT)", _si()["ELEMENTARY_CHARGE"] * _si()["AVOGADRO_CONSTANT"], lib("Coulombs") / lib("Moles"), "Faraday constant"),
              ("(BOLTZMANN_CONSTANT * AVOGADRO_CONSTANT)", _si()["BOLTZMANN_CONSTANT"] * _si()["AVOGADRO_CONSTANT"], lib("Joules") / (lib("Kelvins") * lib("Moles")), "gas constant"),
              # scaling an already scaled constant by the magnitude ONE (in several spellings) changes nothing
              ("(mag<1>() * (mag<2>() * SPEED_OF_LIGHT))", _si()["SPEED_OF_LIGHT"].scaled(2), (m / s), "1 * (2 c) in m/s"),
              ("((mag<2>() * SPEED_OF_LIGHT) * mag<1>())", _si()["SPEED_OF_LIGHT"].scaled(2), (m / s), "(2 c) * 1 in m/s"),
              ("((SPEED_OF_LIGHT / mag<4>()) / mag<1>())", _si()["SPEED_OF_LIGHT"].scaled(Fraction(1, 4)), (m / s), "(c / 4) / 1 in m/s"),
              ("((mag<6>() / mag<2>() / mag<3>()) * (mag<5>() * SPEED_OF_LIGHT))", _si()["SPEED_OF_LIGHT"].scaled(5), (m / s), "(6/2/3) * (5 c) in m/s"),
              ("(make_constant(meters * mag<3>()) * mag<1>())", m.unit.scaled(3), m, "constant(3 m) * 1 in m"),
              ("(mag<1>() * make_constant(meters / mag<8>()))", m.unit.scaled(Fraction(1, 8)), pre("Milli", m), "1 * constant(m / 8) in mm"),
              ("(SPEED_OF_LIGHT / CESIUM_HYPERFINE_TRANSITION_FREQUENCY)", _si()["SPEED_OF_LIGHT"] / _si()["CESIUM_HYPERFINE_TRANSITION_FREQUENCY"], pre("Milli", m), "Cs wavelength in mm")]
        for i, (expr, cu, tu, what) in enumerate(cv):
            r = U.ratio(cu, tu.unit)
            for t in ("double", "long double", "int64_t"):
                rep = model_representable(r, t)
                key = {"expression": expr, "unit": tu.sid, "T": t, "what": what, "model_representable": rep}
                kc = F.Kernel("c16_cvcan_%d_%s" % (i, tname(t)), "bool", [],
                              "return std::decay_t<decltype(%s)>::template can_store_value_in<%s>(%s);" % (expr, t, tu.cxx), key=key,
                              family="composition_can_store", native=False)
                kv = F.Kernel("c16_cvin_%d_%s" % (i, tname(t)), t, [], "return (%s).in<%s>(%s);" % (expr, t, tu.cxx), key=key,
                              family="composition_in", native=False)
                ks += [kc, kv]
                self.compval.append((kc, kv, r, t, rep, key))
        # corresponding-quantity conversion (std::chrono::duration): enable_if-guarded, so availability is observable
        self.chrono = []
        ch = [("make_constant(Seconds{} * mag<5>())", "int64_t", "std::milli", 5000), ("make_constant(Seconds{} * mag<5>())", "int8_t", "std::milli", 5000),
              ("make_constant(Seconds{} * mag<5>())", "int16_t", "std::milli", 5000), ("make_constant(Seconds{} * mag<5>())", "int32_t", "std::ratio<2>", Fraction(5, 2)),
              ("make_constant(Seconds{} * mag<5>())", "double", "std::ratio<2>", Fraction(5, 2)), ("make_constant(Hours{})", "int16_t", "std::ratio<1>", 3600),
              ("make_constant(Hours{})", "uint8_t", "std::ratio<1>", 3600), ("make_constant(Hours{})", "int8_t", "std::ratio<60>", 60),
              ("make_constant(Days{})", "int32_t", "std::micro", 86400 * 10 ** 6), ("make_constant(Days{})", "int64_t", "std::micro", 86400 * 10 ** 6)]
        for i, (cx, t, per, val) in enumerate(ch):
            if val is None:
                exp = False
            elif F.ct_is_float(t):
                exp = True
            else:
                exp = Fraction(val).denominator == 1 and Fraction(val) <= F.ct_range(t)[1]
            key = {"constant": cx, "duration": "std::chrono::duration<%s, %s>" % (t, per), "model_value": str(val), "expected_convertible": exp}
            k = F.Kernel("c16_chrono_conv_%d" % i, "bool", [], "return std::is_convertible<std::decay_t<decltype(%s)>, std::chrono::duration<%s, %s>>::value;" % (cx, t, per),
                         key=key, family="chrono_is_convertible", native=False)
            ks.append(k)
            kv = None
            if exp:
                kv = F.Kernel("c16_chrono_val_%d" % i, t, [], "std::chrono::duration<%s, %s> d = %s; return d.count();" % (t, per, cx), key=key,
                              family="chrono_value", native=False)
                ks.append(kv)
            self.chrono.append((k, kv, exp, t, val, key))
        # ------------------------------------------------------------------ C. the availability / value grid (closed)
        self.pairs = self.grid()
        self.cells = []
        types = TYPES11 + ["long long", "unsigned long long"]      # distinct types with 64-bit arithmetic (type-identity dispatch)
        for pi, (c, u, why) in enumerate(self.pairs):
            r = U.ratio(c.unit, u.unit)
            for t in types:
                rep = model_representable(r, t)
                tag = "%d_%s" % (pi, tname(t))
                key = {"constant": c.sid, "unit": u.sid, "T": t, "ratio": repr(r), "why": why, "model_representable": rep}
                if has_d4_factor(r) and F.ct_signed(t) and not F.ct_is_float(t):
                    key["prime_factor_ge_2^63_signed_T"] = True
                if rep and inverse_integer_above_max(r, t):
                    key["inverse_integer_above_max_floating_T"] = True
                cell = {"c": c, "u": u, "r": r, "t": t, "rep": rep, "tag": tag, "key": key}
                cell["can"] = F.Kernel("c16_can_%s" % tag, "bool", [], "return %s.can_store_value_in<%s>(%s);" % (c.cxx, t, u.cxx), key=key,
                                       family="can_store_value_in", native=False)
                cell["in"] = F.Kernel("c16_in_%s" % tag, t, [], "return %s.in<%s>(%s);" % (c.cxx, t, u.cxx), key=key, family="in<T>(u)", native=False)
                ks += [cell["can"], cell["in"]]
                if rep:
                    cell["as"] = F.Kernel("c16_as_%s" % tag, t, [], "return %s.as<%s>(%s).in(%s);" % (c.cxx, t, u.cxx, u.cxx), key=key,
                                          family="as<T>(u)", native=False)
                    cell["impl"] = F.Kernel("c16_impl_%s" % tag, t, [],
                                            "Quantity<std::decay_t<decltype(%s)>, %s> q = %s; return q.in(%s);" % (u.cxx, t, c.cxx, u.cxx),
                                            key=key, family="implicit Quantity<u,T>", native=False)
                    ks += [cell["as"], cell["impl"]]
                self.cells.append(cell)
        # ------------------------------------------------------------------ solver-decided: the unit attached is exactly the constant
        # (x * C) read in an SI unit is x * N / D with N/D from the SI definitions (c = 299792458 m/s, dnu_Cs = 9192631770 Hz, g0 = 9.80665 m/s^2)
        self.scaled = []
        sc = [("c_in_mps", "SPEED_OF_LIGHT", "meters / second", 299792458, 1),
              ("c_in_kmps", "SPEED_OF_LIGHT", "kilo(meters) / second", 299792458, 1000),
              ("cs_in_hz", "CESIUM_HYPERFINE_TRANSITION_FREQUENCY", "hertz", 9192631770, 1),
              ("cs_in_mhz", "CESIUM_HYPERFINE_TRANSITION_FREQUENCY", "mega(hertz)", 919263177, 100000),
              ("g0_in_mps2", "STANDARD_GRAVITY", "meters / squared(second)", 196133, 20000),
              ("gen37_in_m", "make_constant(Meters{} * mag<3>() / mag<7>())", "meters", 3, 7),
              ("q_times_c", None, None, 299792458, 1)]
        for nm, c, u, n_, d_ in sc:
            if c is None:
                body_ = "return (seconds(x) * SPEED_OF_LIGHT).coerce_in(meters);"
            else:
                body_ = "return (x * %s).coerce_in(%s);" % (c, u)
            k = F.Kernel("c16_scaled_%s" % nm, "int64_t", [("int64_t", "x")], body_, key={"constant": c or "seconds(x) * SPEED_OF_LIGHT", "read_in": u or "meters", "N": n_, "D": d_},
                         family="scaled_by_constant")
            ks.append(k)
            self.scaled.append((k, n_, d_))
        return ks

    # ---- obligations
    def value_ob(self, obs, name, k, t, r, key, note):
        """closed: kernel k (no args, returns t) yields exactly the model ratio r"""
        extreme = abs(r.log10_approx()) > 64
        ulps = 256 if extreme else 4

        def fn(K, nm=k.name, t=t, r=r, ulps=ulps):
            e = K[nm]()
            if e.ret is None or not T.is_const(e.ret):
                return T.TRUE, T.FALSE     # every path traps, or not a compile-time constant
            if F.ct_is_float(t):
                ok = float_close(t, e.ret.attr, r, ulps)
            else:
                ok = r.is_integer() and F.ival(t, e.ret).attr == r.as_fraction()
            return T.TRUE, T.and_(T.not_(e.ub), T.const_bool(bool(ok)))
        obs.append(F.Ob(name, [], fn, kind="closed", key=key, kernels=[k.name], note=note))

    def failed(self, obs, name, k, key, note):
        ob = F.Ob(name, [], None, kind="closed", key=dict(key, compile_error=(k.dropped or "")[:240]), kernels=[k.name], note=note)
        ob.status = "lowering-failed"
        obs.append(ob)

    def obligations(self, K):
        obs = []
        for k, n_, d_ in getattr(self, "scaled", []):
            if K[k.name].kernel.dropped:
                self.failed(obs, "scaled_exact:" + k.name, k, k.key, "expression must compile")
                continue

            def fnE(K, x, name=k.name, n_=n_, d_=d_):
                e = K[name](x)
                prod = T.imul(T.sval(x), T.const_int(n_))
                return T.and_(T.not_(e.ub), T.eq(T.imod(prod, T.const_int(d_)), T.const_int(0))), \
                    T.eq(T.imul(T.sval(e.ret), T.const_int(d_)), prod)
            obs.append(F.Ob("scaled_exact:" + k.name, [("x", T.BV(64))], fnE, key=k.key, kernels=[k.name], routes=F.INT_ROUTES,
                            note="(x * C) read in an SI unit equals x*N/D exactly whenever that is an integer (N/D from the SI definition)"))

            def fnR(K, x, name=k.name, n_=n_):
                e = K[name](x)
                return T.in_range(T.imul(T.sval(x), T.const_int(n_)), -(1 << 63), (1 << 63) - 1), T.not_(e.ub)
            obs.append(F.Ob("scaled_reach:" + k.name, [("x", T.BV(64))], fnR, key=k.key, kernels=[k.name], routes=F.INT_ROUTES,
                            note="x*N fits int64 => no UB"))
        cov = {"in_refused_as_model_predicts": 0, "in_available_as_model_predicts": 0, "in_compiles_although_not_representable": 0,
               "in_refused_although_representable": 0, "grid_cells_undecided_by_model": 0}
        # ---- A. identity
        for k in self.ident:
            if K[k.name].kernel.dropped:
                self.failed(obs, "identity:" + k.name, k, k.key, "the expression (or reading it back in the unit the model predicts) must compile")
                continue
            w = F.CTYPES[k.ret][1]

            def fn(K, x, nm=k.name):
                e = K[nm](x)
                if e.ret is None:
                    return T.TRUE, T.FALSE
                return T.TRUE, T.and_(T.not_(e.ub), T.eq(e.ret, x))
            obs.append(F.Ob("identity:" + k.name, [("x", T.BV(w))], fn, key=k.key, kernels=[k.name], routes=F.CMP_ROUTES,
                            note="stored number returned unchanged, bit-for-bit, no UB, for all x"))
        for k in getattr(self, "ident_types", []):
            if K[k.name].kernel.dropped:
                self.failed(obs, "identity_type:" + k.name, k, k.key, "result-type query must compile")
                continue

            def fn(K, nm=k.name):
                e = K[nm]()
                return T.TRUE, bool_is(e, True)
            obs.append(F.Ob("identity_type:" + k.name, [], fn, kind="closed", key=k.key, kernels=[k.name],
                            note="result is a Quantity of the same rep whose unit is quantity-equivalent to the model's product/quotient unit"))
        for k in self.recip:
            if K[k.name].kernel.dropped:
                self.failed(obs, "reciprocal:" + k.name, k, k.key, "must compile for floating reps")
                continue
            fmt = F.FMT_OF[k.ret]
            w = T.fmt_width(fmt)
            one = T.const_bv(fpeval.from_fraction(fmt, Fraction(1)), w)

            def fn(K, x, nm=k.name, fmt=fmt, one=one):
                e = K[nm](x)
                if e.ret is None:
                    return T.TRUE, T.FALSE
                return T.TRUE, T.and_(T.not_(e.ub), T.eq(e.ret, T.fp_bin("div", fmt, one, x)))
            obs.append(F.Ob("reciprocal:" + k.name, [("x", T.BV(w))], fn, key=k.key, kernels=[k.name], routes=F.FP_ROUTES,
                            note="C / x stores exactly the raw 1 / x (IEEE division), for all x"))
        # ---- B. compositions
        for k, kind, t in self.comp:
            if K[k.name].kernel.dropped:
                self.failed(obs, "composition:" + k.name, k, k.key, "composition with a constant must compile")
                continue
            if kind == "type":
                def fn(K, nm=k.name):
                    e = K[nm]()
                    return T.TRUE, bool_is(e, True)
                obs.append(F.Ob("composition:" + k.name, [], fn, kind="closed", key=k.key, kernels=[k.name],
                                note="result wrapper kind and unit (quantity-equivalent to the model's unit)"))
            else:
                self.value_ob(obs, "composition_value:" + k.name, k, t, U.ONE, k.key, "composed constant is exactly 1 of the model's unit")
        for kc, kv, r, t, rep, key in self.compval:
            if rep is None:
                continue
            if K[kc.name].kernel.dropped:
                self.failed(obs, "composition_can_store:" + kc.name, kc, key, "can_store_value_in must be total")
            else:
                def fn(K, nm=kc.name, rep=rep):
                    e = K[nm]()
                    return T.TRUE, bool_is(e, rep)
                obs.append(F.Ob("composition_can_store:" + kc.name, [], fn, kind="closed", key=key, kernels=[kc.name]))
            if rep and K[kv.name].kernel.dropped:
                self.failed(obs, "composition_in:" + kv.name, kv, key, "representable value must be available")
            elif rep:
                self.value_ob(obs, "composition_in:" + kv.name, kv, t, r, key, "value of the composed constant equals the model's exact value")
            elif not K[kv.name].kernel.dropped:
                def fnx(K, nm=kv.name):
                    K[nm]()
                    return T.TRUE, T.FALSE
                obs.append(F.Ob("composition_in_must_not_compile:" + kv.name, [], fnx, kind="closed", key=key, kernels=[kv.name]))
        for k, kv, exp, t, val, key in self.chrono:
            if K[k.name].kernel.dropped:
                self.failed(obs, "chrono:" + k.name, k, key, "is_convertible query must compile")
                continue

            def fn(K, nm=k.name, exp=exp):
                e = K[nm]()
                return T.TRUE, bool_is(e, exp)
            obs.append(F.Ob("chrono_convertible:" + k.name, [], fn, kind="closed", key=key, kernels=[k.name],
                            note="implicit conversion to the corresponding std::chrono::duration exists iff the count is representable"))
            if kv is not None:
                if K[kv.name].kernel.dropped:
                    self.failed(obs, "chrono_value:" + kv.name, kv, key, "permitted conversion must compile")
                else:
                    self.value_ob(obs, "chrono_value:" + kv.name, kv, t, mag_of(val), key, "duration count equals the exact ratio")
        # ---- C. grid
        for cell in self.cells:
            t, r, rep, key, tag = cell["t"], cell["r"], cell["rep"], cell["key"], cell["tag"]
            if rep is None:
                cov["grid_cells_undecided_by_model"] += 1
                continue
            kc = cell["can"]
            if K[kc.name].kernel.dropped:
                self.failed(obs, "can_store_total:" + tag, kc, key, "can_store_value_in<T>(u) must be a value (true/false), never a hard error")
            else:
                def fn(K, nm=kc.name, rep=rep):
                    e = K[nm]()
                    return T.TRUE, bool_is(e, rep)
                obs.append(F.Ob("can_store:" + tag, [], fn, kind="closed", key=key, kernels=[kc.name],
                                note="can_store_value_in<T>(u) == (exact ratio C/u representable in T)"))
            ki = cell["in"]
            dropped = K[ki.name].kernel.dropped
            if rep:
                for fam in ("in", "as", "impl"):
                    k = cell[fam]
                    if K[k.name].kernel.dropped:
                        if fam == "in":
                            cov["in_refused_although_representable"] += 1
                        self.failed(obs, "%s_available:%s" % (fam, tag), k, key, "representable, so the conversion must be available")
                    else:
                        if fam == "in":
                            cov["in_available_as_model_predicts"] += 1
                        self.value_ob(obs, "%s_value:%s" % (fam, tag), k, t, r, key, "value equals the exact ratio")
            else:
                if dropped:
                    cov["in_refused_as_model_predicts"] += 1
                    ob = F.Ob("in_refused:" + tag, [], None, kind="closed", key=dict(key, compiler=dropped[:120]), kernels=[ki.name])
                    ob.status = "skipped-domain"
                    obs.append(ob)
                else:
                    cov["in_compiles_although_not_representable"] += 1

                    def fnx(K, nm=ki.name):
                        K[nm]()
                        return T.TRUE, T.FALSE
                    val = None
                    try:
                        rv = K[ki.name]().ret
                        if T.is_const(rv):
                            val = rv.attr if F.ct_is_float(t) else F.ival(t, rv).attr
                    except Exception:   # noqa
                        pass
                    obs.append(F.Ob("in_must_not_compile:" + tag, [], fnx, kind="closed", key=dict(key, returned=str(val)), kernels=[ki.name],
                                    note="model: not representable, yet C.in<T>(u) compiles and returns a number"))
        self.extra_cov["availability"] = cov
        return obs

    def known_predicates(self):
        def d4(ob, vs):
            # magnitude.hh base_power_value casts the uintmax_t base to intmax_t: any ratio with a prime factor >= 2^63 read in a signed integral type
            if ob.key.get("prime_factor_ge_2^63_signed_T"):
                return T.TRUE
            return None

        def d11(ob, vs):
            # floating T, ratio 1/N with N > max(T): can_store_value_in is true but the conversion divides by get_value<T>(N) and is ill-formed
            if ob.key.get("inverse_integer_above_max_floating_T"):
                return T.TRUE
            return None
        return {"D4": d4, "D11": d11}


CHECK = C16
