"""C04 - Same-rep runtime conversion checkers are exact (DESIGN.md section 6, C04)."""
from fractions import Fraction
from .. import framework as F
from .. import terms as T
from .. import model as M
from .. import fpeval
from .C03 import mag_unit

PI_UNITS = [  # (source unit expr, target unit expr, label) -- irrational / library float factors
    ("Degrees", "Radians", "deg->rad"),
    ("Radians", "Degrees", "rad->deg"),
    ("Revolutions", "Radians", "rev->rad"),
]
FLOAT_FACTORS = [(1000, 1), (1, 1000), (381, 1250), (1250, 381), (10 ** 9, 1), (1, 10 ** 9), (3, 1), (1, 3), (5280, 1),
                 (10 ** 18, 1), (7, 11), (1 << 40, 1), (1, 1 << 40)]


class C04(F.Check):
    pid = "C04"
    level = "model_checking"
    assumptions = [
        "clang 14 front end and -O1 pipeline, own LLVM-IR->SMT encoder, z3 5.1 / cvc5 1.0.3 are trusted",
        "quantifier over conversion factors is an enumerated grid (DESIGN.md section 5), not symbolic",
        "only factors for which the conversion compiles are claimed (the property's domain)",
        "floating reps: 'exceeds / safely below' is read as (A) y=x(*)K infinite => overflow reported, (B) overflow reported => "
        "y infinite or |y| >= max - 2ulp, with y the single IEEE multiply/divide the conversion itself performs; the 2-ulp band under max is outside the claim",
        "x87 long double modelled as (_ FloatingPoint 15 64); pseudo-denormal encodings outside the claim",
    ]

    def bounds(self):
        return {"stored values": "all 2^w values per integral rep; every bit pattern per floating rep", "reps": F.ALL_REPS,
                "factors": "structured grid per rep (DESIGN.md section 5); floats: %d rational + %d pi-bearing" % (
                    len(FLOAT_FACTORS), len(PI_UNITS)), "unwind": 0}

    def kernels(self):
        ks = []
        self.inst = []
        self.finst = []
        for ct in F.INT_REPS + F.TWIN_INT_REPS:
            grid = M.factor_grid(ct, self.tier, self.rng)
            if ct in F.TWIN_INT_REPS and self.tier == "quick":
                # distinct types of the same width as int64_t/uint64_t: a thinned grid that keeps the pure-integer multipliers and divisors
                grid = [f for j, f in enumerate(grid) if j % 3 == 1 or (1 in f and max(f) in (3, 12, 1000))]
            for i, (n, d) in enumerate(grid):
                if not M.conversion_compiles(ct, n, d):
                    self.extra_cov["factors_outside_domain_by_model"] = self.extra_cov.get("factors_outside_domain_by_model", 0) + 1
                    continue
                u1, u2 = mag_unit(n), mag_unit(d)
                tag = "%s_%d" % (ct.replace("_t", "").replace(" ", ""), i)
                key = {"rep": ct, "N": n, "D": d}
                q = "make_quantity<%s>(x)" % u1
                names = {}
                for fam, fn in (("ovf", "will_conversion_overflow"), ("trunc", "will_conversion_truncate"),
                                ("lossy", "is_conversion_lossy")):
                    k = F.Kernel("c04_%s_%s" % (fam, tag), "bool", [(ct, "x")], "return %s(%s, %s{});" % (fn, q, u2),
                                 key=key, mode="ub", family=fam)
                    ks.append(k)
                    names[fam] = k.name
                self.inst.append((ct, n, d, names, tag))
        freps = F.FLOAT_REPS
        for ct in freps:
            sfx = ct.replace(" ", "")
            ff = FLOAT_FACTORS if (self.tier == "thorough" or ct != "long double") else FLOAT_FACTORS[:5]
            facs = [(mag_unit(n), mag_unit(d), "%d/%d" % (n, d)) for n, d in ff]
            facs += [(a, b, lab) for a, b, lab in PI_UNITS]
            for i, (u1, u2, lab) in enumerate(facs):
                tag = "%s_%d" % (sfx, i)
                key = {"rep": ct, "factor": lab}
                q = "make_quantity<%s>(x)" % u1
                names = {}
                for fam, body in (("fovf", "return will_conversion_overflow(%s, %s{});" % (q, u2)),
                                  ("ftrunc", "return will_conversion_truncate(%s, %s{});" % (q, u2)),
                                  ("flossy", "return is_conversion_lossy(%s, %s{});" % (q, u2)),
                                  ("fconv", "return %s.in(%s{});" % (q, u2))):
                    k = F.Kernel("c04_%s_%s" % (fam, tag), "bool" if fam != "fconv" else ct, [(ct, "x")], body,
                                 key=key, mode="ub", family=fam)
                    ks.append(k)
                    names[fam] = k.name
                self.finst.append((ct, lab, names, tag))
        return ks

    def obligations(self, K):
        obs = []
        for ct, n, d, names, tag in self.inst:
            if any(K[nm].kernel.dropped for nm in names.values()):
                ob = F.Ob("skip:" + tag, [], None, key={"rep": ct, "N": n, "D": d})
                ob.status = "skipped-domain"
                obs.append(ob)
                self.notes.append("checker kernels for %s x %d/%d do not compile: %s" % (
                    ct, n, d, [K[nm].kernel.dropped for nm in names.values() if K[nm].kernel.dropped][:1]))
                continue
            w = F.CTYPES[ct][1]
            lo, hi = F.ct_range(ct)
            plo, phi = F.ct_range(F.promoted(ct))
            key = {"rep": ct, "N": n, "D": d}

            def spec(x, ct=ct, n=n, d=d, lo=lo, hi=hi, plo=plo, phi=phi):
                prod = T.imul(F.ival(ct, x), T.const_int(n))
                ovf = T.or_(T.not_(T.in_range(prod, plo, phi)), T.ilt(T.const_int(hi * d), prod),
                            T.ilt(prod, T.const_int(lo * d)))
                tr = T.ne(T.imod(prod, T.const_int(d)), T.const_int(0))
                return ovf, tr

            def fn_ovf(K, x, names=names, spec=spec):
                e = K[names["ovf"]](x)
                ovf, tr = spec(x)
                return T.TRUE, T.and_(T.not_(e.ub), T.eq(e.ret, ovf))

            def fn_tr(K, x, names=names, spec=spec):
                e = K[names["trunc"]](x)
                ovf, tr = spec(x)
                return T.TRUE, T.and_(T.not_(e.ub), T.eq(e.ret, tr))

            def fn_lossy(K, x, names=names, spec=spec):
                e = K[names["lossy"]](x)
                ovf, tr = spec(x)
                return T.TRUE, T.and_(T.not_(e.ub), T.eq(e.ret, T.or_(ovf, tr)))
            xs = [("x", T.BV(w))]
            obs.append(F.Ob("ovf_iff:" + tag, xs, fn_ovf, key=key, kernels=[names["ovf"]],
                            note="will_conversion_overflow(x) <=> x*N outside range(Promoted) or x*N > max(T)*D or x*N < min(T)*D"))
            obs.append(F.Ob("trunc_iff:" + tag, xs, fn_tr, key=key, kernels=[names["trunc"]],
                            note="will_conversion_truncate(x) <=> D does not divide x*N"))
            obs.append(F.Ob("lossy_iff:" + tag, xs, fn_lossy, key=key, kernels=[names["lossy"]],
                            note="is_conversion_lossy(x) <=> truncates or overflows (exact predicates)"))
        # floating reps
        for ct, lab, names, tag in self.finst:
            if any(K[nm].kernel.dropped for nm in names.values()):
                ob = F.Ob("skip:" + tag, [], None, key={"rep": ct, "factor": lab})
                ob.status = "skipped-domain"
                obs.append(ob)
                continue
            fmt = F.FMT_OF[ct]
            wd = T.fmt_width(fmt)
            key = {"rep": ct, "factor": lab}
            maxbits = (((1 << fmt[0]) - 2) << (fmt[1] - 1)) | ((1 << (fmt[1] - 1)) - 1)
            near = maxbits - 2     # max - 2ulp (same binade)

            def fnA(K, x, names=names, fmt=fmt):
                y = K[names["fconv"]](x)
                o = K[names["fovf"]](x)
                pre = T.and_(T.fp_isfinite(fmt, x), T.fp_isinf(fmt, y.ret))
                return pre, T.and_(o.ret, T.not_(o.ub), T.not_(y.ub))

            def fnB(K, x, names=names, fmt=fmt, wd=wd, near=near):
                y = K[names["fconv"]](x)
                o = K[names["fovf"]](x)
                big = T.or_(T.fp_isinf(fmt, y.ret), T.fp_isnan(fmt, y.ret),
                            T.fp_cmp("oge", fmt, T.fp_abs(fmt, y.ret), T.const_bv(near, wd)))
                return T.and_(o.ret, T.not_(T.fp_isnan(fmt, x))), big

            def fnT(K, x, names=names):
                t = K[names["ftrunc"]](x)
                return T.TRUE, T.and_(T.not_(t.ret), T.not_(t.ub))
            xs = [("x", T.BV(wd))]
            kind = "claimed"
            to = None
            if ct == "long double":
                kind = "claimed" if self.tier == "thorough" else "stretch"
                to = 60
            obA = F.Ob("fA:" + tag, xs, fnA, kind=kind, routes=F.FP_ROUTES, key=key, timeout=to,
                       kernels=[names["fconv"], names["fovf"]],
                       note="finite x whose converted value is infinite => overflow reported")
            obA.aux = (names, fmt, maxbits)
            obs.append(obA)
            obs.append(F.Ob("fB:" + tag, xs, fnB, kind=kind, routes=F.FP_ROUTES, key=key, timeout=to,
                            kernels=[names["fconv"], names["fovf"]],
                            note="overflow reported => converted value infinite or within 2ulp of max"))
            obs.append(F.Ob("fT:" + tag, xs, fnT, routes=F.FP_ROUTES, key=key, kernels=[names["ftrunc"]],
                            note="floating reps never report truncation"))

            def fnL(K, x, names=names):
                l_, o_, t_ = K[names["flossy"]](x), K[names["fovf"]](x), K[names["ftrunc"]](x)
                return T.TRUE, T.and_(T.not_(l_.ub), T.eq(l_.ret, T.or_(o_.ret, t_.ret)))
            obs.append(F.Ob("fL:" + tag, xs, fnL, kind=kind, routes=F.FP_ROUTES, key=key, timeout=to, kernels=[names["flossy"], names["fovf"], names["ftrunc"]],
                            note="is_conversion_lossy is the disjunction of will_conversion_overflow and will_conversion_truncate, for every bit pattern"))
            # vacuity witness for (B): is overflow ever reported?
            def wB(K, x, names=names, fmt=fmt):
                o = K[names["fovf"]](x)
                return T.TRUE, T.and_(o.ret, T.fp_isfinite(fmt, x))
            ob = F.Ob("witness_fB:" + tag, xs, wB, kind="stretch", expect="sat", routes=F.FP_ROUTES, key=key,
                      kernels=[names["fovf"]], note="overflow is reportable at all (else (B) is vacuous: shrinking factor)")
            obs.append(ob)
        return obs

    def known_predicates(self):
        def d5(ob, vs):
            ct = ob.key.get("rep")
            if ct not in ("int8_t", "int16_t"):
                return None
            w = F.CTYPES[ct][1]
            if ob.key.get("D") != 1 << (w - 1):
                return None
            return T.eq(vs[0], T.const_bv(1 << (w - 1), w))
        def d7(ob, vs):
            aux = getattr(ob, "aux", None)
            if aux is None:
                return None
            names, fmt, maxbits = aux
            wd = T.fmt_width(fmt)
            one = T.const_bv(fpeval.from_fraction(fmt, Fraction(1)), wd)
            kk = self.K[names["fconv"]](one).ret      # 1 (*) K == K exactly
            if not T.is_const(kk):
                return None
            limit = T.fp_bin("div", fmt, T.const_bv(maxbits, wd), kk)
            return T.eq(T.fp_abs(fmt, vs[0]), limit)
        return {"D5": d5, "D7": d7}


CHECK = C04
