"""C03 - Checker-cleared integer conversions are exact and UB-free (DESIGN.md section 6, C03)."""
from .. import framework as F
from .. import terms as T
from .. import model as M


def mag_unit(n):
    return "decltype(Meters{} * mag<%dull>())" % n


class C03(F.Check):
    pid = "C03"
    level = "model_checking"
    assumptions = [
        "clang 14 front end and -O1 pipeline, own LLVM-IR->SMT encoder, z3 5.1 / cvc5 1.0.3 are trusted",
        "quantifier over conversion factors is an enumerated grid (DESIGN.md section 5), not symbolic",
        "factors for which the conversion itself does not compile are outside the property's domain and dropped (counted)",
        "sanitizer lowering: -fsanitize=undefined,unsigned-integer-overflow as trap blocks; any reachable trap block, "
        "violated nsw/nuw flag, division by zero or poison use counts as UB-or-wrap",
        "g++ is only used for native replay / translator validation, not in the solver loop",
    ]

    def bounds(self):
        return {"stored values": "all 2^w values per rep (no bound)", "reps": F.INT_REPS + F.TWIN_INT_REPS,
                "factors": "structured grid per rep, see DESIGN.md section 5", "unwind": 0, "inline_depth": 0}

    def kernels(self):
        ks = []
        self.inst = []
        units = {}

        def unit(n):
            return mag_unit(n)
        for ct in F.INT_REPS + F.TWIN_INT_REPS:
            grid = M.factor_grid(ct, self.tier, self.rng)
            if ct in F.TWIN_INT_REPS and self.tier == "quick":
                # long long / unsigned long long are distinct types from int64_t / uint64_t (long) with identical arithmetic: every third
                # factor plus the pure-integer multipliers (type-identity dispatch is what can differ)
                grid = [f for j, f in enumerate(grid) if j % 3 == 0 or (f[1] == 1 and f[0] in (3, 12, 1000))]
            for i, (n, d) in enumerate(grid):
                if not M.conversion_compiles(ct, n, d):
                    self.extra_cov["factors_outside_domain_by_model"] = self.extra_cov.get("factors_outside_domain_by_model", 0) + 1
                    continue
                u1, u2 = unit(n), unit(d)
                tag = "%s_%d" % (ct.replace("_t", "").replace(" ", ""), i)
                key = {"rep": ct, "N": n, "D": d}
                q = "make_quantity<%s>(x)" % u1
                names = {}
                for fam, body in (
                        ("conv", "return %s.coerce_in(%s{});" % (q, u2)),
                        ("conv_as", "return %s.coerce_as(%s{}).in(%s{});" % (q, u2, u2)),
                ):
                    k = F.Kernel("c03_%s_%s" % (fam, tag), ct, [(ct, "x")], body, key=key, mode="wrap", family=fam)
                    ks.append(k)
                    names[fam] = k.name
                if d == 1 and 2147 * n <= F.ct_range(ct)[1]:     # documented policy: only then do the unit-only forms compile
                    k = F.Kernel("c03_in_%s" % tag, ct, [(ct, "x")], "return %s.in(%s{});" % (q, u2), key=key, mode="wrap", family="in_unit_only")
                    ks.append(k)
                    names["in"] = k.name
                    k = F.Kernel("c03_as_%s" % tag, ct, [(ct, "x")], "return %s.as(%s{}).in(%s{});" % (q, u2, u2), key=key, mode="wrap",
                                 family="as_unit_only")
                    ks.append(k)
                    names["as"] = k.name
                k = F.Kernel("c03_lossy_%s" % tag, "bool", [(ct, "x")],
                             "return is_conversion_lossy(%s, %s{});" % (q, u2), key=key, mode="ub", family="lossy")
                ks.append(k)
                names["lossy"] = k.name
                self.inst.append((ct, n, d, names, tag))
        return ks

    def obligations(self, K):
        obs = []
        for ct, n, d, names, tag in self.inst:
            policy = {nm: names.pop(nm) for nm in ("in", "as") if nm in names}
            if any(K[nm].kernel.dropped for nm in names.values()):
                in_dom = M.conversion_compiles(ct, n, d)
                ob = F.Ob("skip:" + tag, [], None, key={"rep": ct, "N": n, "D": d, "model_in_domain": in_dom})
                ob.status = "skipped-domain"
                obs.append(ob)
                if in_dom:
                    self.notes.append("model says %s x %d/%d compiles but it was dropped: %s" % (
                        ct, n, d, [K[nm].kernel.dropped for nm in names.values() if K[nm].kernel.dropped][:1]))
                continue
            w = F.CTYPES[ct][1]
            key = {"rep": ct, "N": n, "D": d}

            def fn(K, x, ct=ct, n=n, d=d, names=names):
                lossy = K[names["lossy"]](x)
                conv = K[names["conv"]](x)
                conv_as = K[names["conv_as"]](x)
                pre = T.and_(T.not_(lossy.ret), T.not_(lossy.ub))
                exact = T.eq(T.imul(F.ival(ct, conv.ret), T.const_int(d)), T.imul(F.ival(ct, x), T.const_int(n)))
                post = T.and_(T.not_(conv.ub), exact, T.not_(conv_as.ub), T.eq(conv_as.ret, conv.ret))
                return pre, post
            obs.append(F.Ob("exact:" + tag, [("x", T.BV(w))], fn, key=key, kernels=list(names.values()),
                            note="not lossy(x) => conv(x)*D == x*N in Z, no trap (UB or unsigned wrap), coerce_as agrees"))

            def cfn(K, x, names=names):
                return T.TRUE, T.not_(K[names["lossy"]](x).ub)
            obs.append(F.Ob("checker_noub:" + tag, [("x", T.BV(w))], cfn, key=key, kernels=[names["lossy"]],
                            note="evaluating is_conversion_lossy itself executes no undefined behaviour for any x (otherwise 'lossy is false' "
                                 "means nothing); unsigned wrap-around inside the checker is not UB and is judged by the exactness obligation"))
            for pn, pk in policy.items():
                if K[pk].kernel.dropped:
                    self.extra_cov["unit_only_forms_refused_by_policy"] = self.extra_cov.get("unit_only_forms_refused_by_policy", 0) + 1
                    continue

                def pfn(K, x, pk=pk, names=names):
                    a, b = K[pk](x), K[names["conv"]](x)
                    return T.TRUE, T.and_(T.eq(a.ub, b.ub), T.or_(a.ub, T.eq(a.ret, b.ret)))
                obs.append(F.Ob("policy_form_%s:%s" % (pn, tag), [("x", T.BV(w))], pfn, key=key, kernels=[pk, names["conv"]],
                                note="where the policy permits the unit-only .%s(unit), it computes exactly what coerce_in computes (same value, same traps)" % pn))
            lo, hi = F.ct_range(ct)
            if n <= hi and d <= hi and n * d <= F.ct_range(F.promoted(ct))[1]:
                def wfn(K, x, ct=ct, names=names, w=w):
                    lossy = K[names["lossy"]](x)
                    return T.TRUE, T.and_(T.not_(lossy.ret), T.ne(x, T.const_bv(0, w)))
                obs.append(F.Ob("witness:" + tag, [("x", T.BV(w))], wfn, expect="sat", key=key,
                                kernels=[names["lossy"]], note="exists x != 0 that the checker clears"))
        return obs


CHECK = C03
