"""C19 - ZERO is the exact zero of every unit (DESIGN.md section 6, C19).

Translation validation against raw reference kernels (`x op R{0}`, `R{0} op x`, `x + R{0}` ...) lowered in the same TU, plus
value-level obligations (q + ZERO == q etc.) and closed facts (conversions of ZERO to arithmetic types / chrono durations).
"""
from .. import framework as F
from .. import terms as T
from .C13 import UNITS_QUICK, UNITS_THOROUGH, CMPS, rtag, ub_equiv_post

ARITH_TYPES = ["bool", "char", "int8_t", "uint8_t", "int16_t", "uint16_t", "int", "unsigned", "long", "unsigned long",
               "int32_t", "uint32_t", "int64_t", "uint64_t", "size_t", "intmax_t", "uintmax_t", "float", "double", "long double"]

# (tag, duration type, count() C type)
DURATIONS = [
    ("ns", "std::chrono::nanoseconds", "int64_t"),
    ("us", "std::chrono::microseconds", "int64_t"),
    ("ms", "std::chrono::milliseconds", "int64_t"),
    ("s", "std::chrono::seconds", "int64_t"),
    ("min", "std::chrono::minutes", "int64_t"),
    ("h", "std::chrono::hours", "int64_t"),
    ("ntsc_d", "std::chrono::duration<double, std::ratio<1001, 30000>>", "double"),
    ("day_i32", "std::chrono::duration<int32_t, std::ratio<86400>>", "int32_t"),
    ("u8_milli", "std::chrono::duration<uint8_t, std::milli>", "uint8_t"),
]


class C19(F.Check):
    pid = "C19"
    level = "translation_validation"
    chunk_size = 160
    validate_inputs = 10
    assumptions = [
        "clang 14 front end and -O1 pipeline, own LLVM-IR->SMT encoder, z3 5.1 / cvc5 are trusted; raw reference kernels "
        "(`x op R{0}`) are lowered by the same compiler in the same TU",
        "quantifier over stored values is solver-decided and complete (every bit pattern incl. NaN payloads, infinities, -0.0; "
        "x87 long double as (_ FloatingPoint 15 64), pseudo-denormals outside)",
        "SMT-LIB floating point has a single NaN: where a kernel and its reference are not structurally identical, results of "
        "floating-point arithmetic are compared bit-for-bit except that two NaN results count as equal",
        "quantifier over units is enumerated (library + generated compound units), reps: the 11 arithmetic reps; chrono "
        "durations: an enumerated list of Rep/Period pairs",
        "'q + ZERO == q' is read at value level: Au's own operator== on the results is true for every non-NaN q (for NaN it is "
        "false, as for raw floats); at bit level q + ZERO is the raw `x + R{0}`, which maps -0.0 to +0.0 and quiets signalling NaNs",
        "the rejection of ZERO where a QuantityPoint is required is only observed through std::is_constructible / "
        "std::is_convertible / an expression-SFINAE probe of operator==; other ill-formedness is outside",
        "g++ and -std=c++17 are outside (C20 covers the clang -std axis); the ZERO comparisons are additionally lowered at -std=c++20 for one unit per rep; g++ is only used for native replay / translator validation",
    ]

    def bounds(self):
        return {"stored values": "all bit patterns (no bound)", "reps": F.ALL_REPS + F.TWIN_INT_REPS, "units": [u for _, u in self.units()],
                "arithmetic target types": ARITH_TYPES, "chrono durations": [d for _, d, _ in DURATIONS] + ["duration<R> per rep"],
                "unwind": 0}

    def units(self):
        return UNITS_THOROUGH if self.tier == "thorough" else UNITS_QUICK

    def kernels(self):
        ks = []
        self.pairs = []     # (obname, au, raw, args, key, fp)
        self.values = []    # (obname, kernel, args, key, kind)  kind: 'zero' | 'true' | 'eq_self' | 'ident'
        self.raws = []      # (family, rep, raw kernel)
        self.closed = []    # (obname, kernel, expected, key)  expected True / False / ("zero", ct)
        self.prelude = "\n".join("using C19_%s = %s;" % (t, u) for t, u in self.units()) + "\n" + \
            "template <class A, class B, class = void> struct C19CanEq : std::false_type {}; " \
            "template <class A, class B> struct C19CanEq<A, B, decltype(void(std::declval<A>() == std::declval<B>()))> : std::true_type {};\n" \
            "template <class A, class B, class = void> struct C19CanLt : std::false_type {}; " \
            "template <class A, class B> struct C19CanLt<A, B, decltype(void(std::declval<A>() < std::declval<B>()))> : std::true_type {};\n"
        raw_seen = set()

        def add(k):
            ks.append(k)
            return k.name

        def pair(fam, ct, ut, ret, au_body, raw_body, std=None):
            args = [(ct, "x")]
            key = {"rep": ct, "unit": ut, "op": fam}
            if std:
                key["std"] = std
            au = add(F.Kernel("c19_%s_%s_%s" % (fam, rtag(ct), ut), ret, args, au_body, key=key, family=fam, std=std))
            rw = "c19_raw_%s_%s" % (fam, rtag(ct))
            if rw not in raw_seen:
                raw_seen.add(rw)
                add(F.Kernel(rw, ret, args, raw_body, key={"rep": ct, "op": fam}, family="raw_" + fam))
                self.raws.append((fam, ct, rw))
            nan_ct = ret if F.ct_is_float(ret) else None     # FP arithmetic result: see C13.ub_equiv_post
            self.pairs.append(("%s:%s_%s" % (fam, rtag(ct), ut), au, rw, args, key, F.ct_is_float(ct), nan_ct))

        def value(fam, ct, ut, ret, body, kind, nargs=1):
            key = {"rep": ct, "unit": ut, "op": fam}
            args = [(ct, "x")][:nargs]
            n = add(F.Kernel("c19_%s_%s_%s" % (fam, rtag(ct), ut), ret, args, body, key=key, family=fam))
            self.values.append(("%s:%s_%s" % (fam, rtag(ct), ut), n, args, key, kind))

        def closed(name, ret, body, expected, key):
            n = add(F.Kernel("c19_" + name, ret, [], body, key=key, family="closed_" + name.split("__")[0]))
            self.closed.append((name.replace("__", ":", 1), n, expected, key))

        for ct in F.ALL_REPS + F.TWIN_INT_REPS:
            P = F.promoted(ct)
            z = "static_cast<%s>(0)" % ct
            for ut, _ in self.units():
                if ct in F.TWIN_INT_REPS and ut != self.units()[0][0]:      # distinct types with int64_t/uint64_t arithmetic: one unit
                    continue
                U = "C19_" + ut
                Q = "Quantity<%s, %s>" % (U, ct)
                PT = "QuantityPoint<%s, %s>" % (U, ct)
                q = "make_quantity<%s>(x)" % U
                tag = "%s_%s" % (rtag(ct), ut)
                key = {"rep": ct, "unit": ut}
                # comparisons with ZERO on either side
                for cn, op in CMPS:
                    pair("q_%s_z" % cn, ct, ut, "bool", "return %s %s ZERO;" % (q, op), "return x %s %s;" % (op, z))
                    pair("z_%s_q" % cn, ct, ut, "bool", "return ZERO %s %s;" % (op, q), "return %s %s x;" % (z, op))
                    # the same comparisons compiled as C++20 (rewritten/synthesised comparison candidates, operator<=> if any) must still be
                    # the raw comparison with 0: one unit per rep, floating reps and two integral ones
                    if ut == self.units()[0][0] and (F.ct_is_float(ct) or ct in ("int32_t", "uint8_t") or self.tier == "thorough"):
                        pair("q_%s_z_cxx20" % cn, ct, ut, "bool", "return %s %s ZERO;" % (q, op), "return x %s %s;" % (op, z), std="c++20")
                        pair("z_%s_q_cxx20" % cn, ct, ut, "bool", "return ZERO %s %s;" % (op, q), "return %s %s x;" % (z, op), std="c++20")
                # additive identities, bit level: same as the raw expression with R{0}
                pair("q_plus_z", ct, ut, P, "return (%s + ZERO).in(%s{});" % (q, U), "return x + %s;" % z)
                pair("q_minus_z", ct, ut, P, "return (%s - ZERO).in(%s{});" % (q, U), "return x - %s;" % z)
                pair("z_plus_q", ct, ut, P, "return (ZERO + %s).in(%s{});" % (q, U), "return %s + x;" % z)
                pair("z_minus_q", ct, ut, P, "return (ZERO - %s).in(%s{});" % (q, U), "return %s - x;" % z)
                pair("q_pluseq_z", ct, ut, ct, "auto q = %s; q += ZERO; return q.in(%s{});" % (q, U), "%s r = x; r += %s; return r;" % (ct, z))
                pair("q_minuseq_z", ct, ut, ct, "auto q = %s; q -= ZERO; return q.in(%s{});" % (q, U), "%s r = x; r -= %s; return r;" % (ct, z))
                # value level: q + ZERO == q, q - ZERO == q, ZERO + q == q with Au's own comparison
                value("q_plus_z_eq_q", ct, ut, "bool", "return (%s + ZERO) == %s;" % (q, q), "eq_self")
                value("q_minus_z_eq_q", ct, ut, "bool", "return (%s - ZERO) == %s;" % (q, q), "eq_self")
                value("z_plus_q_eq_q", ct, ut, "bool", "return (ZERO + %s) == %s;" % (q, q), "eq_self")
                # ... and in the stored value itself
                value("q_plus_z_val", ct, ut, P, "return (%s + ZERO).in(%s{});" % (q, U), "ident")
                value("q_minus_z_val", ct, ut, P, "return (%s - ZERO).in(%s{});" % (q, U), "ident")
                value("z_plus_q_val", ct, ut, P, "return (ZERO + %s).in(%s{});" % (q, U), "ident")
                # initialisation / assignment from ZERO
                value("assign_z", ct, ut, ct, "auto q = %s; q = ZERO; return q.in(%s{});" % (q, U), "zero")
                value("assign_z_eq_z", ct, ut, "bool", "auto q = %s; q = ZERO; return q == ZERO && ZERO == q && !(q != ZERO) && !(q < ZERO) && !(q > ZERO) && q <= ZERO && q >= ZERO;" % q, "true")
                closed("ctor_z__" + tag, ct, "return %s(ZERO).in(%s{});" % (Q, U), ("zero", ct), key)
                closed("ctor_brace_z__" + tag, ct, "return %s{ZERO}.in(%s{});" % (Q, U), ("zero", ct), key)
                closed("copyinit_z__" + tag, ct, "%s q = ZERO; return q.in(%s{});" % (Q, U), ("zero", ct), key)
                closed("ctor_zero_type__" + tag, ct, "%s q = Zero{}; return q.in(%s{});" % (Q, U), ("zero", ct), key)
                closed("default_eq_z__" + tag, "bool", "return %s{} == ZERO;" % Q, True, key)
                closed("z_convertible_to_q__" + tag, "bool",
                       "return std::is_convertible<Zero, %s>::value && std::is_constructible<%s, Zero>::value && std::is_assignable<%s&, Zero>::value"
                       " && C19CanEq<%s, Zero>::value && C19CanEq<Zero, %s>::value && C19CanLt<%s, Zero>::value;" % (Q, Q, Q, Q, Q, Q), True, key)
                # the negative half as far as it is observable as a value
                closed("z_to_point_rejected__" + tag, "bool",
                       "return std::is_constructible<%s, Zero>::value || std::is_convertible<Zero, %s>::value || std::is_assignable<%s&, Zero>::value"
                       " || C19CanEq<%s, Zero>::value || C19CanEq<Zero, %s>::value || C19CanLt<%s, Zero>::value;" % (PT, PT, PT, PT, PT, PT), False, key)
            # ... and for point units that declare their own origin (Celsius, Fahrenheit, prefixed / scaled forms of them) and Kelvins
            for pu in ("Celsius", "Fahrenheit", "Milli<Celsius>", "Kelvins", "decltype(Celsius{} / mag<3>())"):
                PT2 = "QuantityPoint<%s, %s>" % (pu, ct)
                closed("z_to_point_rejected__%s_%s" % (rtag(ct), pu.replace("<", "_").replace(">", "").replace("{}", "").replace(" ", "").replace("/", "d").replace("(", "").replace(")", "")),
                       "bool",
                       "return std::is_constructible<%s, Zero>::value || std::is_convertible<Zero, %s>::value || std::is_assignable<%s&, Zero>::value"
                       " || C19CanEq<%s, Zero>::value || C19CanEq<Zero, %s>::value || C19CanLt<%s, Zero>::value;" % (PT2, PT2, PT2, PT2, PT2, PT2), False,
                       {"rep": ct, "point_unit": pu})
            # per rep: ZERO -> R, ZERO -> duration<R>
            keyr = {"rep": ct}
            closed("dur_rep_copyinit__" + rtag(ct), ct, "std::chrono::duration<%s> d = ZERO; return d.count();" % ct, ("zero", ct), keyr)
            closed("dur_rep_ctor__" + rtag(ct), ct, "return std::chrono::duration<%s, std::milli>(ZERO).count();" % ct, ("zero", ct), keyr)
        for t in ARITH_TYPES:
            keyt = {"type": t}
            tt = t.replace(" ", "_")
            closed("arith_copyinit__" + tt, t, "%s r = ZERO; return r;" % t, ("zero", t), keyt)
            closed("arith_cast__" + tt, t, "return static_cast<%s>(ZERO);" % t, ("zero", t), keyt)
            closed("arith_sum__" + tt, t, "%s r = ZERO + ZERO - ZERO; return r;" % t, ("zero", t), keyt)
            closed("arith_convertible__" + tt, "bool", "return std::is_convertible<Zero, %s>::value;" % t, True, keyt)
        for dt, dty, cty in DURATIONS:
            keyd = {"duration": dty}
            closed("dur_copyinit__" + dt, cty, "%s d = ZERO; return d.count();" % dty, ("zero", cty), keyd)
            closed("dur_ctor__" + dt, cty, "return %s(ZERO).count();" % dty, ("zero", cty), keyd)
            closed("dur_eq_zero__" + dt, "bool", "%s d = ZERO; return d == %s::zero();" % (dty, dty), True, keyd)
        # Zero with Zero
        closed("zz__cmp", "bool", "return (ZERO == ZERO) && (ZERO <= ZERO) && (ZERO >= ZERO) && !(ZERO != ZERO) && !(ZERO < ZERO) && !(ZERO > ZERO);", True, {})
        closed("zz__types", "bool", "return std::is_same<decltype(ZERO + ZERO), Zero>::value && std::is_same<decltype(ZERO - ZERO), Zero>::value"
               " && std::is_empty<Zero>::value && std::is_trivially_copyable<Zero>::value;", True, {})
        self.programs = len(self.pairs)
        return ks

    def obligations(self, K):
        obs = []
        unexpected = []

        def skip(obname, key, name):
            unexpected.append("%s: %s" % (name, (K[name].kernel.dropped or "")[:200]))
            ob = F.Ob("skip:" + obname, [], None, key=key)
            ob.status = "skipped-domain"
            obs.append(ob)
        for obname, au, rw, args, key, fp, nan_ct in self.pairs:
            if au not in K or rw not in K:
                continue
            if K[au].kernel.dropped or K[rw].kernel.dropped:
                skip(obname, key, au if K[au].kernel.dropped else rw)
                continue

            def fn(K, x, au=au, rw=rw, nan_ct=nan_ct):
                return T.TRUE, ub_equiv_post(K[au](x), K[rw](x), nan_ct)
            obs.append(F.Ob(obname, [("x", F.ct_sort(args[0][0]))], fn, routes=F.FP_ROUTES if fp else F.CMP_ROUTES, key=key,
                            kernels=[au, rw], note="expression with ZERO == same expression with R{0} on the bare rep: same trap condition, same result bits"))
        # the raw comparison references mean "x op 0" (exact integer / IEEE semantics), independent of any Au code
        icmp = {"eq": lambda a, b: T.eq(a, b), "ne": lambda a, b: T.ne(a, b), "lt": T.ilt, "le": T.ile, "gt": T.igt, "ge": T.ige}
        fcmp = {"eq": "oeq", "ne": "une", "lt": "olt", "le": "ole", "gt": "ogt", "ge": "oge"}
        for fam, ct, rw in self.raws:
            parts = fam.split("_")
            if rw not in K or K[rw].kernel.dropped or len(parts) != 3 or parts[1] not in icmp:
                continue
            cn = parts[1]
            zero_left = parts[0] == "z"

            def rfn(K, x, rw=rw, ct=ct, cn=cn, zero_left=zero_left):
                e = K[rw](x)
                if F.ct_is_float(ct):
                    fmt = F.FMT_OF[ct]
                    z = T.const_bv(0, T.fmt_width(fmt))
                    want = T.fp_cmp(fcmp[cn], fmt, z, x) if zero_left else T.fp_cmp(fcmp[cn], fmt, x, z)
                else:
                    X, Z = F.ival(ct, x), T.const_int(0)
                    want = icmp[cn](Z, X) if zero_left else icmp[cn](X, Z)
                return T.TRUE, T.and_(T.not_(e.ub), T.eq(e.ret, want))
            obs.append(F.Ob("ref_%s:%s" % (fam, rtag(ct)), [("x", F.ct_sort(ct))], rfn,
                            routes=F.FP_ROUTES if F.ct_is_float(ct) else F.CMP_ROUTES, key={"rep": ct, "op": fam}, kernels=[rw],
                            note="raw reference `x op R{0}` == mathematical / IEEE comparison of the stored value with 0"))
        for obname, name, args, key, kind in self.values:
            if name not in K:
                continue
            if K[name].kernel.dropped:
                skip(obname, key, name)
                continue
            ct = key["rep"]
            fp = F.ct_is_float(ct)
            w = F.CTYPES[ct][1]
            ret = K[name].kernel.ret

            def vfn(K, x, name=name, kind=kind, ct=ct, fp=fp, w=w, ret=ret):
                e = K[name](x)
                ok = T.not_(e.ub)
                if kind == "zero":
                    return T.TRUE, T.and_(ok, T.eq(e.ret, T.const_bv(0, w)))
                if kind == "true":
                    return T.TRUE, T.and_(ok, e.ret)
                if kind == "eq_self":
                    if fp:      # IEEE: NaN compares unequal to itself, exactly like the raw rep
                        return T.TRUE, T.and_(ok, T.eq(e.ret, T.not_(T.fp_isnan(F.FMT_OF[ct], x))))
                    return T.TRUE, T.and_(ok, e.ret)
                # ident: the stored value of q (+|-) ZERO is q's value
                if fp:
                    fmt = F.FMT_OF[ct]
                    same = T.or_(T.fp_cmp("oeq", fmt, e.ret, x), T.and_(T.fp_isnan(fmt, x), T.fp_isnan(fmt, e.ret)))
                    return T.TRUE, T.and_(ok, same)
                rw_ = F.CTYPES[ret][1]
                ext = T.sext(x, rw_) if F.ct_signed(ct) else T.zext(x, rw_)
                return T.TRUE, T.and_(ok, T.eq(e.ret, ext))
            obs.append(F.Ob(obname, [("x", F.ct_sort(ct))], vfn, routes=F.FP_ROUTES if fp else F.CMP_ROUTES, key=key, kernels=[name],
                            note={"zero": "assigning ZERO stores 0", "true": "a quantity assigned ZERO compares equal to ZERO in all six operators",
                                  "eq_self": "Au's == between q (+|-) ZERO and q is true (floats: iff q is not NaN)",
                                  "ident": "q (+|-) ZERO stores q's value (floats: IEEE-equal, NaN stays NaN; integers: promoted value)"}[kind]))
        for obname, name, expected, key in self.closed:
            if name not in K:
                continue
            if K[name].kernel.dropped:
                skip(obname, key, name)
                continue

            def cfn(K, name=name, expected=expected):
                e = K[name]()
                if expected is True:
                    return T.TRUE, T.and_(e.ret, T.not_(e.ub))
                if expected is False:
                    return T.TRUE, T.and_(T.not_(e.ret), T.not_(e.ub))
                so = F.ct_sort(expected[1])
                zero = T.FALSE if so == T.BOOL else T.const_bv(0, so[1])
                return T.TRUE, T.and_(T.eq(e.ret, zero), T.not_(e.ub))
            obs.append(F.Ob(obname, [], cfn, kind="closed", key=key, kernels=[name],
                            note="ZERO converts to the exact 0 / trait value observed as the kernel's constant result"))
        for u in unexpected[:10]:
            self.notes.append("unexpected drop: " + u)
        if unexpected:
            self.inconclusive.append("%d kernels that the module expects to compile were dropped, e.g. %s" % (len(unexpected), unexpected[0]))
        self.extra_cov["kernel_pairs_compared"] = len(self.pairs)
        return obs


CHECK = C19
