"""C02 - Unit algebra is exact and canonical (DESIGN.md section 6, C02)."""
from fractions import Fraction
from math import gcd
from .. import framework as F
from .. import terms as T
from .. import fpeval
from .. import unitmodel as U

INT64_MAX = (1 << 63) - 1
FMT = F.FMT_OF["double"]
ONE_D = fpeval.from_fraction(FMT, Fraction(1))
EXPS = [Fraction(x) for x in (-3, -2, -1, 2, 3)] + [Fraction(a, b) for a, b in ((1, 2), (-1, 2), (1, 3), (-1, 3), (2, 3), (-2, 3))]
SCALES = [2, 3, 5, 7, 10, 12, 60, 100, 127, 254, 1000, 1024, 3600, 5280, 25400, 1852, 980665, 45359237, 10 ** 9, 1 << 20,
          (1 << 31) - 1, (1 << 40) + 15]
PREFIXES = [p for p, _ in U.SI_PREFIXES + U.BIN_PREFIXES]
COMMON_PREFIXES = ["Kilo", "Milli", "Centi", "Micro", "Mega", "Kibi", "Mebi", "Deci", "Nano", "Giga"]


# ---------------------------------------------------------------- expression trees

class X:
    """unit expression: leaf (library unit) | prefix | prod | quot | pow | scale (rational) | pis (power of pi)"""

    def __init__(self, kind, kids=(), **a):
        self.kind = kind
        self.kids = tuple(kids)
        self.a = a
        k = self.kids
        if kind == "leaf":
            n = a["named"]
            self.unit = U.Unit(n.dim, n.mag, n.origin)
            self.sid = n.cxx
            self.depth = 0
        elif kind == "prefix":
            self.unit = U.prefixed(a["p"], k[0].unit)
            self.sid = "%s<%s>" % (a["p"], k[0].sid)
            self.depth = k[0].depth + 1
        elif kind == "prod":
            self.unit = k[0].unit * k[1].unit
            self.sid = "(%s*%s)" % (k[0].sid, k[1].sid)
            self.depth = max(k[0].depth, k[1].depth) + 1
        elif kind == "quot":
            self.unit = k[0].unit / k[1].unit
            self.sid = "(%s/%s)" % (k[0].sid, k[1].sid)
            self.depth = max(k[0].depth, k[1].depth) + 1
        elif kind == "pow":
            self.unit = k[0].unit.pow(a["e"])
            self.sid = "(%s^%s)" % (k[0].sid, a["e"])
            self.depth = k[0].depth + 1
        elif kind == "scale":
            q = a["q"]
            assert q > 0 and q != 1
            self.unit = k[0].unit.scaled(q)
            self.sid = "[%s %s]" % (q, k[0].sid)
            self.depth = k[0].depth + 1
        elif kind == "pis":
            self.unit = k[0].unit.scaled(U.PI.pow(a["k"]))
            self.sid = "[pi^%d %s]" % (a["k"], k[0].sid)
            self.depth = k[0].depth + 1
        elif kind == "one":          # scaled by a magnitude that is exactly 1 (written in one of several ways): the same unit
            self.unit = k[0].unit
            self.sid = "[1:%d %s]" % (a["form"], k[0].sid)
            self.depth = k[0].depth + 1
        else:
            raise ValueError(kind)

    def subterms(self):
        yield self
        for c in self.kids:
            for s in c.subterms():
                yield s

    def atoms(self):
        return [s for s in self.subterms() if s.kind in ("leaf", "prefix", "scale", "pis")]


def leaf(named):
    return X("leaf", named=named)


def prefix(p, e):
    return X("prefix", [e], p=p)


def prod(a, b):
    return X("prod", [a, b])


def quot(a, b):
    return X("quot", [a, b])


def power(a, e):
    e = Fraction(e)
    return a if e == 1 else X("pow", [a], e=e)


def scale(a, q):
    q = Fraction(q)
    return a if q == 1 else X("scale", [a], q=q)


def pis(a, k):
    return a if k == 0 else X("pis", [a], k=k)


ONE_FORMS = ["* mag<1>()", "/ mag<1>()", "* mag<7ull>() / mag<7ull>()", "* (mag<12ull>() / mag<12ull>())", "* pow<0>(mag<5ull>())",
             "/ mag<3ull>() * mag<3ull>()"]


def one(a, form):
    return X("one", [a], form=form % len(ONE_FORMS))


def collides(*exprs):
    """the property's exclusion: two distinct units of identical dimension, magnitude and origin meeting in one product.
    Conservative form: any two structurally different non-product subterms (library units, prefixed units, scaled units)
    anywhere in one expression with identical (dimension, magnitude, origin)."""
    for e in exprs:
        seen = {}
        for a in e.atoms():
            k = a.unit.key()
            if k in seen and seen[k] != a.sid:
                return True
            seen.setdefault(k, a.sid)
    return False


# ---------------------------------------------------------------- C++ spellings

def _mag_expr(q, rng):
    n, d = q.numerator, q.denominator
    N, D = "mag<%dull>()" % n, "mag<%dull>()" % d
    if d == 1:
        return ["* %s" % N]
    if n == 1:
        return ["/ %s" % D]
    return ["* %s / %s" % (N, D), "* (%s / %s)" % (N, D), "/ %s * %s" % (D, N)]


def _pow_forms(a, e, typed):
    """C++ value expressions for (a)^e where `a` is a value expression (unit instance, maker, symbol, constant)"""
    n, d = e.numerator, e.denominator
    out = []
    if d == 1:
        out.append("pow<%d>(%s)" % (n, a))
        if n == 2:
            out.append("au::squared(%s)" % a)
        if n == 3:
            out.append("au::cubed(%s)" % a)
        if n == -1:
            out.append("au::inverse(%s)" % a)
    elif n == 1:
        out.append("root<%d>(%s)" % (d, a))
        if d == 2:
            out.append("au::sqrt(%s)" % a)
        if d == 3:
            out.append("au::cbrt(%s)" % a)
    else:
        out.append("root<%d>(pow<%d>(%s))" % (d, n, a))
        out.append("pow<%d>(root<%d>(%s))" % (n, d, a))
    return out


def ty(e, rng):
    """type-level spelling (UnitProductT / UnitQuotientT / UnitPowerT / prefix templates / decltype of instance arithmetic)"""
    k = e.kind
    if k == "leaf":
        return e.a["named"].cxx
    a = ty(e.kids[0], rng)
    if k == "prefix":
        return "%s<%s>" % (e.a["p"], a)
    if k in ("prod", "quot"):
        b = ty(e.kids[1], rng)
        if k == "prod":
            return rng.choice(["UnitProductT<%s, %s>" % (a, b), "decltype(%s{} * %s{})" % (a, b)])
        return rng.choice(["UnitQuotientT<%s, %s>" % (a, b), "decltype(%s{} / %s{})" % (a, b),
                           "UnitProductT<%s, UnitInverseT<%s>>" % (a, b)])
    if k == "pow":
        ex = e.a["e"]
        n, d = ex.numerator, ex.denominator
        opts = ["UnitPowerT<%s, %d, %d>" % (a, n, d)]
        if d == 1:
            opts.append("UnitPowerT<%s, %d>" % (a, n))
        if ex == -1:
            opts.append("UnitInverseT<%s>" % a)
        opts += ["decltype(%s)" % f for f in _pow_forms("%s{}" % a, ex, True)]
        return rng.choice(opts)
    if k == "scale":
        return "decltype(%s{} %s)" % (a, rng.choice(_mag_expr(e.a["q"], rng)))
    if k == "pis":
        kk = e.a["k"]
        return "decltype(%s{} %s)" % (a, " ".join(["* Magnitude<Pi>{}" if kk > 0 else "/ Magnitude<Pi>{}"] * abs(kk)))
    if k == "one":
        return "decltype(%s{} %s)" % (a, ONE_FORMS[e.a["form"]])
    raise ValueError(k)


def val(e, w, rng):
    """value-level spelling in world w: 'maker' (quantity makers, with singular names where the grammar allows),
    'singular', 'symbol', 'constant'.  None when the expression cannot be written in that world."""
    k = e.kind
    if k == "leaf":
        n = e.a["named"]
        if w == "maker":
            return "au::" + n.maker
        if w == "singular":
            return ("au::" + n.singular) if n.singular else None
        if w == "symbol":
            return ("au::symbols::" + n.symbol) if n.symbol else None
        if w == "constant":
            inner = rng.choice(["au::" + n.maker, n.cxx + "{}"] + (["au::symbols::" + n.symbol] if n.symbol else []))
            return "make_constant(%s)" % inner
    if w == "constant" and (k == "prefix" or rng.random() < 0.25):
        inner = val(e, rng.choice(["maker", "symbol"]), rng) or (ty(e, rng) + "{}")
        return "make_constant(%s)" % inner
    a = val(e.kids[0], w, rng)
    if k == "prefix":
        return None if a is None else "au::%s(%s)" % (e.a["p"].lower(), a)
    if k in ("prod", "quot"):
        b = val(e.kids[1], w, rng)
        op = "*" if k == "prod" else "/"
        if w == "singular":
            return "(%s * %s)" % (a, b) if (k == "prod" and a and b) else None
        if w == "maker":
            if k == "prod" and rng.random() < 0.4:
                sa = val(e.kids[0], "singular", rng)
                if sa and b:
                    return "(%s * %s)" % (sa, b)
            if k == "quot" and rng.random() < 0.5:
                sb = val(e.kids[1], "singular", rng)
                if sb and a:
                    return "(%s / %s)" % (a, sb)
        return "(%s %s %s)" % (a, op, b) if (a and b) else None
    if a is None:
        return None
    if k == "pow":
        ex = e.a["e"]
        if w == "singular":
            return "pow<%d>(%s)" % (ex.numerator, a) if ex.denominator == 1 else None
        return rng.choice(_pow_forms(a, ex, False))
    if w == "singular":
        return None
    if k == "scale":
        return "(%s %s)" % (a, rng.choice(_mag_expr(e.a["q"], rng)))
    if k == "pis":
        kk = e.a["k"]
        return "(%s %s)" % (a, " ".join(["* Magnitude<Pi>{}" if kk > 0 else "/ Magnitude<Pi>{}"] * abs(kk)))
    if k == "one":
        return "(%s %s)" % (a, ONE_FORMS[e.a["form"]])
    raise ValueError(k)


SRC_WORLDS = ["type", "type", "maker", "maker", "symbol", "constant"]
DST_WORLDS = ["type", "type", "maker", "symbol", "constant", "singular"]


def source(e, rng, world=None):
    """C++ expression of a quantity of unit e holding x; returns (expr, world used)"""
    w = world or rng.choice(SRC_WORLDS)
    if w != "type":
        v = val(e, w, rng)
        if v is not None:
            return ("(%s)(x)" % v if w == "maker" else "(x * %s)" % v), w
    return "make_quantity<%s>(x)" % ty(e, rng), "type"


def slot(e, rng, world=None):
    """C++ expression usable in a unit slot; returns (expr, world used)"""
    w = world or rng.choice(DST_WORLDS)
    if w != "type":
        v = val(e, w, rng)
        if v is not None:
            return v, w
    return ty(e, rng) + "{}", "type"


# ---------------------------------------------------------------- generators

def _by_dim():
    d = {}
    for n in U.LIBRARY:
        d.setdefault(n.dim, []).append(n)
    return d


BY_DIM = _by_dim()
BASE_OF_DIM = ["Meters", "Grams", "Seconds", "Amperes", "Kelvins", "Radians", "Bits", "Moles", "Candelas"]
LEAF_WEIGHT = {"Meters": 6, "Seconds": 6, "Grams": 4, "Feet": 4, "Inches": 3, "Miles": 3, "Hours": 3, "Minutes": 3, "Newtons": 3,
               "Joules": 2, "Watts": 2, "Radians": 2, "Degrees": 3, "Bytes": 2, "Bits": 2, "Liters": 2, "Kelvins": 2, "Amperes": 2,
               "Volts": 2, "Pascals": 2, "PoundsMass": 2, "PoundsForce": 2, "Hertz": 2, "Percent": 2, "Unos": 1}


class Gen:
    def __init__(self, rng):
        self.rng = rng
        self.leaves = []
        for n in U.LIBRARY:
            self.leaves += [n] * LEAF_WEIGHT.get(n.cxx, 1)

    def any_prefix(self):
        return self.rng.choice(COMMON_PREFIXES if self.rng.random() < 0.6 else PREFIXES)

    def any_scale(self):
        r = self.rng
        n = r.choice(SCALES)
        d = r.choice(SCALES) if r.random() < 0.5 else 1
        if r.random() < 0.3:
            n, d = d, n
        q = Fraction(n, d)
        return q if q != 1 else Fraction(3, 7)

    def atom(self):
        e = leaf(self.rng.choice(self.leaves))
        if self.rng.random() < 0.25:
            e = prefix(self.any_prefix(), e)
        return e

    def expr(self, d):
        r = self.rng
        if d <= 0 or r.random() < 0.12:
            return self.atom() if d > 0 else leaf(r.choice(self.leaves))
        op = r.choices(["prod", "quot", "pow", "prefix", "scale", "pis", "one"], [30, 25, 20, 10, 12, 3, 4])[0]
        if op in ("prod", "quot"):
            a = self.expr(d - 1)
            b = self.expr(r.choice([d - 1, d - 2, 0]))
            if r.random() < 0.5:
                a, b = b, a
            return prod(a, b) if op == "prod" else quot(a, b)
        c = self.expr(d - 1)
        if op == "pow":
            return power(c, r.choice(EXPS))
        if op == "prefix":
            return prefix(self.any_prefix(), c)
        if op == "scale":
            return scale(c, self.any_scale())
        if op == "one":
            return one(c, r.randrange(len(ONE_FORMS)))
        return pis(c, r.choice([1, -1]))

    # ---- partner with the same atoms, different order / grouping (must be the identical type)
    def rearrangement(self):
        r = self.rng
        for _ in range(50):
            n = r.choice([1, 2, 2, 3, 3, 4])
            atoms = []
            for _ in range(n):
                a = self.atom()
                if all(a.sid != b.sid for b in atoms):
                    atoms.append(a)
            items = [(a, r.choice(EXPS + [Fraction(1)] * 6)) for a in atoms]
            e1 = self.build(items, 3)
            e2 = self.build(items, 3)
            if e1 is None or e2 is None or e1.sid == e2.sid:
                continue
            return e1, e2
        return None

    @staticmethod
    def need(items):
        n = len(items)
        lg = 0
        while (1 << lg) < n:
            lg += 1
        return lg + (1 if any(e != 1 for _, e in items) else 0)

    def build(self, items, d):
        r = self.rng
        items = [(a, e) for a, e in items if e != 0]
        if not items:
            return None
        if self.need(items) > d:
            return None
        if len(items) == 1:
            a, e = items[0]
            if d >= 2 and r.random() < 0.3:
                if r.random() < 0.5:
                    e1 = r.choice(EXPS + [Fraction(1)])
                    e2 = e - e1
                    if e2 != 0:
                        x, y = self.build([(a, e1)], d - 1), self.build([(a, e2)], d - 1)
                        if x and y:
                            return prod(x, y)
                else:
                    e1 = r.choice([Fraction(2), Fraction(3), Fraction(-1), Fraction(1, 2), Fraction(1, 3)])
                    x = self.build([(a, e / e1)], d - 1)
                    if x and e1 != 1:
                        return power(x, e1)
            return power(a, e)
        for _ in range(20):
            c = r.random()
            if c < 0.15 and d >= 2:
                kf = r.choice([Fraction(2), Fraction(3), Fraction(-1), Fraction(1, 2), Fraction(-2)])
                x = self.build([(a, e / kf) for a, e in items], d - 1)
                if x:
                    return power(x, kf)
                continue
            its = list(items)
            r.shuffle(its)
            cut = r.randrange(1, len(its))
            g1, g2 = its[:cut], its[cut:]
            if c < 0.3 and d >= 3:
                # a factor that cancels between the two halves
                z = self.atom()
                if all(z.sid != a.sid for a, _ in items):
                    ez = r.choice(EXPS + [Fraction(1)])
                    g1, g2 = g1 + [(z, ez)], g2 + [(z, -ez)]
            if r.random() < 0.5:
                x, y = self.build(g1, d - 1), self.build(g2, d - 1)
                if x and y:
                    return prod(x, y)
            else:
                x, y = self.build(g1, d - 1), self.build([(a, -e) for a, e in g2], d - 1)
                if x and y:
                    return quot(x, y)
        return None

    # ---- partner written over the base units with the exact scale factor (quantity-equivalent by construction of the model)
    def base_expansion(self, e):
        u = e.unit
        terms = []
        p = U.Unit(U.NODIM, U.ONE)
        for i, ex in enumerate(u.dim):
            if ex != 0:
                b = U.BY_NAME[BASE_OF_DIM[i]]
                terms.append(power(leaf(b), ex))
                p = p * U.Unit(b.dim, b.mag).pow(ex)
        m = u.mag / p.mag
        rat = U.Mag(m.primes, 0)
        if not rat.is_rational() or m.pi.denominator != 1 or abs(m.pi) > 2:
            return None
        q = rat.as_fraction()
        if q.numerator > INT64_MAX or q.denominator > INT64_MAX:
            return None
        self.rng.shuffle(terms)
        while len(terms) > 1:
            nxt = []
            for i in range(0, len(terms) - 1, 2):
                nxt.append(prod(terms[i], terms[i + 1]))
            if len(terms) % 2:
                nxt.append(terms[-1])
            terms = nxt
        t = terms[0] if terms else leaf(U.BY_NAME["Unos"])
        if self.rng.random() < 0.5:
            return pis(scale(t, q), int(m.pi))
        return scale(pis(t, int(m.pi)), q)

    # ---- partner with leaves swapped for other units of the same dimension, prefixes and scale factors added
    def substitution(self, e):
        r = self.rng
        k = e.kind
        if k == "leaf":
            n = e.a["named"]
            out = e
            alts = [x for x in BY_DIM[n.dim] if x is not n]
            if alts and r.random() < 0.6:
                out = leaf(r.choice(alts))
            if r.random() < 0.2:
                out = prefix(self.any_prefix(), out)
            return out
        kids = [self.substitution(c) for c in e.kids]
        if k == "prefix":
            return prefix(self.any_prefix() if r.random() < 0.5 else e.a["p"], kids[0])
        if k == "prod":
            if r.random() < 0.5:
                kids.reverse()
            return prod(*kids)
        if k == "quot":
            if r.random() < 0.3:
                return prod(power(kids[1], -1), kids[0])
            return quot(*kids)
        if k == "pow":
            return power(kids[0], e.a["e"])
        if k == "scale":
            return scale(kids[0], e.a["q"]) if r.random() < 0.6 else kids[0]
        if k == "one":
            return kids[0] if r.random() < 0.5 else one(kids[0], r.randrange(len(ONE_FORMS)))
        return pis(kids[0], e.a["k"])

    # ---- partner built from the dimension vector alone
    def from_dimension(self, e):
        r = self.rng
        terms = []
        for i, ex in enumerate(e.unit.dim):
            if ex != 0:
                pure = [n for n in U.LIBRARY if sum(1 for x in n.dim if x != 0) == 1 and n.dim[i] == 1]
                terms.append(power(leaf(r.choice(pure)), ex))
        if not terms or len(terms) > 4:
            return None
        r.shuffle(terms)
        while len(terms) > 1:
            nxt = []
            for i in range(0, len(terms) - 1, 2):
                nxt.append(prod(terms[i], terms[i + 1]))
            if len(terms) % 2:
                nxt.append(terms[-1])
            terms = nxt
        return terms[0]


def ratio_class(m):
    """(kind, N, D): kind in 'one' | 'rational' | 'irrational'"""
    if m.is_one():
        return "one", 1, 1
    if m.is_rational():
        q = m.as_fraction()
        return "rational", q.numerator, q.denominator
    return "irrational", None, None


def within_ulps(kbits, m, ulps=4):
    """is the double with bit pattern kbits within `ulps` ulp of the exact magnitude m (rational or enclosure)?"""
    kf = fpeval.to_fraction(FMT, kbits)
    if kf is None or kf <= 0:
        return False
    lo, hi = m.approx()
    return lo - ulps * U.ulp_double(lo) <= kf <= hi + ulps * U.ulp_double(hi)


DIM_PRELUDE = """
// read the exponent of one base dimension out of the Dimension<...> pack of a unit (sums over every entry with that base, so a pack
// in which two base dimensions were merged or duplicated shows up as a wrong exponent)
template <class B, class... BPs> struct AuvExpSum { using type = std::ratio<0>; };
template <class B, class H, class... Ts> struct AuvExpSum<B, H, Ts...> {
    using rest = typename AuvExpSum<B, Ts...>::type;
    using type = std::conditional_t<std::is_same<au::BaseT<H>, B>::value, std::ratio_add<au::ExpT<H>, rest>, rest>;
};
template <class B, class D> struct AuvExpOf;
template <class B, class... BPs> struct AuvExpOf<B, au::Dimension<BPs...>> : AuvExpSum<B, BPs...> {};
template <class D> struct AuvPackSize;
template <class... BPs> struct AuvPackSize<au::Dimension<BPs...>> { static constexpr int value = sizeof...(BPs); };
template <class U, bool Den> constexpr uint64_t auv_dim_pack() {
    using D = au::detail::DimT<U>;
    return (uint64_t)((Den ? AuvExpOf<au::base_dim::Length, D>::type::den : AuvExpOf<au::base_dim::Length, D>::type::num) + 64)
        | (uint64_t)((Den ? AuvExpOf<au::base_dim::Mass, D>::type::den : AuvExpOf<au::base_dim::Mass, D>::type::num) + 64) << 7
        | (uint64_t)((Den ? AuvExpOf<au::base_dim::Time, D>::type::den : AuvExpOf<au::base_dim::Time, D>::type::num) + 64) << 14
        | (uint64_t)((Den ? AuvExpOf<au::base_dim::Current, D>::type::den : AuvExpOf<au::base_dim::Current, D>::type::num) + 64) << 21
        | (uint64_t)((Den ? AuvExpOf<au::base_dim::Temperature, D>::type::den : AuvExpOf<au::base_dim::Temperature, D>::type::num) + 64) << 28
        | (uint64_t)((Den ? AuvExpOf<au::base_dim::Angle, D>::type::den : AuvExpOf<au::base_dim::Angle, D>::type::num) + 64) << 35
        | (uint64_t)((Den ? AuvExpOf<au::base_dim::Information, D>::type::den : AuvExpOf<au::base_dim::Information, D>::type::num) + 64) << 42
        | (uint64_t)((Den ? AuvExpOf<au::base_dim::AmountOfSubstance, D>::type::den : AuvExpOf<au::base_dim::AmountOfSubstance, D>::type::num) + 64) << 49
        | (uint64_t)((Den ? AuvExpOf<au::base_dim::LuminousIntensity, D>::type::den : AuvExpOf<au::base_dim::LuminousIntensity, D>::type::num) + 64) << 56;
}
"""


def dim_pack(dim, den):
    """the model's counterpart of auv_dim_pack: 9 x 7 bits, value + 64"""
    v = 0
    for i, q in enumerate(dim):
        x = (q.denominator if den else q.numerator) + 64
        assert 0 <= x < 128
        v |= x << (7 * i)
    return v


class C02(F.Check):
    pid = "C02"
    level = "model_checking"
    chunk_size = 60
    assumptions = [
        "clang 14 front end and -O1 pipeline, own LLVM-IR->SMT encoder, z3 5.1 / cvc5 1.0.3 are trusted",
        "oracle: auverif/unitmodel.py, an exact model of the 57 library units and 32 prefixes written from the SI/NIST definitions "
        "(dimension vector with rational exponents, magnitude as rational prime exponents plus a rational power of pi); pi is a 64-digit "
        "rational enclosure",
        "expression pairs (E1, E2) are enumerated (VERIF_SEED-random trees over library units with products, quotients, powers/roots with exponents "
        "in {-3..3, +-1/2, +-1/3, +-2/3}, rational and pi scale factors, all 32 prefixes; operator depth <= 3, base-unit expansions used as "
        "equivalence partners up to depth 5), each spelled at random through unit types (UnitProductT / UnitQuotientT / UnitPowerT / decltype of "
        "instance arithmetic), quantity makers with singular names, unit symbols, or make_constant; the quantifier over stored values is "
        "solver-decided per pair (all 2^64 int64 values, every double bit pattern)",
        "int64 kernels use the MODEL's N/D (lowest terms, N*D < 2^63): no UB and D | x*N => result*D == x*N; x*N representable => no UB; "
        "a non-zero witness exists. Truncation for D not dividing x*N is C03/C04's subject, not claimed here",
        "double kernels: the kernel is exactly one IEEE multiply or divide by a constant read off the kernel itself, and its value at 1.0 is within "
        "4 ulp of the model's exact ratio (Au evaluates magnitudes in long double and narrows); pairs with |log10 ratio| > 250 are not generated",
        "model ratio exactly 1 <=> are_units_quantity_equivalent, and then both kernels are the identity bit-for-bit (NaN payloads, -0 included)",
        "canonical type identity (std::is_same of differently ordered / grouped / spelled products and powers of the same named units), "
        "has_same_dimension, are_units_quantity_equivalent, is_integer / is_rational of unit_ratio are compile-time facts observed as closed "
        "booleans, not solver-decided",
        "excluded, as the property states: expressions in which two distinct units of identical dimension, magnitude and origin occur "
        "(e.g. Hertz and Becquerel, Kilo<Pascals> and Centi<Bars>); applied conservatively to every pair of structurally different "
        "library / prefixed / scaled sub-units of one expression",
        "g++ and the C++17/20 configurations are C20's subject",
    ]

    def bounds(self):
        return {"stored values": "all 2^64 int64 values / all 2^64 double bit patterns per kernel", "pairs": len(getattr(self, "pairs", [])),
                "operator depth": "<= 3 (base-unit expansions <= 5)", "exponents": [str(e) for e in EXPS],
                "prefixes": len(PREFIXES), "units": len(U.LIBRARY)}

    # ---- pair generation
    def gen_pairs(self):
        rng = self.rng
        g = Gen(rng)
        n = 150 if self.tier == "quick" else 1500
        L = lambda s: leaf(U.BY_NAME[s])   # noqa
        fixed = [
            ("fixed", L("Feet"), L("Meters")),
            ("fixed", L("Degrees"), L("Radians")),
            ("fixed", L("Newtons"), quot(prod(prefix("Kilo", L("Grams")), L("Meters")), power(L("Seconds"), 2))),
            ("fixed", L("PoundsForce"), L("Newtons")),
            ("fixed", L("USGallons"), L("Liters")),
            ("fixed", prefix("Mebi", L("Bytes")), L("Bits")),
            ("fixed", L("Slugs"), prefix("Kilo", L("Grams"))),
            ("fixed", L("Bars"), prefix("Hecto", prefix("Kilo", L("Pascals")))),
            ("fixed", quot(L("Miles"), L("Hours")), quot(L("Meters"), L("Seconds"))),
            ("fixed", L("Knots"), quot(L("NauticalMiles"), L("Hours"))),
            ("fixed", power(L("Meters"), Fraction(1, 2)), power(L("Feet"), Fraction(1, 2))),
            ("fixed", L("Revolutions"), L("Arcseconds")),
            ("fixed", L("Percent"), quot(L("Meters"), prefix("Kilo", L("Meters")))),
            ("fixed", L("Liters"), power(prefix("Deci", L("Meters")), 3)),
            ("fixed", L("Hertz"), power(L("Seconds"), -1)),
            ("fixed", L("Steradians"), power(L("Degrees"), 2)),
            ("fixed", L("Webers"), prod(L("Tesla"), power(L("Meters"), 2))),
            ("fixed", prefix("Milli", L("Meters")), prefix("Mebi", L("Meters"))),
            ("fixed", L("Days"), prefix("Nano", L("Seconds"))),
            ("fixed", L("Lux"), quot(prod(L("Candelas"), L("Steradians")), power(L("Meters"), 2))),
            # scaling by a magnitude that is exactly 1 leaves any unit - named, prefixed, already scaled, compound - unchanged
            ("fixed", one(scale(L("Feet"), 3), 0), L("Feet")),
            ("fixed", one(scale(quot(L("Meters"), L("Seconds")), 1000), 2), quot(L("Meters"), L("Seconds"))),
            ("fixed", one(scale(L("Inches"), Fraction(1, 7)), 4), scale(L("Inches"), Fraction(1, 7))),
            ("fixed", one(one(scale(L("Grams"), Fraction(5, 3)), 1), 5), L("Grams")),
            ("fixed", one(prefix("Kilo", L("Meters")), 3), L("Meters")),
            ("fixed", scale(one(scale(L("Seconds"), 60), 0), 60), L("Hours")),
            # the same base in both operands with rational exponents that do not cancel (x^2 * x^(-1/2) = x^(3/2), x^3 * x^(-1/3) = x^(8/3), ...)
            ("fixed", prod(power(L("Meters"), 2), power(L("Meters"), Fraction(-1, 2))), power(L("Meters"), Fraction(3, 2))),
            ("fixed", quot(power(L("Feet"), 3), power(L("Feet"), Fraction(1, 3))), power(L("Feet"), Fraction(8, 3))),
            ("fixed", prod(power(L("Seconds"), Fraction(1, 2)), power(L("Seconds"), -2)), power(L("Seconds"), Fraction(-3, 2))),
            ("fixed", prod(power(scale(L("Meters"), 4), Fraction(3, 2)), power(scale(L("Meters"), 4), Fraction(-2, 3))), power(scale(L("Meters"), 4), Fraction(5, 6))),
            ("fixed", quot(power(L("Grams"), 6), power(L("Grams"), Fraction(3, 2))), power(L("Grams"), Fraction(9, 2))),
            # a composite scale factor written in one step vs through its prime factors (pseudoprimes: a primality slip would make
            # mag<N>() a different - non-canonical - type with the same value)
            ("fixed", scale(L("Meters"), 1373653), scale(scale(L("Meters"), 829), 1657)),
            ("fixed", scale(L("Seconds"), 2047), scale(scale(L("Seconds"), 23), 89)),
            ("fixed", scale(L("Grams"), Fraction(1, 3215031751)), scale(scale(scale(L("Grams"), Fraction(1, 151)), Fraction(1, 751)), Fraction(1, 28351))),
            ("fixed", scale(L("Feet"), Fraction(561, 25326001)), scale(scale(L("Feet"), Fraction(3 * 11, 2251)), Fraction(17, 11251))),
        ]
        pairs = list(fixed)
        stats = {"excluded_identical_units": 0, "ratio_out_of_double_range": 0, "no_partner": 0}
        modes = ["rearr"] * 18 + ["base"] * 10 + ["subst"] * 38 + ["indep"] * 26 + ["mismatch"] * 8
        tries = 0
        seen = set()
        while len(pairs) < n and tries < 40 * n:
            tries += 1
            mode = rng.choice(modes)
            if mode == "rearr":
                p = g.rearrangement()
                if p is None:
                    stats["no_partner"] += 1
                    continue
                e1, e2 = p
            else:
                e1 = g.expr(rng.choice([1, 2, 2, 3, 3]) if mode != "base" else rng.choice([1, 2, 2]))
                if mode == "base":
                    e2 = g.base_expansion(e1)
                elif mode == "subst":
                    e2 = g.substitution(e1)
                elif mode == "indep":
                    e2 = g.from_dimension(e1)
                else:
                    e2 = g.expr(rng.choice([1, 2]))
                    if e2.unit.dim == e1.unit.dim:
                        continue
                if e2 is None or e2.sid == e1.sid:
                    stats["no_partner"] += 1
                    continue
                if rng.random() < 0.5:
                    e1, e2 = e2, e1
            if (e1.sid, e2.sid) in seen:
                continue
            if collides(e1, e2):
                stats["excluded_identical_units"] += 1
                continue
            if max(abs(e.unit.mag.log10_approx()) for e in (e1, e2)) > 600:
                stats["ratio_out_of_double_range"] += 1
                continue
            if e1.unit.dim == e2.unit.dim and abs(U.ratio(e1.unit, e2.unit).log10_approx()) > 250:
                stats["ratio_out_of_double_range"] += 1
                continue
            if any(abs(x.numerator) > 12 or x.denominator > 12 for e in (e1, e2) for s in e.subterms() for x in s.unit.dim):
                continue
            seen.add((e1.sid, e2.sid))
            pairs.append((mode, e1, e2))
        self.extra_cov["pair_generation"] = stats
        return pairs

    def spelling_kernels(self):
        """closed sweep: every spelling of every library unit (maker, singular name, symbol, singular * unit products) denotes the
        unit the type denotes - independent of the seeded random expressions"""
        ks = []
        self.spell = []
        for n in U.LIBRARY:
            if not isinstance(n, U.Named):
                continue
            forms = [("maker", "au::" + n.maker if n.maker else None), ("singular", "au::" + n.singular if n.singular else None),
                     ("symbol", "au::symbols::" + n.symbol if n.symbol else None)]
            for w, expr in forms:
                if not expr:
                    continue
                tag = "%s_%s" % (w, n.cxx.replace("<", "_").replace(">", "_").replace("::", "_"))
                k = F.Kernel("c02_spell_%s" % tag, "bool", [],
                             "return are_units_quantity_equivalent(associated_unit(%s), %s{}) && (unit_ratio(%s, %s{}) == mag<1>());" % (expr, n.cxx, expr, n.cxx),
                             key={"unit": n.cxx, "spelling": w, "expr": expr}, family="spelling_" + w, native=False)
                ks.append(k)
                self.spell.append(k)
                if w in ("singular", "symbol") and n.cxx != "Meters":
                    k2 = F.Kernel("c02_spellprod_%s" % tag, "bool", [],
                                  "return unit_ratio(%s * au::symbols::m, %s{} * Meters{}) == mag<1>();" % (expr, n.cxx)
                                  if w == "symbol" else
                                  "return unit_ratio(au::meters / %s, Meters{} / %s{}) == mag<1>();" % (expr, n.cxx),
                                  key={"unit": n.cxx, "spelling": w + " in a compound", "expr": expr}, family="spelling_compound", native=False)
                    ks.append(k2)
                    self.spell.append(k2)
        return ks

    def dimension_kernels(self):
        """closed: the dimension EXPONENTS of products / quotients of every pair of library units (one representative per distinct
        dimension in quick, every pair in thorough) read out of the Dimension<...> pack equal the model's exponent vector"""
        ks = []
        self.dimfacts = []
        named = [n for n in U.LIBRARY if isinstance(n, U.Named)]
        if self.tier == "quick":
            seen = {}
            for n in named:
                seen.setdefault(n.dim, n)
            named = list(seen.values())
        idx = 0
        for i, a in enumerate(named):
            for b in named[i:]:
                if a is not b and a.dim == b.dim and a.mag == b.mag:
                    continue        # documented exclusion: two distinct units of identical dimension and magnitude (Hertz, Becquerel) in one expression
                for op, mu, cx in (("*", a * b, "UnitProductT<%s, %s>" % (a.cxx, b.cxx)), ("/", a / b, "UnitQuotientT<%s, %s>" % (a.cxx, b.cxx))):
                    if op == "/" and a is b:
                        continue
                    if self.tier == "quick" and op == "/" and (idx % 3):
                        idx += 1
                        continue
                    k = F.Kernel("c02_dimpair_%d" % idx, "uint64_t", [], "return auv_dim_pack<%s, false>();" % cx,
                                 key={"expr": "%s %s %s" % (a.cxx, op, b.cxx)}, family="dimension_exponents", native=False)
                    idx += 1
                    ks.append(k)
                    self.dimfacts.append((k, dim_pack(mu.dim, False)))
        return ks

    def kernels(self):
        rng = self.rng
        self.prelude = DIM_PRELUDE
        ks = self.spelling_kernels() + self.dimension_kernels()
        self.pairs = self.gen_pairs()
        self.inst = []
        modes = {}
        for pi, (mode, e1, e2) in enumerate(self.pairs):
            modes[mode] = modes.get(mode, 0) + 1
            same_dim = e1.unit.dim == e2.unit.dim
            rec = {"i": pi, "mode": mode, "e1": e1, "e2": e2, "same_dim": same_dim, "names": {}}
            key = {"pair": pi, "mode": mode, "E1": e1.sid, "E2": e2.sid}

            def add(fam, ret, args, body, extra=None):
                k = F.Kernel("c02_%s_%d" % (fam, pi), ret, args, body, key=dict(key, **(extra or {})), family=fam)
                ks.append(k)
                rec["names"][fam] = k.name

            s1, w1 = slot(e1, rng)
            s2, w2 = slot(e2, rng)
            add("samedim", "bool", [], "return has_same_dimension(%s, %s);" % (s1, s2), {"spelled": [w1, w2]})
            for side, e in (("1", e1), ("2", e2)):
                try:
                    pn, pd = dim_pack(e.unit.dim, False), dim_pack(e.unit.dim, True)
                except AssertionError:
                    continue
                sx, wx = slot(e, rng)
                tx = sx[:-2] if wx == "type" else "AssociatedUnitT<std::remove_cv_t<decltype(%s)>>" % sx
                add("dimn" + side, "uint64_t", [], "return auv_dim_pack<%s, false>();" % tx, {"spelled": [wx]})
                add("dimd" + side, "uint64_t", [], "return auv_dim_pack<%s, true>();" % tx, {"spelled": [wx]})
                rec.setdefault("dimpacks", {})["dimn" + side] = pn
                rec["dimpacks"]["dimd" + side] = pd
            s1, w1 = slot(e1, rng)
            s2, w2 = slot(e2, rng)
            add("equiv", "bool", [], "return are_units_quantity_equivalent(%s, %s);" % (s1, s2), {"spelled": [w1, w2]})
            if same_dim:
                m = U.ratio(e1.unit, e2.unit)
                kind, N, D = ratio_class(m)
                rec.update(ratio=m, kind=kind, N=N, D=D)
                key = dict(key, ratio=(("%d/%d" % (N, D)) if N else repr(m)))
                s1, w1 = slot(e1, rng)
                s2, w2 = slot(e2, rng)
                add("isint", "bool", [], "return is_integer(unit_ratio(%s, %s));" % (s1, s2), {"spelled": [w1, w2]})
                s1, w1 = slot(e1, rng)
                s2, w2 = slot(e2, rng)
                add("israt", "bool", [], "return is_rational(unit_ratio(%s, %s));" % (s1, s2), {"spelled": [w1, w2]})
                q, w1 = source(e1, rng)
                s2, w2 = slot(e2, rng)
                add("dbl", "double", [("double", "x")], "return %s.in(%s);" % (q, s2), {"spelled": [w1, w2]})
                if kind != "irrational" and N * D <= INT64_MAX:
                    q, w1 = source(e1, rng)
                    s2, w2 = slot(e2, rng)
                    add("i64", "int64_t", [("int64_t", "x")], "return %s.coerce_in(%s);" % (q, s2), {"spelled": [w1, w2]})
            if mode == "rearr":
                # identical type, whatever the spelling
                for j in range(2):
                    s1, w1 = slot(e1, rng, None if j else "type")
                    s2, w2 = slot(e2, rng, None if j else "type")
                    t1 = s1[:-2] if w1 == "type" else "decltype(associated_unit(%s))" % s1
                    t2 = s2[:-2] if w2 == "type" else "decltype(associated_unit(%s))" % s2
                    add("same%d" % j, "bool", [], "return std::is_same<%s, %s>::value;" % (t1, t2), {"spelled": [w1, w2]})
            self.inst.append(rec)
        self.extra_cov["pairs_by_mode"] = modes
        return ks

    # ---- what the double kernel does, read off its encoding
    def shape(self, K, name):
        x = T.var("x", T.BV(64))
        e = K[name](x)
        r = e.ret
        if r is x:
            return "identity", None
        if r.op in ("fp.mul", "fp.div") and len(r.args) == 2:
            a, b = r.args
            if a is x and T.is_const(b):
                return r.op[3:], b.attr
            if r.op == "fp.mul" and b is x and T.is_const(a):
                return "mul", a.attr
        e1 = K[name](T.const_bv(ONE_D, 64))
        if T.is_const(e1.ret):
            return "general", e1.ret.attr
        return None, None

    def obligations(self, K):
        obs = []
        for k in getattr(self, "spell", []):
            if K[k.name].kernel.dropped:
                self.notes.append("spelling probe does not compile (skipped): %s: %s" % (k.key, K[k.name].kernel.dropped[:120]))
                continue

            def sfn(K, name=k.name):
                return T.TRUE, K[name]().ret
            obs.append(F.Ob("spelling:" + k.name, [], sfn, kind="closed", key=k.key, kernels=[k.name],
                            note="this spelling denotes exactly the unit its type denotes (ratio 1)"))
        for k, expected in getattr(self, "dimfacts", []):
            if K[k.name].kernel.dropped:
                ob = F.Ob("dimension_exponents:" + k.name, [], None, kind="closed", key=dict(k.key, compile_error=K[k.name].kernel.dropped[:200]), kernels=[k.name],
                          note="the product / quotient of two library units must compile")
                ob.status = "lowering-failed"
                obs.append(ob)
                continue

            def dfn(K, name=k.name, expected=expected):
                e = K[name]()
                return T.TRUE, T.and_(T.not_(e.ub), T.eq(e.ret, T.const_bv(expected, 64)))
            obs.append(F.Ob("dimension_exponents:" + k.name, [], dfn, kind="closed", key=dict(k.key, expected_pack=hex(expected)), kernels=[k.name],
                            note="exponents of the 9 base dimensions (7 bits each, +64) read from the unit's Dimension pack == the model's vector"))
        ndrop = 0
        nk = 0
        for rec in self.inst:
            pi, e1, e2 = rec["i"], rec["e1"], rec["e2"]
            names = rec["names"]
            key = {"pair": pi, "mode": rec["mode"], "E1": e1.sid, "E2": e2.sid}
            nk += len(names)
            live = {}
            for fam, nm in names.items():
                if K[nm].kernel.dropped:
                    ndrop += 1
                    self.notes.append("model says this compiles but it was dropped: %s :: %s" % (K[nm].kernel.body[:200], K[nm].kernel.dropped[:160]))
                    ob = F.Ob("skip:%s_%d" % (fam, pi), [], None, key=key)
                    ob.status = "skipped-domain"
                    obs.append(ob)
                else:
                    live[fam] = nm

            def closed(fam, expected, note):
                if fam not in live:
                    return
                nm = live[fam]

                def fn(K, nm=nm, expected=expected):
                    e = K[nm]()
                    return T.TRUE, T.and_(T.not_(e.ub), T.eq(e.ret, T.const_bool(expected)))
                obs.append(F.Ob("closed:%s_%d" % (fam, pi), [], fn, kind="closed", key=dict(key, expected=expected, **K[nm].kernel.key),
                                kernels=[nm], note=note))

            for fam, pack in rec.get("dimpacks", {}).items():
                if fam in live:
                    def pfn(K, nm=live[fam], pack=pack):
                        e = K[nm]()
                        return T.TRUE, T.and_(T.not_(e.ub), T.eq(e.ret, T.const_bv(pack, 64)))
                    obs.append(F.Ob("closed:%s_%d" % (fam, pi), [], pfn, kind="closed", key=dict(key, expected_pack=hex(pack), **K[live[fam]].kernel.key),
                                    kernels=[live[fam]], note="dimension exponent %s of the expression == the model's exponent vector"
                                    % ("numerators" if fam.startswith("dimn") else "denominators")))
            closed("samedim", rec["same_dim"], "has_same_dimension == (model dimension vectors equal)")
            if not rec["same_dim"]:
                closed("equiv", False, "different dimension => not quantity-equivalent")
                continue
            kind, N, D, m = rec["kind"], rec["N"], rec["D"], rec["ratio"]
            key = dict(key, ratio=(("%d/%d" % (N, D)) if N else repr(m)))
            closed("equiv", kind == "one", "are_units_quantity_equivalent == (model ratio exactly 1)")
            closed("isint", m.is_integer(), "is_integer(unit_ratio) == model")
            closed("israt", m.is_rational(), "is_rational(unit_ratio) == model")
            closed("same0", True, "algebraically equal products/powers of the same named units are the identical type (type spelling)")
            closed("same1", True, "algebraically equal products/powers of the same named units are the identical type (any spelling)")
            # ---- int64 kernel against the model's N/D
            if "i64" in live:
                nm = live["i64"]
                xs = [("x", T.BV(64))]
                k2 = dict(key, **K[nm].kernel.key)
                if kind == "one":
                    def fnI(K, x, nm=nm):
                        e = K[nm](x)
                        return T.TRUE, T.and_(T.not_(e.ub), T.eq(e.ret, x))
                    obs.append(F.Ob("identity_i64:%d" % pi, xs, fnI, key=k2, kernels=[nm], routes=F.CMP_ROUTES,
                                    note="equivalent units: conversion is the identity, no UB"))
                else:
                    def fnE(K, x, nm=nm, N=N, D=D):
                        e = K[nm](x)
                        p = T.imul(T.sval(x), T.const_int(N))
                        pre = T.and_(T.not_(e.ub), T.eq(T.imod(p, T.const_int(D)), T.const_int(0)))
                        return pre, T.eq(T.imul(T.sval(e.ret), T.const_int(D)), p)
                    obs.append(F.Ob("exact_i64:%d" % pi, xs, fnE, key=k2, kernels=[nm], routes=["z3-int", "cvc5-int", "cvc5-bvint"], timeout=8,
                                    note="no UB and D | x*N => result*D == x*N in Z, with the MODEL's N/D"))

                    def fnR(K, x, nm=nm, N=N):
                        e = K[nm](x)
                        return T.in_range(T.imul(T.sval(x), T.const_int(N)), -(1 << 63), INT64_MAX), T.not_(e.ub)
                    obs.append(F.Ob("reach_i64:%d" % pi, xs, fnR, key=k2, kernels=[nm], note="x*N representable => no UB"))

                    def fnW(K, x, nm=nm, N=N, D=D):
                        e = K[nm](x)
                        p = T.imul(T.sval(x), T.const_int(N))
                        return T.TRUE, T.and_(T.not_(e.ub), T.eq(T.imod(p, T.const_int(D)), T.const_int(0)), T.ne(x, T.const_bv(0, 64)))
                    obs.append(F.Ob("witness_i64:%d" % pi, xs, fnW, expect="sat", key=k2, kernels=[nm],
                                    note="some x != 0 converts exactly (x = D does)"))
            # ---- double kernel
            if "dbl" in live:
                nm = live["dbl"]
                xs = [("x", T.BV(64))]
                k2 = dict(key, **K[nm].kernel.key)
                if kind == "one":
                    def fnI(K, x, nm=nm):
                        e = K[nm](x)
                        return T.TRUE, T.and_(T.not_(e.ub), T.eq(e.ret, x))
                    obs.append(F.Ob("identity_dbl:%d" % pi, xs, fnI, key=k2, kernels=[nm], routes=F.FP_ROUTES,
                                    note="equivalent units: conversion is the identity bit-for-bit"))
                else:
                    op, kb = self.shape(K, nm)
                    if op is None:
                        self.inconclusive.append("c02_dbl_%d: the kernel's constant could not be read (value at 1.0 does not fold)" % pi)
                        continue
                    k3 = dict(k2, kernel_form=op, constant="0x%016x" % (kb or 0))
                    if op == "identity":
                        # the closed check below reports it; the for-all part is then 'ret == x'
                        def fnS(K, x, nm=nm):
                            e = K[nm](x)
                            return T.TRUE, T.and_(T.not_(e.ub), T.eq(e.ret, x))
                    elif op in ("mul", "div"):
                        def fnS(K, x, nm=nm, op=op, kb=kb):
                            e = K[nm](x)
                            return T.TRUE, T.and_(T.not_(e.ub), T.eq(e.ret, T.fp_bin(op, FMT, x, T.const_bv(kb, 64))))
                    else:
                        def fnS(K, x, nm=nm, kb=kb):
                            e = K[nm](x)
                            return T.not_(T.fp_isnan(FMT, x)), T.and_(T.not_(e.ub), T.eq(e.ret, T.fp_bin("mul", FMT, x, T.const_bv(kb, 64))))
                    obs.append(F.Ob("single_op_dbl:%d" % pi, xs, fnS, key=k3, kernels=[nm], routes=F.FP_ROUTES,
                                    note="for all x: kernel(x) == x (*) K or x (/) K' with the constant read off the kernel (one IEEE operation)"))

                    def fnC(K, nm=nm, m=m):
                        e = K[nm](T.const_bv(ONE_D, 64))
                        ok = T.is_const(e.ret) and within_ulps(e.ret.attr, m)
                        return T.TRUE, T.and_(T.not_(e.ub), T.const_bool(bool(ok)))
                    obs.append(F.Ob("factor_dbl:%d" % pi, [], fnC, kind="closed", key=k3, kernels=[nm],
                                    note="kernel(1.0) is within 4 ulp of the model's exact ratio (rational, or 64-digit enclosure for pi / roots)"))
        self.extra_cov["kernels_dropped_although_model_in_domain"] = ndrop
        if ndrop > max(3, nk // 50):
            self.inconclusive.append("%d of %d kernels the model calls well-formed did not compile (see notes); the grid is not covered" % (ndrop, nk))
        return obs


CHECK = C02
