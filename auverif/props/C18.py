"""C18 - Printed labels denote the actual unit (partial; stream formatting outside; DESIGN.md section 6, C18).

Solver-decided: the digit-count loops `string_size_unsigned` / `string_size` for every 64-bit argument (unwinding
assertion included), and every character of every label / IToA / UIToA array as an index-symbolic read of the constant
data the compiler emitted for the real templates (for ALL i <= len: char(i) == expected[i], char(len) == 0).
The expected strings come from the label grammar written below from the documentation (docs/reference/unit.md,
prefix.md, magnitude.md, howto/new-units.md) and by reasoning; nothing here calls Au."""
import itertools
from fractions import Fraction
from .. import framework as F
from .. import terms as T
from .. import unitmodel as U

UNLABELED = "[UNLABELED UNIT]"
UNLABELED_MAG = "(UNLABELED SCALE FACTOR)"
U64MAX = (1 << 64) - 1
I64MIN = -(1 << 63)

# symbols of library units as printed (SI brochure / NIST SP 811 symbols; ASCII spellings as documented for this library)
SYMBOL = {
    "Meters": "m", "Grams": "g", "Seconds": "s", "Amperes": "A", "Kelvins": "K", "Moles": "mol", "Candelas": "cd", "Radians": "rad",
    "Bits": "b", "Bytes": "B", "Minutes": "min", "Hours": "h", "Days": "d", "Inches": "in", "Feet": "ft", "Yards": "yd", "Miles": "mi",
    "Degrees": "deg", "Hertz": "Hz", "Newtons": "N", "Joules": "J", "Watts": "W", "Pascals": "Pa", "Coulombs": "C", "Volts": "V",
    "Ohms": "ohm", "Farads": "F", "Tesla": "T", "Henries": "H", "Liters": "L", "PoundsMass": "lb", "PoundsForce": "lbf", "Knots": "kn",
    "NauticalMiles": "nmi", "Bars": "bar", "Steradians": "sr", "Lumens": "lm", "Lux": "lx", "Webers": "Wb", "Siemens": "S", "Grays": "Gy",
    "Becquerel": "Bq", "Katals": "kat", "Percent": "%", "Revolutions": "rev",
}
# docs/reference/prefix.md
PREFIX_SYMBOL = {"Quetta": "Q", "Ronna": "R", "Yotta": "Y", "Zetta": "Z", "Exa": "E", "Peta": "P", "Tera": "T", "Giga": "G", "Mega": "M",
                 "Kilo": "k", "Hecto": "h", "Deka": "da", "Deci": "d", "Centi": "c", "Milli": "m", "Micro": "u", "Nano": "n", "Pico": "p",
                 "Femto": "f", "Atto": "a", "Zepto": "z", "Yocto": "y", "Ronto": "r", "Quecto": "q",
                 "Kibi": "Ki", "Mebi": "Mi", "Gibi": "Gi", "Tebi": "Ti", "Pebi": "Pi", "Exbi": "Ei", "Zebi": "Zi", "Yobi": "Yi"}
MAX_ALTERNATIVES = 48


def mag_of_int(n):
    import sympy
    return U.Mag({int(p): int(e) for p, e in sympy.factorint(int(n)).items()})


def mag_of(q):
    q = Fraction(q)
    return mag_of_int(q.numerator) / mag_of_int(q.denominator)


# ---------------------------------------------------------------------------------------------------------------------
# label grammar (independent model)

def int_label(n):
    """a positive integer scale factor prints as its decimal digits when it fits 64 unsigned bits"""
    return str(n) if n <= U64MAX else UNLABELED_MAG


def mag_label(m):
    """(text, has an exposed slash)"""
    if m.is_integer():
        return int_label(int(m.as_fraction())), False
    if m.is_rational():
        q = m.as_fraction()
        return "%s / %s" % (int_label(q.numerator), int_label(q.denominator)), True
    return UNLABELED_MAG, False


def exp_suffix(e):
    if e == 1:
        return ""
    if e.denominator == 1:
        return "^%d" % e if e > 0 else "^(%d)" % e
    return "^(%d/%d)" % (e.numerator, e.denominator)


class S:
    """label structure.  kind: atom(text) | prefixed(sym, child) | scaled(Mag, base) | prod({key: (S, exp)})"""

    def __init__(self, kind, **a):
        self.kind = kind
        self.a = a
        if kind == "atom":
            self.key = "A:" + a["ident"]
        elif kind == "prefixed":
            self.key = "P:%s<%s>" % (a["prefix"], a["child"].key)
        elif kind == "scaled":
            self.key = "S:[%r %s]" % (a["mag"], a["base"].key)
        else:
            self.key = "X:" + "*".join("%s^%s" % (k, e) for k, (s, e) in sorted(a["factors"].items()))

    def factors(self):
        """as a product of atoms"""
        if self.kind == "prod":
            return dict(self.a["factors"])
        return {self.key: (self, Fraction(1))}

    def labels(self):
        """every string the grammar admits for this unit (the order of factors inside a product is not specified)"""
        k = self.kind
        if k == "atom":
            return [self.a["text"]]
        if k == "prefixed":
            return [PREFIX_SYMBOL[self.a["prefix"]] + l for l in self.a["child"].labels()]
        if k == "scaled":
            txt, slash = mag_label(self.a["mag"])
            if slash:
                txt = "(" + txt + ")"
            return ["[%s %s]" % (txt, l) for l in self.a["base"].labels()]
        fs = sorted(self.a["factors"].items())
        if not fs:
            return [""]
        if len(fs) == 1:
            s, e = fs[0][1]
            return [l + exp_suffix(e) for l in s.labels()]
        num = [(s, e) for _, (s, e) in fs if e > 0]
        den = [(s, -e) for _, (s, e) in fs if e < 0]

        def side(items):
            outs = []
            for perm in itertools.permutations(items):
                for combo in itertools.product(*[[l + exp_suffix(e) for l in s.labels()] for s, e in perm]):
                    outs.append(" * ".join(combo))
                    if len(outs) >= MAX_ALTERNATIVES:
                        return outs
            return outs
        if not den:
            return side(num)
        ds = [("(%s)" % d if len(den) > 1 else d) for d in side(den)]
        if not num:
            return ["1 / " + d for d in ds]
        ns = [("(%s)" % n if len(num) > 1 else n) for n in side(num)]
        return ["%s / %s" % (n, d) for n in ns for d in ds][:MAX_ALTERNATIVES * 4]


def s_prod(factors):
    factors = {k: v for k, v in factors.items() if v[1] != 0}
    if len(factors) == 1:
        (s, e), = factors.values()
        if e == 1:
            return s
    return S("prod", factors=factors)


def s_mul(a, b, sign=1):
    f = a.factors()
    for k, (s, e) in b.factors().items():
        if k in f:
            f[k] = (s, f[k][1] + sign * e)
        else:
            f[k] = (s, sign * e)
    return s_prod(f)


def s_pow(a, e):
    e = Fraction(e)
    return s_prod({k: (s, x * e) for k, (s, x) in a.factors().items()})


def s_scale(a, m):
    if a.kind == "scaled":
        m = a.a["mag"] * m
        a = a.a["base"]
    if m.is_one():
        return a
    return S("scaled", mag=m, base=a)


class LX:
    """unit expression: C++ value expression, exact unit (dimension, magnitude), label structure"""

    def __init__(self, cxx, unit, s, sid):
        self.cxx = cxx
        self.unit = U.Unit(unit.dim, unit.mag)
        self.s = s
        self.sid = sid

    def __mul__(self, o):
        return LX("(%s * %s)" % (self.cxx, o.cxx), self.unit * o.unit, s_mul(self.s, o.s), "(%s*%s)" % (self.sid, o.sid))

    def __truediv__(self, o):
        return LX("(%s / %s)" % (self.cxx, o.cxx), self.unit / o.unit, s_mul(self.s, o.s, -1), "(%s/%s)" % (self.sid, o.sid))

    def pow(self, n):
        return LX("pow<%d>(%s)" % (n, self.cxx), self.unit.pow(n), s_pow(self.s, n), "%s^%d" % (self.sid, n))

    def root(self, n):
        return LX("root<%d>(%s)" % (n, self.cxx), self.unit.pow(Fraction(1, n)), s_pow(self.s, Fraction(1, n)), "%s^(1/%d)" % (self.sid, n))

    def inv(self):
        return LX("inverse(%s)" % self.cxx, self.unit.pow(-1), s_pow(self.s, -1), "1/%s" % self.sid)

    def by(self, m):
        """scale by a magnitude spec (cxx, Mag, sid) with '*', or ('/', ...) spelled as division"""
        return LX("(%s * %s)" % (self.cxx, m[0]), self.unit.scaled(m[1]), s_scale(self.s, m[1]), "[%s %s]" % (m[2], self.sid))


def lib(name):
    n = U.BY_NAME[name]
    return LX(name + "{}", n, S("atom", text=SYMBOL[name], ident=name), name)


def pre(p, x):
    return LX("%s(%s)" % (p.lower(), x.cxx), U.prefixed(p, x.unit), S("prefixed", prefix=p, child=x.s), "%s<%s>" % (p, x.sid))


def MI(n):
    return ("mag<%dull>()" % n, mag_of_int(n), str(n))


def MR(n, d):
    return ("(mag<%dull>() / mag<%dull>())" % (n, d), mag_of(Fraction(n, d)), "%d/%d" % (n, d))


def MP(b, k):
    return ("pow<%d>(mag<%dull>())" % (k, b), mag_of_int(b).pow(k), "%d^%d" % (b, k))


def MPI(k=1):
    return ("Magnitude<Pi>{}" if k == 1 else "pow<%d>(Magnitude<Pi>{})" % k, U.PI.pow(k), "pi^%d" % k)


def MX(a, b):
    return ("(%s * %s)" % (a[0], b[0]), a[1] * b[1], "%s*%s" % (a[2], b[2]))


def common(units, expect):
    """common unit of same-dimension units with rational ratios; `expect` is the grammar's answer computed by hand-coded rules in
    common_structure()"""
    cxx = "CommonUnitT<%s>{}" % ", ".join("std::decay_t<decltype(%s)>" % u.cxx for u in units)
    ms, G = U.common_unit([u.unit for u in units])
    return LX(cxx, G, expect, "common(%s)" % ", ".join(u.sid for u in units))


def common_structure(units):
    """label structure of the common unit: drop inputs that are integer multiples of another input (and duplicates); if one input is left it
    is the common unit; otherwise each remaining input is rescaled to the common unit's size ([G/U_i U_i], nested scalings merged), equal
    results are merged; one left -> that scaled unit, several -> EQUIV{a, b, ...} in unspecified order"""
    ms, G = U.common_unit([u.unit for u in units])
    keep = []
    for i, u in enumerate(units):
        red = False
        for j, v in enumerate(units):
            if i == j:
                continue
            r = Fraction(ms[i], ms[j])
            if r.denominator == 1 and (r != 1 or j < i):
                red = True
        if not red:
            keep.append((u, ms[i]))
    outs = {}
    for u, mi in keep:
        s = s_scale(u.s, mag_of(Fraction(1, mi)))
        outs.setdefault(s.key, s)
    items = list(outs.values())
    if len(items) == 1:
        return items[0]
    return EquivS(items)


class EquivS(S):
    def __init__(self, items):
        self.kind = "equiv"
        self.items = items
        self.key = "E:{%s}" % ",".join(sorted(i.key for i in items))
        self.a = {}

    def factors(self):
        return {self.key: (self, Fraction(1))}

    def labels(self):
        outs = []
        for perm in itertools.permutations(self.items):
            for combo in itertools.product(*[s.labels() for s in perm]):
                outs.append("EQUIV{%s}" % ", ".join(combo))
                if len(outs) >= MAX_ALTERNATIVES:
                    return outs
        return outs


def digits_term(xint):
    """number of decimal digits of a non-negative mathematical integer below 2^64: 1 + sum_k [x >= 10^k]"""
    acc = T.const_int(1)
    for k in range(1, 20):
        acc = T.iadd(acc, T.ite(T.ilt(xint, T.const_int(10 ** k)), T.const_int(0), T.const_int(1)))
    return acc


def expected_char(i, text):
    """ite-chain: the i-th byte of text + NUL (i is a BV64 term)"""
    data = [ord(c) for c in text] + [0]
    acc = T.const_bv(data[-1], 8)
    for j in range(len(data) - 2, -1, -1):
        acc = T.ite(T.eq(i, T.const_bv(j, 64)), T.const_bv(data[j], 8), acc)
    return acc


PRELUDE = r"""
template <std::size_t N> __attribute__((no_sanitize("pointer-overflow"), always_inline)) inline char auv_at(const char (&a)[N], uint64_t i) { return a[i]; }
// units defined the way docs/howto/new-units.md describes, with the optional label omitted
struct C18UnlabeledBase : UnitImpl<Length> {};
struct C18UnlabeledQuot : decltype(Meters{} / Seconds{}) {};
struct C18UnlabeledPow : decltype(squared(Meters{})) {};
struct C18UnlabeledScaled : decltype(Feet{} * mag<6>()) {};
struct C18UnlabeledPi : decltype(Radians{} * Magnitude<Pi>{} / mag<200>()) {};
struct C18UnlabeledPrefixed : decltype(Kilo<Meters>{} * mag<3>()) {};
// a unit with its own label (C++14 style definition)
template <typename T> struct C18SmootLabel { static constexpr const char label[] = "smoot"; };
template <typename T> constexpr const char C18SmootLabel<T>::label[];
struct C18Smoots : decltype(Inches{} * mag<67>()), C18SmootLabel<void> { using C18SmootLabel<void>::label; };
"""


class C18(F.Check):
    pid = "C18"
    level = "model_checking"
    assumptions = [
        "clang 14 front end and -O1 pipeline, own LLVM-IR->SMT encoder, z3 5.1 / cvc5 1.0.3 are trusted",
        "string_size(x): x == INT64_MIN is excluded (the function computes -x, signed overflow); its callers pass exponents that come from std::ratio and "
        "IToA template arguments, IToA<INT64_MIN> itself does not compile (recorded in evidence)",
        "labels are compile-time data: each label / IToA / UIToA array is read through `arr[i]` with a symbolic index i (-fsanitize=bounds check kept; the read helper "
        "disables only the pointer-overflow check whose operand is the unknown load address); the obligation is for ALL i <= len: char(i) == expected[i], where "
        "expected = grammar string + NUL, plus sizeof == len + 1.  What is quantified is the index; the set of unit expressions is an enumerated grid",
        "expected strings are produced by an independent implementation of the documented grammar (prefix symbol + label; [M U] with (N / D) parenthesised; "
        "U^N, U^(-N), U^(N/D); 'a * b', '(a * b) / c', 'a / (b * c)', '1 / (a * b)'; EQUIV{...} for common units; '[UNLABELED UNIT]' for unlabeled units; "
        "'(UNLABELED SCALE FACTOR)' for irrational factors and integers above 2^64-1). The order of factors inside a product / EQUIV list is not part of the documented "
        "grammar: the order the library chose is read off the data, proved for all i, and required to be one of the grammar's permutations; the same unit spelled "
        "differently must print identically",
        "'never the label of a different unit': all pairs of grid expressions whose (dimension, magnitude) differ must have different labels, compared on the model strings "
        "and on the characters read back; pairs whose grammar strings coincide because both use a generic marker ([UNLABELED UNIT] / (UNLABELED SCALE FACTOR)) are exempt "
        "(the property's parenthesis) and counted",
        "operator<<: the stream is a recording stub (every call on the std::ostream is recorded with its arguments): decided is that a NUMERIC inserter is "
        "called with exactly the stored value (never a character inserter, also for char / signed char / unsigned char reps), then ' ', then the label; "
        "what the numeric inserter prints (locale, formatting flags) is libstdc++'s and outside",
        "in-bounds writes during the constexpr construction of labels are the compiler's own check (constant evaluation rejects out-of-bounds writes)",
    ]

    def bounds(self):
        return {"string_size_unsigned": "all 2^64 arguments, unwind 20 (19 divisions suffice; unwinding assertion proved)",
                "string_size": "all int64 arguments except INT64_MIN", "label index": "all i <= len (64-bit index)",
                "unit expressions": len(getattr(self, "labels", [])), "IToA/UIToA arguments": len(getattr(self, "itoa", [])),
                "distinctness pairs": getattr(self, "npairs", 0)}

    # ---- grid
    def unit_grid(self):
        m, s, ft, inch, g = lib("Meters"), lib("Seconds"), lib("Feet"), lib("Inches"), lib("Grams")
        mn, h, rad, deg, N, J = lib("Minutes"), lib("Hours"), lib("Radians"), lib("Degrees"), lib("Newtons"), lib("Joules")
        out = []

        def add(x, family, **kw):
            out.append(dict(x=x, family=family, **kw))

        names = ["Meters", "Grams", "Seconds", "Amperes", "Kelvins", "Moles", "Candelas", "Radians", "Bits", "Bytes", "Minutes", "Hours", "Feet",
                 "Inches", "Miles", "Degrees", "Hertz", "Newtons", "Joules", "Watts", "Pascals", "Ohms", "Liters", "PoundsMass", "Percent", "Knots"]
        if self.tier != "quick":
            names = sorted(SYMBOL)
        for n in names:
            add(lib(n), "library")
        pfx = [("Kilo", m), ("Milli", s), ("Micro", g), ("Mega", lib("Hertz")), ("Kibi", lib("Bytes")), ("Deka", m), ("Centi", m), ("Nano", s),
               ("Quetta", g), ("Quecto", m), ("Yobi", lib("Bits")), ("Giga", lib("Watts")), ("Hecto", lib("Pascals")), ("Deci", lib("Liters"))]
        if self.tier != "quick":
            pfx = [(p, m) for p in PREFIX_SYMBOL] + pfx
        for p, u in pfx:
            add(pre(p, u), "prefixed")
        add(pre("Kilo", pre("Milli", m)), "prefixed")          # prefixes stack textually
        add(pre("Kilo", m / s), "prefixed")                     # prefix of a compound unit prepends to its label
        # products / quotients / powers
        add(m * s, "product")
        add(m / s, "quotient")
        add(m / s.pow(2), "quotient")
        add(ft * mn / inch, "quotient")
        add((ft * mn).inv(), "quotient")
        add((inch * lib("Yards")) / (ft * mn), "quotient")
        add(inch * lib("Yards").pow(2) / mn.root(2), "quotient")
        add(pre("Kilo", g) * m.pow(2) / s.pow(3), "quotient")
        add(N * m, "product")
        add(J / (lib("Kelvins") * lib("Moles")), "quotient")
        add(m / m, "null product")
        add(m.pow(2), "power")
        add(m.pow(3), "power")
        add(ft.pow(33), "power")
        add(s.pow(-1), "power")
        add(s.pow(-2), "power")
        add(mn.pow(-4321), "power")
        add(m.root(2), "power")
        add(m.root(2).pow(-1), "power")
        add(ft.root(7).pow(-22), "power")
        add(m.root(3).pow(2), "power")
        add(s * m.root(2).pow(-1), "quotient")
        add((m / s).pow(2), "power")
        add(pre("Kilo", m).pow(2), "power")
        # scaled units: integers of every size class, rationals, unlabeled scale factors
        for n in (2, 3, 9, 10, 99, 100, 255, 256, 65535, 65536, 10 ** 9, (1 << 31) - 1, 1 << 32, 10 ** 18, (1 << 63) - 1, 1 << 63, 10 ** 19,
                  18446744073709551557, U64MAX):
            add(m.by(MI(n)), "scaled:integer")
        add(m.by(MP(2, 64)), "scaled:integer above 2^64-1")
        add(m.by(MP(10, 24)), "scaled:integer above 2^64-1")
        for n, d in ((1, 12), (7, 12), (3, 4), (10, 21), (1, 1000), (22, 7), (U64MAX, 2), (1, U64MAX), (541, 123456789)):
            add(ft.by(MR(n, d)), "scaled:rational")
        add(ft.by(MI(3)).by(MR(1, 3)), "scaled:collapses to the unit")
        add(ft.by(MI(2)).by(MR(1, 3)).by(MI(5)).by(MR(1, 7)), "scaled:rational")
        add(m.by(MPI()), "scaled:irrational")
        add(m.by(MX(MPI(), MI(2))), "scaled:irrational")
        add(m.by(MX(MP(2, 64), MR(1, 3))), "scaled:rational with numerator above 2^64-1")
        add((m / s).by(MI(5)), "scaled:compound")
        add(pre("Kilo", m).by(MI(3)), "scaled:prefixed")
        add(m.pow(2).by(MI(3)), "scaled:power")
        add(m.by(MI(3)) * s, "product of scaled")
        add(m.by(MI(3)).pow(2), "power of scaled")
        add(m.by(MI(3)) * m, "product of scaled")
        add(m.by(MI(3)) / s.by(MR(1, 2)), "quotient of scaled")
        # common units
        for us in ([m, ft], [ft, m], [inch, m], [ft, inch], [ft.by(MI(6)), ft.by(MI(10))], [ft.by(MI(6)), ft.by(MI(10)), inch.by(MI(48))],
                   [m / mn, inch / mn], [pre("Kilo", m), lib("Miles")], [h, mn, s], [m, ft, lib("Miles")]):
            add(common(us, common_structure(us)), "common")
        # unlabeled and user-labeled units
        ub = LX("C18UnlabeledBase{}", m.unit, S("atom", text=UNLABELED, ident="C18UnlabeledBase"), "UnlabeledBase")
        uq = LX("C18UnlabeledQuot{}", (m / s).unit, S("atom", text=UNLABELED, ident="C18UnlabeledQuot"), "UnlabeledQuot")
        up = LX("C18UnlabeledPow{}", m.pow(2).unit, S("atom", text=UNLABELED, ident="C18UnlabeledPow"), "UnlabeledPow")
        us_ = LX("C18UnlabeledScaled{}", ft.by(MI(6)).unit, S("atom", text=UNLABELED, ident="C18UnlabeledScaled"), "UnlabeledScaled")
        upi = LX("C18UnlabeledPi{}", rad.by(MPI()).by(MR(1, 200)).unit, S("atom", text=UNLABELED, ident="C18UnlabeledPi"), "UnlabeledPi")
        upf = LX("C18UnlabeledPrefixed{}", pre("Kilo", m).by(MI(3)).unit, S("atom", text=UNLABELED, ident="C18UnlabeledPrefixed"), "UnlabeledPrefixed")
        sm = LX("C18Smoots{}", inch.by(MI(67)).unit, S("atom", text="smoot", ident="C18Smoots"), "Smoots")
        for x in (ub, uq, up):
            add(x, "unlabeled")
        for x in (us_, upi, upf):
            add(x, "unlabeled:derived from a scaled unit", inherits=True)
        add(pre("Nano", ub) / s, "unlabeled:composed")
        add(pre("Nano", us_) / s, "unlabeled:composed", inherits=True)
        add(ub.by(MI(3)), "unlabeled:composed")
        add(ub.pow(2), "unlabeled:composed")
        add(sm, "user label")
        add(pre("Kilo", sm), "user label")
        add(sm.by(MI(2)), "user label")
        add(sm / s, "user label")
        # VERIF_SEED-random expression trees: 1-3 library units, optional prefix / scale factor per atom, integer and fractional exponents
        rng = self.rng
        pool = ["Meters", "Seconds", "Grams", "Amperes", "Kelvins", "Moles", "Candelas", "Radians", "Bits", "Feet", "Minutes", "Newtons", "Joules",
                "Watts", "Hertz", "Liters", "Miles", "Degrees", "Pascals", "Bytes"]
        exps = [1, 1, 1, 2, 3, -1, -1, -2, -3, Fraction(1, 2), Fraction(-1, 2), Fraction(2, 3), Fraction(-3, 2)]

        def rmag():
            def smooth(bits):
                n = 1
                while n.bit_length() < bits:
                    n *= rng.choice([2, 3, 5, 7, 11, 13, 127, 257, 641, 65537])
                return n if n <= U64MAX else n // 2 ** (n.bit_length() - 64) | 1
            kind = rng.random()
            if kind < 0.5:
                n = max(2, rng.getrandbits(rng.randrange(2, 33)))
                return MI(n)
            if kind < 0.7:
                return MI(max(2, min(U64MAX, smooth(rng.randrange(33, 65)))))
            from math import gcd
            a, b = rng.randrange(1, 5000), rng.randrange(2, 5000)
            g = gcd(a, b)
            a, b = a // g, b // g
            return MR(a, b) if b > 1 else MI(max(a, 2))
        for _ in range(10 if self.tier == "quick" else 80):
            x = None
            for nm in rng.sample(pool, rng.choice([1, 2, 2, 3])):
                a = lib(nm)
                if rng.random() < 0.3:
                    a = pre(rng.choice(sorted(PREFIX_SYMBOL)), a)
                if rng.random() < 0.25:
                    a = a.by(rmag())
                e = Fraction(rng.choice(exps))
                if e.denominator != 1:
                    a = a.root(e.denominator)
                if e.numerator != 1:
                    a = a.pow(e.numerator)
                x = a if x is None else x * a
            if rng.random() < 0.2:
                x = x.by(rmag())
            add(x, "random")
        # same unit, other spelling: must print identically (determinism)
        for a, b in ((m * s, s * m), (m / s, s.inv() * m), (ft * mn / inch, mn / inch * ft), (m.pow(2), m * m), (m.by(MI(12)), m.by(MI(3)).by(MI(4))),
                     (m / s.pow(2), m / s / s), (m.by(MR(3, 4)), m.by(MI(3)).by(MR(1, 4))), (m / m, s / s)):
            out.append(dict(x=b, family="respelled", same_as=a))
        return out

    def kernels(self):
        self.prelude = ('#include "au/io.hh"\n#include <sstream>\n#include <string>\n#include <iomanip>\n'
                        '// formatting states under which the native twins compare the streamed text with `os << +value`\n'
                        'static inline void c18_stream_state(std::ostream &o, int st) {\n'
                        '  switch (st) { case 1: o << std::fixed << std::setprecision(2); break; case 2: o << std::scientific << std::setprecision(3); break;\n'
                        '    case 3: o << std::hex << std::showbase << std::uppercase; break; case 4: o << std::showpos << std::showpoint; break; default: break; } }\n'
                        + PRELUDE)
        D = "au::detail::"
        ks = [F.Kernel("c18_ssu", "uint64_t", [("uint64_t", "x")], "return %sstring_size_unsigned(x);" % D, family="string_size_unsigned"),
              F.Kernel("c18_ss", "uint64_t", [("int64_t", "x")], "return %sstring_size(x);" % D, family="string_size")]
        self.labels = []
        seen = {}
        for i, g in enumerate(self.unit_grid()):
            x = g["x"]
            if x.cxx in seen:
                continue
            seen[x.cxx] = True
            tag = "u%d" % i
            key = {"expression": x.cxx, "unit": x.sid, "family": g["family"]}
            kc = F.Kernel("c18_lab_%s" % tag, "char", [("uint64_t", "i")], "return auv_at(unit_label(%s), i);" % x.cxx, key=key, family="unit_label:" + g["family"].split(":")[0])
            kz = F.Kernel("c18_siz_%s" % tag, "uint64_t", [], "return sizeof(unit_label(%s));" % x.cxx, key=key, family="sizeof(unit_label)")
            ks += [kc, kz]
            same = g.get("same_as")
            self.labels.append(dict(tag=tag, x=x, kc=kc, kz=kz, alts=(same.s.labels() if same else x.s.labels()), key=key, unit=x.unit,
                                    inherits=g.get("inherits", False), same_as=same))
        # mag_label
        self.maglabels = []
        mags = [MI(1), MI(2), MI(287987), MI(U64MAX), MP(2, 64), MP(10, 24), MR(1, 2), MR(541, 123456789), MR(U64MAX, 2), MPI(), MX(MPI(), MI(3)), MP(10, -3)]
        for i, mg in enumerate(mags):
            text = mag_label(mg[1])[0]
            key = {"magnitude": mg[0], "expected": text}
            kc = F.Kernel("c18_mlab_%d" % i, "char", [("uint64_t", "i")], "return auv_at(mag_label(%s), i);" % mg[0], key=key, family="mag_label")
            kz = F.Kernel("c18_msiz_%d" % i, "uint64_t", [], "return sizeof(mag_label(%s));" % mg[0], key=key, family="sizeof(mag_label)")
            ks += [kc, kz]
            self.maglabels.append(dict(tag="m%d" % i, kc=kc, kz=kz, alts=[text], key=key))
        # IToA / UIToA
        self.itoa = []
        un = [0, 1, 9, 10, 11, 99, 100, 101, 999, 1000, 65535, 65536, (1 << 31) - 1, 1 << 31, (1 << 32) - 1, 1 << 32, 10 ** 9, 10 ** 10 - 1, 10 ** 18,
              10 ** 19 - 1, 10 ** 19, (1 << 63) - 1, 1 << 63, U64MAX - 1, U64MAX]
        sn = [0, 1, 9, 10, 99, 100, -1, -9, -10, -11, -99, -100, -4321, (1 << 31) - 1, -(1 << 31), 1 << 32, -(1 << 32), 10 ** 18, -10 ** 18,
              (1 << 63) - 1, I64MIN + 1, I64MIN]
        nr = 4 if self.tier == "quick" else 40
        for _ in range(nr):
            b = self.rng.randrange(1, 65)
            un.append(self.rng.getrandbits(b))
            v = self.rng.getrandbits(self.rng.randrange(1, 64))
            sn.append(v if self.rng.random() < 0.5 else -v)
        for n in dict.fromkeys(un):
            key = {"template": "UIToA", "N": n}
            tag = "U%d" % n
            kc = F.Kernel("c18_uitoa_%d" % n, "char", [("uint64_t", "i")], "return auv_at(%sUIToA<%dull>::value.char_array(), i);" % (D, n), key=key, family="UIToA")
            kz = F.Kernel("c18_uitoa_sz_%d" % n, "uint64_t", [], "return sizeof(%sUIToA<%dull>::value.char_array());" % (D, n), key=key, family="sizeof(UIToA)")
            kl = F.Kernel("c18_uitoa_len_%d" % n, "uint64_t", [], "return %sUIToA<%dull>::length;" % (D, n), key=key, family="UIToA::length")
            ks += [kc, kz, kl]
            self.itoa.append(dict(tag=tag, kc=kc, kz=kz, kl=kl, alts=[str(n)], key=key))
        for n in dict.fromkeys(sn):
            key = {"template": "IToA", "N": n}
            lit = "(-9223372036854775807ll - 1)" if n == I64MIN else "%dll" % n
            nm = ("m%d" % -n) if n < 0 else "%d" % n
            kc = F.Kernel("c18_itoa_%s" % nm, "char", [("uint64_t", "i")], "return auv_at(%sIToA<%s>::value.char_array(), i);" % (D, lit), key=key, family="IToA")
            kz = F.Kernel("c18_itoa_sz_%s" % nm, "uint64_t", [], "return sizeof(%sIToA<%s>::value.char_array());" % (D, lit), key=key, family="sizeof(IToA)")
            kl = F.Kernel("c18_itoa_len_%s" % nm, "uint64_t", [], "return %sIToA<%s>::length;" % (D, lit), key=key, family="IToA::length")
            ks += [kc, kz, kl]
            self.itoa.append(dict(tag="I" + nm, kc=kc, kz=kz, kl=kl, alts=[str(n)], key=key, int64min=(n == I64MIN)))
        # ---- streaming: the event trace of operator<< (the stream itself is a stub: every call on it is recorded with its arguments)
        self.stream = []
        sreps = F.ALL_REPS + ["char", "signed char", "unsigned char", "int", "long"]
        sunits = [("Feet", "ft"), ("Kilo<Feet>", "kft"), ("decltype(Feet{} / Kelvins{})", "ft / K"),
                  ("Percent", "%"), ("decltype(Meters{} / Kilo<Meters>{})", "m / km"),        # dimensionless units keep their labels
                  ("Unos", "U"), ("decltype(Unos{} * mag<1000>())", "[1000 U]"), ("Meters", "m")]
        if self.tier == "quick":
            sunits = sunits[:5]
        for ri, r in enumerate(sreps):
            for ui, (u, lab) in enumerate(sunits):
                nm = "c18_stream_%d_%d" % (ri, ui)
                k = F.Kernel(nm, "void", [("std::ostream&", "os"), (r, "x")], "os << make_quantity<%s>(x);" % u,
                             key={"rep": r, "unit": u, "label": lab, "kind": "quantity"}, family="stream", native=False)
                ks.append(k)
                # native-only twin used to replay a structural counterexample: really stream into a string and compare with "<number> <label>"
                kn = F.Kernel(nm + "_native", "bool", [(r, "x")],
                              'for (int st = 0; st < 5; ++st) { std::ostringstream a, b; c18_stream_state(a, st); c18_stream_state(b, st); '
                              'a << make_quantity<%s>(x); b << +x << " " << "%s"; if (a.str() != b.str()) return false; } return true;' % (u, lab),
                              key=k.key, family="stream_native_replay")
                ks.append(kn)
                self.stream.append((k, r, lab, False, kn.name))
            k = F.Kernel("c18_streampt_%d" % ri, "void", [("std::ostream&", "os"), (r, "x")], "os << make_quantity_point<Kelvins>(x);",
                         key={"rep": r, "unit": "Kelvins", "label": "K", "kind": "point"}, family="stream_point", native=False)
            ks.append(k)
            kn = F.Kernel("c18_streampt_%d_native" % ri, "bool", [(r, "x")],
                          'for (int st = 0; st < 5; ++st) { std::ostringstream a, b; c18_stream_state(a, st); c18_stream_state(b, st); '
                          'a << make_quantity_point<Kelvins>(x); b << "@(" << +x << " K)"; if (a.str() != b.str()) return false; } return true;',
                          key=k.key, family="stream_native_replay")
            ks.append(kn)
            self.stream.append((k, r, "K", True, kn.name))
        return ks

    # ---- helpers
    def readback(self, K, kc, kz, cap=256):
        """the label as the lowered data has it (concrete reads at constant indices); None if it cannot be read"""
        try:
            n = K[kz.name]().ret
            if n is None or not T.is_const(n) or not (1 <= n.attr <= cap):
                return None
            cs = []
            for j in range(n.attr):
                c = K[kc.name](T.const_bv(j, 64)).ret
                if c is None or not T.is_const(c):
                    return None
                cs.append(c.attr)
            return cs
        except Exception:   # noqa
            return None

    def label_obligations(self, K, obs, ent, family):
        kc, kz, tag, key = ent["kc"], ent["kz"], ent["tag"], ent["key"]
        alts = ent["alts"]
        if K[kc.name].kernel.dropped or K[kz.name].kernel.dropped:
            why = K[kc.name].kernel.dropped or K[kz.name].kernel.dropped
            if ent.get("int64min"):
                self.extra_cov["IToA<INT64_MIN>"] = "does not compile (%s)" % why[:100]
                return None
            ob = F.Ob("%s_compiles:%s" % (family, tag), [], None, kind="closed", key=dict(key, compile_error=why[:240]), kernels=[kc.name])
            ob.status = "lowering-failed"
            obs.append(ob)
            return None
        got = self.readback(K, kc, kz)
        gots = None
        chosen = alts[0]
        if got is not None and got and got[-1] == 0 and 0 not in got[:-1]:
            gots = "".join(chr(c & 0xFF) for c in got[:-1])
            if gots in alts:
                chosen = gots
        key = dict(key, expected=chosen, alternatives=len(alts), read_back=gots)
        ent["text"] = chosen
        ent["read_back"] = gots
        n = len(chosen)

        def fn(K, i, nm=kc.name, chosen=chosen, n=n):
            e = K[nm](i)
            pre = T.bvcmp("ule", i, T.const_bv(n, 64))
            if e.ret is None:
                return pre, T.FALSE
            return pre, T.and_(T.not_(e.ub), T.eq(e.ret, expected_char(i, chosen)))
        obs.append(F.Ob("%s_chars:%s" % (family, tag), [("i", T.BV(64))], fn, key=key, kernels=[kc.name], routes=F.CMP_ROUTES,
                        note="for all i <= len: no UB and char(i) == grammar string[i]; char(len) == NUL"))

        def fz(K, nm=kz.name, n=n):
            e = K[nm]()
            if e.ret is None:
                return T.TRUE, T.FALSE
            return T.TRUE, T.and_(T.not_(e.ub), T.eq(e.ret, T.const_bv(n + 1, 64)))
        obs.append(F.Ob("%s_sizeof:%s" % (family, tag), [], fz, kind="closed", key=key, kernels=[kz.name], note="sizeof(label) == len + 1"))
        return chosen

    def stream_obligations(self, K, obs):
        """operator<<(ostream&, Quantity): numeric inserter with exactly the stored value (never a character inserter), one space, the label"""
        from .. import encode
        NUM = {"_ZNSolsEi": ("s", 32), "_ZNSolsEj": ("u", 32), "_ZNSolsEl": ("s", 64), "_ZNSolsEm": ("u", 64), "_ZNSolsEx": ("s", 64),
               "_ZNSolsEy": ("u", 64), "_ZNSolsEs": ("s", 16), "_ZNSolsEt": ("u", 16), "_ZNSolsEd": ("f", "double"), "_ZNSolsEf": ("f", "float"),
               "_ZNSolsEe": ("f", "long double"), "_ZNSo9_M_insertIdEERSoT_": ("f", "double"), "_ZNSo9_M_insertIeEERSoT_": ("f", "long double"),
               "_ZNSo9_M_insertIlEERSoT_": ("s", 64), "_ZNSo9_M_insertImEERSoT_": ("u", 64), "_ZNSo9_M_insertIxEERSoT_": ("s", 64),
               "_ZNSo9_M_insertIyEERSoT_": ("u", 64)}
        INSERT = "_ZSt16__ostream_insertIcSt11char_traitsIcEERSt13basic_ostreamIT_T0_ES6_PKS3_l"
        ctmap = dict(F.CTYPES)
        ctmap.update({"signed char": ("s", 8, 1), "unsigned char": ("u", 8, 1)})
        for k, r, lab, is_pt, native_name in self.stream:
            h = K[k.name]
            if h.kernel.dropped:
                ob = F.Ob("stream_compiles:" + k.name, [], None, kind="closed", key=dict(k.key, compile_error=h.kernel.dropped[:200]), kernels=[k.name],
                          note="streaming a quantity of this rep must compile")
                ob.status = "lowering-failed"
                obs.append(ob)
                continue
            kind, w, _ = ctmap[r]
            xs = [("x", T.BV(w))]

            def fn(K, x, name=k.name, r=r, kind=kind, w=w, lab=lab, is_pt=is_pt, native_name=native_name):
                if isinstance(K[native_name], F.NativeHandle):
                    # replay: really stream into a std::ostringstream and compare with "<number> <label>"
                    e_ = K[native_name](x)
                    return T.TRUE, T.and_(T.not_(e_.ub), e_.ret)
                hh = K[name]
                events = []

                mod = hh.chunk.module

                def hook(enc, callee, args, guard):
                    if callee == "strlen" and args and isinstance(args[0], encode.Ptr) and T.is_const(args[0].idx):
                        g_ = mod.globals.get(args[0].obj)
                        d_ = encode.parse_global_init(g_) if g_ else None
                        if d_ is None or 0 not in d_[1][args[0].idx.attr:]:
                            return None
                        return encode.Val(T.const_bv(d_[1][args[0].idx.attr:].index(0), 64))
                    events.append((callee, args, guard))
                    return args[0] if args and isinstance(args[0], encode.Ptr) else None
                try:
                    e = encode.encode_kernel(mod, name, [encode.Ptr("os", T.const_bv(0, 64), None), x], extern_hook=hook)
                except encode.IRUnsupported:
                    # the kernel touches the stream other than through inserter calls (e.g. the inlined character inserter reads the
                    # stream's width): not the required trace; the native twin decides whether the printed text is wrong
                    return T.TRUE, T.FALSE

                def text(ev):
                    callee, args, guard = ev
                    if callee != INSERT or not isinstance(args[1], encode.Ptr) or not T.is_const(args[2].t) or not T.is_const(args[1].idx):
                        return None
                    g = mod.globals.get(args[1].obj)
                    data = encode.parse_global_init(g) if g else None
                    if data is None:
                        return None
                    vals = data[1][args[1].idx.attr: args[1].idx.attr + args[2].t.attr]
                    return "".join(chr(c) for c in vals)
                seq = list(events)
                ok = all(g is T.TRUE for _, _, g in seq)
                if is_pt:
                    ok = ok and len(seq) == 5 and text(seq[0]) == "@(" and text(seq[4]) == ")"
                    seq = seq[1:4] if len(seq) == 5 else []
                ok = ok and len(seq) == 3 and seq[0][0] in NUM and text(seq[1]) == " " and text(seq[2]) == lab
                val_ok = T.FALSE
                if ok:
                    nk, nw = NUM[seq[0][0]]
                    arg = seq[0][1][1].t
                    if nk == "f":
                        exp = T.fp_cvt(F.FMT_OF[r], F.FMT_OF[nw], x) if kind == "f" else None
                    elif kind == "f":
                        exp = None
                    else:
                        xx = x if x.sort != T.BOOL else T.bool_to_bv(x, 8)
                        exp = (T.sext if kind == "s" else T.zext)(xx, nw) if T.width(xx) <= nw else None
                        # the inserter's signedness must be able to show the value: unsigned reps of full width need an unsigned inserter
                        if exp is not None and kind == "u" and nk == "s" and T.width(xx) == nw:
                            exp = None
                    val_ok = T.eq(arg, exp) if exp is not None and exp.sort == arg.sort else T.FALSE
                return T.TRUE, T.and_(T.const_bool(bool(ok)), val_ok, T.not_(e.ub))
            obs.append(F.Ob("stream_trace:" + k.name, xs, fn, key=k.key, kernels=[k.name, native_name], routes=F.CMP_ROUTES,
                            note="operator<< calls a NUMERIC stream inserter with exactly the stored value (sign/zero/fp-extended), then inserts ' ' and the "
                                 "unit label%s; the stream is a recording stub, what the inserter prints is libstdc++'s" % (" inside '@(' ... ')'" if is_pt else "")))

    def obligations(self, K):
        obs = []
        self.stream_obligations(K, obs)
        B = T.BV(64)

        def fn_u(K, x):
            e = K["c18_ssu"](x, unwind=20)
            return T.TRUE, T.and_(T.not_(e.ub), T.not_(e.unwind), T.eq(T.uval(e.ret), digits_term(T.uval(x))))
        obs.append(F.Ob("string_size_unsigned", [("x", B)], fn_u, kernels=["c18_ssu"], routes=["z3-int", "cvc5-int", "cvc5-bvint"],
                        note="number of decimal digits for every x < 2^64; 20 unwindings suffice (unwinding assertion)"))

        def fn_s(K, x):
            e = K["c18_ss"](x, unwind=20)
            xs = T.sval(x)
            neg = T.ilt(xs, T.const_int(0))
            want = T.iadd(digits_term(T.iabs(xs)), T.ite(neg, T.const_int(1), T.const_int(0)))
            return T.ne(x, T.const_bv(1 << 63, 64)), T.and_(T.not_(e.ub), T.not_(e.unwind), T.eq(T.uval(e.ret), want))
        obs.append(F.Ob("string_size", [("x", B)], fn_s, kernels=["c18_ss"], routes=["cvc5-int", "cvc5-bvint", "z3-bv"],   # z3 on the Int text: unknown after 20 s (measured)
                        note="digits of |x| plus one for the minus sign, for every int64 x > INT64_MIN, no UB"))

        def fn_min(K, x):
            e = K["c18_ss"](x, unwind=20)
            return T.not_(e.ub), T.ne(x, T.const_bv(1 << 63, 64))
        obs.append(F.Ob("string_size:ub_only_at_int64_min", [("x", B)], fn_min, kind="stretch", kernels=["c18_ss"], routes=["z3-int", "cvc5-int", "cvc5-bvint"],
                        note="the excluded input is exactly the one on which the function has UB (documents the assumption; not part of the claim)"))
        # ---- IToA / UIToA
        for ent in self.itoa:
            chosen = self.label_obligations(K, obs, ent, "itoa")
            if chosen is None:
                continue
            kl = ent["kl"]
            if not K[kl.name].kernel.dropped:
                def fl(K, nm=kl.name, n=len(chosen)):
                    e = K[nm]()
                    return T.TRUE, T.eq(e.ret, T.const_bv(n, 64)) if e.ret is not None else T.FALSE
                obs.append(F.Ob("itoa_length:%s" % ent["tag"], [], fl, kind="closed", key=ent["key"], kernels=[kl.name], note="::length == number of characters"))
        for ent in self.maglabels:
            self.label_obligations(K, obs, ent, "mag_label")
        # ---- unit labels
        for ent in self.labels:
            fam = "label"
            if ent["inherits"]:
                ent["key"] = dict(ent["key"], derived_from_scaled_unit_without_label=True)
            self.label_obligations(K, obs, ent, fam)
        # determinism: re-spelled expressions print exactly what the original prints
        by_cxx = {e["x"].cxx: e for e in self.labels}
        for ent in self.labels:
            if ent["same_as"] is None or "read_back" not in ent:
                continue
            o = by_cxx.get(ent["same_as"].cxx)
            if o is None or "read_back" not in o:
                continue
            same = ent["read_back"] is not None and ent["read_back"] == o["read_back"]

            def fd(K, a=ent, b=o):
                ra, rb = self.readback(K, a["kc"], a["kz"]), self.readback(K, b["kc"], b["kz"])
                return T.TRUE, T.const_bool(ra is not None and ra == rb)
            obs.append(F.Ob("label_deterministic:%s=%s" % (ent["tag"], o["tag"]), [], fd, kind="closed",
                            key={"a": ent["x"].cxx, "b": o["x"].cxx, "label_a": ent["read_back"], "label_b": o["read_back"]},
                            kernels=[ent["kc"].name, ent["kz"].name, o["kc"].name, o["kz"].name], note="two spellings of one unit print the same label"))
        # ---- distinctness: different (dimension, magnitude) => different label
        ents = [e for e in self.labels if "text" in e]
        npairs = 0
        exempt = 0
        for a, b in itertools.combinations(ents, 2):
            if a["unit"].dim == b["unit"].dim and a["unit"].mag == b["unit"].mag:
                continue
            generic = lambda t: (UNLABELED in t) or (UNLABELED_MAG in t)
            if a["text"] == b["text"] and generic(a["text"]):
                exempt += 1
                continue
            npairs += 1
            model_differs = a["text"] != b["text"]

            def fp(K, a=a, b=b, model_differs=model_differs):
                ra, rb = self.readback(K, a["kc"], a["kz"]), self.readback(K, b["kc"], b["kz"])
                return T.TRUE, T.const_bool(bool(model_differs and ra is not None and rb is not None and ra != rb))
            key = {"a": a["x"].cxx, "b": b["x"].cxx, "label_a": a["read_back"], "label_b": b["read_back"], "grammar_a": a["text"], "grammar_b": b["text"]}
            if a["inherits"] or b["inherits"]:
                key["derived_from_scaled_unit_without_label"] = True
            obs.append(F.Ob("distinct:%s|%s" % (a["tag"], b["tag"]), [], fp, kind="closed", key=key,
                            kernels=[a["kc"].name, a["kz"].name, b["kc"].name, b["kz"].name],
                            note="units of different magnitude or dimension never share a label"))
        self.npairs = npairs
        self.extra_cov["distinctness"] = {"pairs_checked": npairs, "pairs_exempt_generic_marker": exempt}
        return obs

    def known_predicates(self):
        def d10(ob, vs):
            # a named unit derived from a ScaledUnit inherits the `label` member of the unit it scales (unit_of_measure.hh ScaledUnit : Unit)
            if ob.key.get("derived_from_scaled_unit_without_label"):
                return T.TRUE
            return None
        return {"D10": d10}


CHECK = C18
