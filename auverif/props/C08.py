"""C08 - Mixed-unit comparison, addition, subtraction and modulo are exact (DESIGN.md section 6, C08)."""
from fractions import Fraction
from math import gcd
from .. import framework as F
from .. import terms as T
from .C05 import common_type


def runit(fr):
    """unit expression for Meters scaled by rational fr"""
    s = "Meters{}"
    if fr.numerator != 1:
        s += " * mag<%dull>()" % fr.numerator
    if fr.denominator != 1:
        s += " / mag<%dull>()" % fr.denominator
    return "decltype(%s)" % s


def gcd_frac(a, b):
    return Fraction(gcd(a.numerator * b.denominator, b.numerator * a.denominator), a.denominator * b.denominator)


RATIO_PAIRS = [  # (scale of U1, scale of U2) relative to Meters
    (Fraction(1), Fraction(1)), (Fraction(1000), Fraction(1)), (Fraction(1), Fraction(1000)), (Fraction(3), Fraction(7)),
    (Fraction(1, 3), Fraction(1, 7)), (Fraction(2, 3), Fraction(5, 7)), (Fraction(12), Fraction(1)),
    (Fraction(381, 1250), Fraction(1)), (Fraction(1, 12), Fraction(381, 1250)), (Fraction(60), Fraction(3600)),
    (Fraction(5, 9), Fraction(1)), (Fraction(1024), Fraction(1000)), (Fraction(15), Fraction(1)), (Fraction(1), Fraction(16)),
    (Fraction(10 ** 6), Fraction(1)), (Fraction(1, 10 ** 6), Fraction(1, 10 ** 3)),
]
LIB_PAIRS = [("Feet", "Inches", Fraction(12), Fraction(1)), ("Meters", "Feet", Fraction(1250), Fraction(381)),
             ("Hours", "Minutes", Fraction(60), Fraction(1)), ("Miles", "Yards", Fraction(1760), Fraction(1)),
             ("Minutes", "Days", Fraction(1), Fraction(1440))]
REP_PAIRS_Q = [("int32_t", "int32_t"), ("int64_t", "int64_t"), ("int16_t", "int32_t"), ("int32_t", "int64_t"),
               ("uint32_t", "uint32_t"), ("uint64_t", "uint64_t"), ("uint16_t", "uint32_t"), ("int16_t", "int16_t"),
               ("int64_t", "int16_t"), ("uint8_t", "uint64_t"),
               ("long long", "int32_t"), ("unsigned long long", "unsigned long long")]     # distinct types of int64_t / uint64_t width
REP_PAIRS_T = REP_PAIRS_Q + [("int8_t", "int8_t"), ("int8_t", "int32_t"), ("uint8_t", "uint8_t"), ("uint16_t", "uint16_t"),
                             ("uint32_t", "uint64_t"), ("uint64_t", "uint16_t"), ("int32_t", "int16_t"), ("int8_t", "int64_t")]
CMPS = [("eq", "=="), ("ne", "!="), ("lt", "<"), ("le", "<="), ("gt", ">"), ("ge", ">=")]


class C08(F.Check):
    pid = "C08"
    level = "model_checking"
    assumptions = [
        "clang 14 front end and -O1 pipeline, own LLVM-IR->SMT encoder, z3 5.1 / cvc5 1.0.3 are trusted",
        "unit pairs are an enumerated grid (generated rational scalings of Meters plus library pairs); rep pairs of equal signedness",
        "k1, k2 (input unit / common unit) come from an independent gcd-of-rationals model, not from Au",
        "only pairs whose implicit conversion to the common type the policy permits compile; others are dropped and counted",
        "floating reps: decided as formula equivalence: comparison / + / - equal the raw IEEE operation on the operands scaled to the common unit, and each scaling is a single "
        "multiplication by the exact integer k from the model; the 'few ulp' consequence is a paper argument on that formula (two roundings per operand path), not a solver result",
        "% is compared with the raw operator on the exactly scaled operands (same trap condition: divisor 0, INT_MIN % -1)",
        "<=> kernels are lowered at -std=c++20 (clang only)",
    ]

    def bounds(self):
        return {"stored values": "all (x, y) pairs of the two reps", "unit pairs": len(RATIO_PAIRS) + len(LIB_PAIRS),
                "rep pairs": len(REP_PAIRS_Q if self.tier == "quick" else REP_PAIRS_T)}

    def kernels(self):
        ks = []
        self.inst = []
        rep_pairs = REP_PAIRS_Q if self.tier == "quick" else REP_PAIRS_T
        upairs = [(runit(a), runit(b), a / gcd_frac(a, b), b / gcd_frac(a, b), "%s|%s" % (a, b)) for a, b in RATIO_PAIRS]
        upairs += [(a, b, k1, k2, "%s|%s" % (a, b)) for a, b, k1, k2 in LIB_PAIRS]
        # the same scaled units written with a redundant factor one: 3 m as 3/1 m, 3 m * 1, (1/12 ft) / 1 - alternative spellings, same unit
        upairs += [("decltype(Meters{} * mag<3>() / mag<1>())", "Meters", Fraction(3), Fraction(1), "3/1 m|m"),
                   ("decltype(Meters{} * mag<3>() * mag<1>())", "decltype(Meters{} * mag<2>())", Fraction(3), Fraction(2), "3 m * 1|2 m"),
                   ("decltype(Feet{} / mag<12>() / mag<1>())", "Feet", Fraction(1), Fraction(12), "(ft/12)/1|ft")]
        for ui, (u1, u2, k1, k2, lab) in enumerate(upairs):
            k1, k2 = int(k1), int(k2)
            for ri, (r1, r2) in enumerate(rep_pairs):
                if self.tier == "quick" and (ui + ri) % 3 and ui >= 3:
                    continue
                cr = common_type(r1, r2)
                hi = F.ct_range(cr)[1]
                # implicit-conversion policy (documented): 2147 * k <= max(common rep); skip what cannot compile
                if 2147 * k1 > hi or 2147 * k2 > hi:
                    continue
                pr = F.promoted(cr)
                tag = "%d_%s_%s" % (ui, r1.replace("_t", "").replace(" ", ""), r2.replace("_t", "").replace(" ", ""))
                key = {"U1|U2": lab, "k1": k1, "k2": k2, "R1": r1, "R2": r2, "common_rep": cr}
                a = "make_quantity<%s>(x)" % u1
                b = "make_quantity<%s>(y)" % u2
                args = [(r1, "x"), (r2, "y")]
                names = {}
                for nm, op in CMPS:
                    k = F.Kernel("c08_%s_%s" % (nm, tag), "bool", args, "return %s %s %s;" % (a, op, b), key=key, family="cmp_" + nm)
                    ks.append(k)
                    names[nm] = k.name
                for nm, op in (("add", "+"), ("sub", "-"), ("mod", "%")):
                    k = F.Kernel("c08_%s_%s" % (nm, tag), pr, args,
                                 "auto r = %s %s %s; return r.in(decltype(r)::unit);" % (a, op, b), key=key, family=nm)
                    ks.append(k)
                    names[nm] = k.name
                for nm, op in (("sl", "< 0"), ("se", "== 0"), ("sg", "> 0")):
                    k = F.Kernel("c08_%s_%s" % (nm, tag), "bool", args, "return (%s <=> %s) %s;" % (a, b, op), key=key,
                                 family="spaceship", std="c++20")
                    ks.append(k)
                    names[nm] = k.name
                self.inst.append((r1, r2, cr, pr, k1, k2, names, tag, key))
        # floating reps: formula equivalence (DESIGN.md C08): op(q1, q2) == raw op on (x (*) k1, y (*) k2), k exact integers
        self.finst = []
        fpairs = [("double", "double")] if self.tier == "quick" else [("double", "double"), ("float", "float"), ("float", "double")]
        # long double with scale factors that need more than 53 bits (exact in the 64-bit significand, not in double): the factor must be
        # applied in the rep itself
        big = [("Yotta<Meters>", "Meters", 10 ** 24, 1, "Ym|m"), ("decltype(Meters{} * mag<16677181699666569ull>())", "Meters", 3 ** 34, 1, "3^34 m|m"),
               ("Meters", "decltype(Meters{} * mag<9007199254740993ull>())", 1, 2 ** 53 + 1, "m|(2^53+1) m")]
        if self.tier == "quick":
            big = big[:2]
        todo = [(ui, p_, fpairs) for ui, p_ in enumerate(upairs) if not (self.tier == "quick" and ui % 2)]
        todo += [(1000 + bi, p_, [("long double", "long double")]) for bi, p_ in enumerate(big)]
        for ui, (u1, u2, k1, k2, lab), fps in todo:
            k1, k2 = int(k1), int(k2)
            for r1, r2 in fps:
                cr = common_type(r1, r2)
                tag = "f%d_%s_%s" % (ui, r1.replace(" ", ""), r2.replace(" ", ""))
                key = {"U1|U2": lab, "k1": k1, "k2": k2, "R1": r1, "R2": r2, "common_rep": cr}
                cu = "CommonUnitT<%s, %s>" % (u1, u2)
                a = "make_quantity<%s>(x)" % u1
                b = "make_quantity<%s>(y)" % u2
                args = [(r1, "x"), (r2, "y")]
                names = {}
                for nm, body, rt, ar in (
                        ("c1", "return rep_cast<%s>(%s).in(%s{});" % (cr, a, cu), cr, [(r1, "x")]),
                        ("c2", "return rep_cast<%s>(%s).in(%s{});" % (cr, b, cu), cr, [(r2, "y")]),
                        ("flt", "return %s < %s;" % (a, b), "bool", args), ("feq", "return %s == %s;" % (a, b), "bool", args),
                        ("fle", "return %s <= %s;" % (a, b), "bool", args),
                        ("fadd", "auto r = %s + %s; return r.in(decltype(r)::unit);" % (a, b), cr, args),
                        ("fsub", "auto r = %s - %s; return r.in(decltype(r)::unit);" % (a, b), cr, args)):
                    k = F.Kernel("c08_%s_%s" % (nm, tag), rt, ar, body, key=key, family="float_" + nm)
                    ks.append(k)
                    names[nm] = k.name
                for nm, op in (("fsl", "< 0"), ("fse", "== 0"), ("fsg", "> 0")):
                    k = F.Kernel("c08_%s_%s" % (nm, tag), "bool", args, "return (%s <=> %s) %s;" % (a, b, op), key=key,
                                 family="float_spaceship", std="c++20")
                    ks.append(k)
                    names[nm] = k.name
                self.finst.append((r1, r2, cr, k1, k2, names, tag, key))
        return ks

    def obligations(self, K):
        obs = []
        for r1, r2, cr, pr, k1, k2, names, tag, key in self.inst:
            w1, w2 = F.CTYPES[r1][1], F.CTYPES[r2][1]
            xs = [("x", T.BV(w1)), ("y", T.BV(w2))]
            clo, chi = F.ct_range(cr)
            plo, phi = F.ct_range(pr)
            signed = F.ct_signed(pr)      # the raw operator works in the PROMOTED type: uint8/uint16 promote to (signed) int
            pw = F.CTYPES[pr][1]

            def scaled(x, y, r1=r1, r2=r2, k1=k1, k2=k2, clo=clo, chi=chi):
                a = T.imul(F.ival(r1, x), T.const_int(k1))
                b = T.imul(F.ival(r2, y), T.const_int(k2))
                pre = T.and_(T.in_range(a, clo, chi), T.in_range(b, clo, chi))
                return a, b, pre
            dropped = [nm for nm in names if K[names[nm]].kernel.dropped]
            for nm, op in CMPS:
                if nm in dropped:
                    continue

                def fn(K, x, y, nm=nm, names=names, scaled=scaled):
                    a, b, pre = scaled(x, y)
                    e = K[names[nm]](x, y)
                    exp = {"eq": T.eq(a, b), "ne": T.ne(a, b), "lt": T.ilt(a, b), "le": T.ile(a, b), "gt": T.ilt(b, a),
                           "ge": T.ile(b, a)}[nm]
                    return pre, T.and_(T.not_(e.ub), T.eq(e.ret, exp))
                obs.append(F.Ob("cmp_%s:%s" % (nm, tag), xs, fn, key=key, kernels=[names[nm]],
                                note="scaled operands fit the common rep => no UB and comparison equals exact order of x*k1, y*k2"))
            for nm in ("add", "sub"):
                if nm in dropped:
                    continue

                def fn(K, x, y, nm=nm, names=names, scaled=scaled, signed=signed, plo=plo, phi=phi, pr=pr, pw=pw):
                    a, b, pre = scaled(x, y)
                    e = K[names[nm]](x, y)
                    exact = T.iadd(a, b) if nm == "add" else T.isub(a, b)
                    if signed:
                        fits = T.in_range(exact, plo, phi)
                        post = T.and_(T.eq(e.ub, T.not_(fits)), T.or_(e.ub, T.eq(F.ival(pr, e.ret), exact)))
                    else:
                        post = T.and_(T.not_(e.ub), T.eq(F.ival(pr, e.ret), T.imod(exact, T.const_int(1 << pw))))
                    return pre, post
                obs.append(F.Ob("%s:%s" % (nm, tag), xs, fn, key=key, kernels=[names[nm]],
                                note="result (in the result's own unit) equals exact x*k1 +/- y*k2; traps exactly when the raw "
                                     "operator on the scaled values would (signed overflow); unsigned wraps like the raw operator"))
            if "mod" not in dropped:
                def fn(K, x, y, names=names, scaled=scaled, signed=F.ct_signed(cr), r1=r1, r2=r2, k1=k1, k2=k2, pw=pw, crw=F.CTYPES[cr][1]):
                    a, b, pre = scaled(x, y)
                    e = K[names["mod"]](x, y)
                    ext = (T.sext if signed else T.zext)
                    A = T.bvop("bvmul", ext(x, pw) if T.width(x) <= pw else T.trunc(x, pw), T.const_bv(k1, pw))
                    B = T.bvop("bvmul", ext(y, pw) if T.width(y) <= pw else T.trunc(y, pw), T.const_bv(k2, pw))
                    if crw < pw:
                        # a sub-int common rep stores the scaled value narrowed; equal to the above whenever pre holds
                        A = ext(T.trunc(A, crw), pw)
                        B = ext(T.trunc(B, crw), pw)
                    ub = T.eq(B, T.const_bv(0, pw))
                    if signed:
                        ub = T.or_(ub, T.and_(T.eq(A, T.const_bv(1 << (pw - 1), pw)), T.eq(B, T.const_bv(-1, pw))))
                    ref = T.bvop("bvsrem" if signed else "bvurem", A, B)
                    return pre, T.and_(T.eq(e.ub, ub), T.or_(ub, T.eq(e.ret, ref)))
                obs.append(F.Ob("mod:%s" % tag, xs, fn, key=key, kernels=[names["mod"]], routes=F.CMP_ROUTES + ["cvc5-bvint"],
                                note="q1 % q2 equals the raw % of the exactly scaled operands, same trap condition"))
            if not any(n in dropped for n in ("sl", "se", "sg")):
                def fn(K, x, y, names=names, scaled=scaled):
                    a, b, pre = scaled(x, y)
                    sl, se, sg = K[names["sl"]](x, y), K[names["se"]](x, y), K[names["sg"]](x, y)
                    return pre, T.and_(T.not_(T.or_(sl.ub, se.ub, sg.ub)), T.eq(sl.ret, T.ilt(a, b)), T.eq(se.ret, T.eq(a, b)),
                                       T.eq(sg.ret, T.ilt(b, a)))
                obs.append(F.Ob("spaceship:%s" % tag, xs, fn, key=key, kernels=[names["sl"], names["se"], names["sg"]],
                                note="C++20 <=> agrees with the exact order (hence with the six operators)"))
            for nm in dropped:
                self.extra_cov.setdefault("dropped_kernels", {}).setdefault(nm, 0)
                self.extra_cov["dropped_kernels"][nm] += 1
        # ---- floating reps
        from fractions import Fraction as Fr
        from .. import fpeval
        for r1, r2, cr, k1, k2, names, tag, key in self.finst:
            if any(K[n].kernel.dropped for n in names.values()):
                self.extra_cov["float_instances_dropped"] = self.extra_cov.get("float_instances_dropped", 0) + 1
                continue
            fc = F.FMT_OF[cr]
            wc = T.fmt_width(fc)
            w1, w2 = T.fmt_width(F.FMT_OF[r1]), T.fmt_width(F.FMT_OF[r2])
            for ci, (cn, rr, kk, ww) in enumerate((("c1", r1, k1, w1), ("c2", r2, k2, w2))):
                kconst = T.const_bv(fpeval.from_fraction(fc, Fr(kk)), wc)
                exact_k = fpeval.to_fraction(fc, kconst.attr) == Fr(kk)

                def fnc(K, x, cn=cn, names=names, rr=rr, fc=fc, kconst=kconst, kk=kk):
                    e = K[names[cn]](x)
                    xc = T.fp_cvt(F.FMT_OF[rr], fc, x)
                    exp = xc if kk == 1 else T.fp_bin("mul", fc, xc, kconst)
                    same = T.or_(T.eq(e.ret, exp), T.and_(T.fp_isnan(fc, e.ret), T.fp_isnan(fc, exp)))
                    return T.TRUE, T.and_(T.not_(e.ub), same)
                if exact_k:
                    obs.append(F.Ob("fconv_%s:%s" % (cn, tag), [("x", T.BV(ww))], fnc, key=key, kernels=[names[cn]], routes=F.FP_ROUTES,
                                    note="scaling to the common unit is one IEEE multiplication by the exact integer k (model), after widening to the common rep"))
            for nm, pred in (("flt", "olt"), ("feq", "oeq"), ("fle", "ole")):
                def fnp(K, x, y, nm=nm, pred=pred, names=names, fc=fc):
                    e = K[names[nm]](x, y)
                    a_, b_ = K[names["c1"]](x), K[names["c2"]](y)
                    return T.TRUE, T.and_(T.not_(e.ub), T.eq(e.ret, T.fp_cmp(pred, fc, a_.ret, b_.ret)))
                obs.append(F.Ob("%s:%s" % (nm, tag), [("x", T.BV(w1)), ("y", T.BV(w2))], fnp, key=key, routes=F.FP_ROUTES,
                                kernels=[names[nm], names["c1"], names["c2"]],
                                note="comparison == raw comparison of the operands scaled to the common unit"))
            for nm, pred in (("fsl", "olt"), ("fse", "oeq"), ("fsg", "ogt")):
                def fns(K, x, y, nm=nm, pred=pred, names=names, fc=fc):
                    e = K[names[nm]](x, y)
                    a_, b_ = K[names["c1"]](x), K[names["c2"]](y)
                    return T.TRUE, T.and_(T.not_(e.ub), T.eq(e.ret, T.fp_cmp(pred, fc, a_.ret, b_.ret)))
                obs.append(F.Ob("%s:%s" % (nm, tag), [("x", T.BV(w1)), ("y", T.BV(w2))], fns, key=key, routes=F.FP_ROUTES,
                                kernels=[names[nm], names["c1"], names["c2"]],
                                note="C++20 (a <=> b) <0 / ==0 / >0 equals the IEEE <, ==, > of the scaled operands (partial order: NaN unordered, -0 == +0)"))
            for nm, op in (("fadd", "add"), ("fsub", "sub")):
                def fna(K, x, y, nm=nm, op=op, names=names, fc=fc):
                    e = K[names[nm]](x, y)
                    a_, b_ = K[names["c1"]](x), K[names["c2"]](y)
                    exp = T.fp_bin(op, fc, a_.ret, b_.ret)
                    same = T.or_(T.eq(e.ret, exp), T.and_(T.fp_isnan(fc, e.ret), T.fp_isnan(fc, exp)))
                    return T.TRUE, T.and_(T.not_(e.ub), same)
                obs.append(F.Ob("%s:%s" % (nm, tag), [("x", T.BV(w1)), ("y", T.BV(w2))], fna, key=key, routes=F.FP_ROUTES,
                                kernels=[names[nm], names["c1"], names["c2"]],
                                note="sum/difference == one IEEE operation on the operands scaled to the common unit"))
        return obs


CHECK = C08
