"""C17 - std::chrono durations round-trip through quantities unchanged (DESIGN.md section 6, C17).

Value half: round trips duration -> quantity -> duration are bit-identities; mixed duration/quantity comparisons, sums and
differences equal the same operation done between two std::chrono durations (reference kernel in the same TU) whenever
chrono's own computation does not overflow.  Closed half: rep/unit/period facts of the mapping, and the implicit
acceptance of a duration by a quantity type == acceptance of the corresponding quantity == the model predicate."""
from fractions import Fraction
from math import gcd
from .. import framework as F
from .. import terms as T

# name -> (C++ period type, Fraction seconds)
PERIODS = {
    "nano": ("std::nano", Fraction(1, 10 ** 9)),
    "micro": ("std::micro", Fraction(1, 10 ** 6)),
    "milli": ("std::milli", Fraction(1, 1000)),
    "one": ("std::ratio<1>", Fraction(1)),
    "r60": ("std::ratio<60>", Fraction(60)),
    "r3600": ("std::ratio<3600>", Fraction(3600)),
    "r1_60": ("std::ratio<1, 60>", Fraction(1, 60)),
    "r1001_30000": ("std::ratio<1001, 30000>", Fraction(1001, 30000)),
    "r86400": ("std::ratio<86400>", Fraction(86400)),
    # thorough
    "pico": ("std::pico", Fraction(1, 10 ** 12)),
    "kilo": ("std::kilo", Fraction(1000)),
    "r7_3": ("std::ratio<7, 3>", Fraction(7, 3)),
    "r604800": ("std::ratio<604800>", Fraction(604800)),
    "r1_44100": ("std::ratio<1, 44100>", Fraction(1, 44100)),
    "r2_4": ("std::ratio<2, 4>", Fraction(1, 2)),          # not in lowest terms: Period::type is ratio<1,2>
}
QUICK_PERIODS = ["nano", "micro", "milli", "one", "r60", "r3600", "r1_60", "r1001_30000", "r86400"]
# au time units used on the quantity side: name -> (maker, unit type, Fraction seconds)   [SI definitions]
QUNITS = {
    "ns": ("nano(seconds)", "Nano<Seconds>", Fraction(1, 10 ** 9)),
    "us": ("micro(seconds)", "Micro<Seconds>", Fraction(1, 10 ** 6)),
    "ms": ("milli(seconds)", "Milli<Seconds>", Fraction(1, 1000)),
    "s": ("seconds", "Seconds", Fraction(1)),
    "min": ("minutes", "Minutes", Fraction(60)),
    "h": ("hours", "Hours", Fraction(3600)),
    "d": ("days", "Days", Fraction(86400)),
    "frame": ("make_quantity<decltype(Seconds{} * mag<1001>() / mag<30000>())>", "decltype(Seconds{} * mag<1001>() / mag<30000>())",
              Fraction(1001, 30000)),
}
# the six typedefs for which chrono_interop.hh maps to a named (prefixed) unit instead of Seconds * N / D
SPECIAL = {("int64_t", "nano"): "Nano<Seconds>", ("int64_t", "micro"): "Micro<Seconds>", ("int64_t", "milli"): "Milli<Seconds>",
           ("int64_t", "one"): "Seconds", ("int64_t", "r60"): "Minutes", ("int64_t", "r3600"): "Hours"}
OVERFLOW_THRESHOLD = 2147     # smallest value every implicit integral conversion must be able to hold (policy constant)


def sfx(ct):
    return {"int16_t": "i16", "int32_t": "i32", "uint32_t": "u32", "int64_t": "i64", "uint64_t": "u64", "float": "f",
            "double": "d", "long double": "ld"}[ct]


def is_int(ct):
    return not F.ct_is_float(ct)


def common_ct(a, b):
    """std::common_type of two arithmetic types (no promotion when equal)"""
    if a == b:
        return a
    for f in ("long double", "double", "float"):
        if a == f or b == f:
            return f
    (ka, wa, _), (kb, wb, _) = F.CTYPES[a], F.CTYPES[b]
    a2, b2 = F.promoted(a), F.promoted(b)
    if a2 == b2:
        return a2
    (ka, wa, _), (kb, wb, _) = F.CTYPES[a2], F.CTYPES[b2]
    if ka == kb:
        return a2 if wa >= wb else b2
    u, s = (a2, b2) if ka == "u" else (b2, a2)
    return u if F.CTYPES[u][1] >= F.CTYPES[s][1] else s


def fgcd(p, q):
    """gcd of two positive rationals: the largest r with p/r and q/r both integers"""
    return Fraction(gcd(p.numerator * q.denominator, q.numerator * p.denominator), p.denominator * q.denominator)


def unit_cxx(p):
    e = "Seconds{}"
    if p.numerator != 1:
        e += " * mag<%dull>()" % p.numerator
    if p.denominator != 1:
        e += " / mag<%dull>()" % p.denominator
    return "decltype(%s)" % e


def dur(ct, pname):
    return "std::chrono::duration<%s, %s>" % (ct, PERIODS[pname][0])


def dur_ratio(ct, p):
    return "std::chrono::duration<%s, std::ratio<%d, %d>>" % (ct, p.numerator, p.denominator)


def implicit_ok(src_p, src_rep, dst_p, dst_rep):
    """model of 'Quantity<dst unit, dst rep> implicitly accepts Quantity<src unit, src rep>' for two time units.
    Returns True/False, or None where the integer factor itself is not representable in the destination rep: the policy's
    answer is then 'no', but on a tree with finding D3 evaluating the trait is a hard error instead."""
    if F.ct_is_float(dst_rep):
        return True
    if F.ct_is_float(src_rep):
        return False
    f = src_p / dst_p
    if f == 1:
        return True                      # identity, or the integer-promotion carve-out (any two integral reps)
    if f.denominator != 1:
        return False
    hi = F.ct_range(dst_rep)[1]
    if hi < OVERFLOW_THRESHOLD:
        return False
    if f.numerator > hi:
        return None
    return hi // f.numerator >= OVERFLOW_THRESHOLD


OPS = [("lt", "<"), ("le", "<="), ("gt", ">"), ("ge", ">="), ("eq", "=="), ("ne", "!="), ("add", "+"), ("sub", "-")]


class C17(F.Check):
    pid = "C17"
    level = "translation_validation"
    assumptions = [
        "clang 14 front end and -O1 pipeline, own LLVM-IR->SMT encoder, z3 5.1 / cvc5 1.0.3 are trusted",
        "std::chrono is libstdc++ 12's <chrono>, lowered by the same compiler in the same TU; it is the reference, not a subject",
        "quantifier over (Rep, Period) and over (duration period, quantity unit, rep pair) is an enumerated grid, not symbolic",
        "'chrono's own computation does not overflow' is read as: the chrono reference kernel reaches no UB trap, and - for a "
        "32-bit common rep, where libstdc++ converts in intmax_t and then narrows silently - the exactly converted operands "
        "x*F1 and y*F2 are representable in the common rep (F1, F2 from the model's gcd of the two periods)",
        "mixed operations whose conversion to the common unit is refused by the implicit-conversion policy do not compile and "
        "are outside the claim (predicted by the model, counted); sub-int and unsigned reps are not used in mixed operations",
        "sums/differences are read back with .in(<model's common unit: seconds x gcd of the periods>) on the au side and "
        ".count() of chrono's common_type duration (period ratio<gcd(n1,n2), lcm(d1,d2)>) on the reference side; the two "
        "units are equal by construction of the model (asserted in Python, and closed kernels compare the period)",
        "floating reps, operators <= and >=: NaN counts are excluded (libstdc++ defines a <= b as !(b < a), which is true for a "
        "NaN operand, whereas au compares the converted values with the IEEE operator, which is false); all other operators "
        "are claimed for every bit pattern including NaN",
        "x87 long double modelled as (_ FloatingPoint 15 64)",
    ]

    def bounds(self):
        return {"stored values": "every bit pattern of every argument (no bound)", "reps": self.reps, "periods": self.periods,
                "mixed pairs (duration period, quantity unit)": ["%s,%s" % p for p in self.mixed_pairs],
                "mixed rep pairs": ["%s x %s" % p for p in self.mixed_reps], "ops": [o for _, o in OPS], "unwind": 0}

    def grid(self):
        th = self.tier == "thorough"
        self.reps = ["int32_t", "int64_t", "float", "double"] + (["int16_t", "uint32_t", "uint64_t", "long double"] if th else [])
        self.periods = list(QUICK_PERIODS) + (["pico", "kilo", "r7_3", "r604800", "r1_44100", "r2_4"] if th else [])
        self.mixed_pairs = [("milli", "s"), ("one", "ms"), ("r60", "s"), ("one", "min"), ("r1_60", "ms"), ("r1001_30000", "ms"),
                            ("nano", "ms"), ("r3600", "min"), ("milli", "ms"), ("r86400", "min")]
        if th:
            self.mixed_pairs += [("micro", "s"), ("r3600", "s"), ("nano", "h"), ("r1001_30000", "frame"), ("one", "frame"),
                                 ("r7_3", "min"), ("r1_44100", "ms"), ("kilo", "h"), ("r604800", "d"), ("milli", "us"),
                                 ("r60", "h"), ("r1_60", "s"), ("one", "s"), ("pico", "ns"), ("r2_4", "s")]
        self.mixed_reps = [(r, r) for r in ("int32_t", "int64_t", "float", "double")] + [("int32_t", "int64_t"), ("int64_t", "double")]
        if th:
            self.mixed_reps += [("long double", "long double"), ("float", "double"), ("int64_t", "int32_t"), ("double", "int32_t"),
                                ("int32_t", "float")]

    # ------------------------------------------------------------------------------------------------------------
    def kernels(self):
        self.grid()
        ks = []
        self.ident = []      # (tag, kernel, ct, key, note)
        self.mixed = []      # (tag, au, ref, (r1, r2), ret ct, opname, F1, F2, key, expect_compile)
        self.closed = []     # (kernel, expected bool or None(=must be dropped), note, key)

        # ---- round trips (identity kernels)
        for ct in self.reps:
            for pn in self.periods:
                pt, pv = PERIODS[pn]
                D = dur(ct, pn)
                tag = "%s_%s" % (sfx(ct), pn)
                key = {"rep": ct, "period": pt}
                a1 = [(ct, "x")]
                uq = unit_cxx(pv)
                for fam, body, note in (
                        ("rt", "%s d{x}; auto q = as_quantity(d); %s d2 = q; return d2.count();" % (D, D),
                         "duration -> as_quantity -> implicit conversion back: count unchanged bit-for-bit, no UB"),
                        ("rtc", "%s d{x}; auto d2 = as_chrono_duration(as_quantity(d)); return d2.count();" % D,
                         "duration -> as_quantity -> as_chrono_duration: count unchanged bit-for-bit, no UB"),
                        ("in", "%s d{x}; return as_quantity(d).in(%s{});" % (D, uq),
                         "as_quantity(d).in(seconds x Period) == d.count()"),
                        ("ctor", "%s d{x}; Quantity<%s, %s> q = d; return q.in(%s{});" % (D, uq, ct, uq),
                         "implicit construction of Quantity<seconds x Period, Rep> from the duration keeps the count"),
                        ("back", "Quantity<%s, %s> q = make_quantity<%s>(x); %s d = q; return d.count();" % (uq, ct, uq, D),
                         "Quantity<seconds x Period, Rep> -> duration keeps the value"),
                ):
                    k = F.Kernel("c17_%s_%s" % (fam, tag), ct, a1, body, key=dict(key, form=fam), family=fam)
                    ks.append(k)
                    self.ident.append(("%s_%s" % (fam, tag), k.name, ct, dict(key, form=fam), note))

        # ---- the C++20 calendar durations (std::chrono::days / weeks / months / years), lowered at -std=c++20: a mapping keyed on these
        # exact types must still be "seconds x Period" (days 86400, weeks 604800, months 2629746, years 31556952)
        for dn, per in (("days", 86400), ("weeks", 604800), ("months", 2629746), ("years", 31556952)):
            D = "std::chrono::%s" % dn
            ct = "int64_t"         # libstdc++: duration<int64_t, ratio<N>>; checked by the closed fact below
            uq = unit_cxx(Fraction(per))
            key = {"rep": ct, "period": "std::ratio<%d>" % per, "duration": D, "std": "c++20"}
            a1 = [(ct, "x")]
            for fam, body, note in (
                    ("rt", "%s d{x}; auto q = as_quantity(d); %s d2 = q; return d2.count();" % (D, D),
                     "C++20 calendar duration -> as_quantity -> back: count unchanged"),
                    ("rtc", "%s d{x}; auto d2 = as_chrono_duration(as_quantity(d)); return d2.count();" % D,
                     "C++20 calendar duration -> as_quantity -> as_chrono_duration: count unchanged"),
                    ("in", "%s d{x}; return as_quantity(d).in(%s{});" % (D, uq), "as_quantity(d).in(seconds x Period) == d.count()"),
                    ("in_s", "%s d{x}; return as_quantity(d).coerce_in(seconds) - x * %dLL;" % (D, per),
                     "as_quantity(d) expressed in seconds is count x Period (difference to x*Period is 0; inputs where x*Period overflows excluded by UB parity)")):
                k = F.Kernel("c17_%s_cxx20_%s" % (fam, dn), ct, a1, body, key=dict(key, form=fam), family=fam, std="c++20")
                ks.append(k)
                if fam != "in_s":
                    self.ident.append(("%s_cxx20_%s" % (fam, dn), k.name, ct, dict(key, form=fam), note))
                else:
                    self.cal_in_s = getattr(self, "cal_in_s", []) + [(k.name, per, dict(key, form=fam))]
            k = F.Kernel("c17_cl_cxx20_type_%s" % dn, "bool", [],
                         "return std::is_same<decltype(as_chrono_duration(as_quantity(%s{}))), %s>::value && std::is_same<%s::rep, int64_t>::value "
                         "&& std::is_same<typename decltype(as_quantity(%s{}))::Unit, %s>::value;" % (D, D, D, D, uq) if False else
                         "return std::is_same<decltype(as_chrono_duration(as_quantity(%s{}))), %s>::value && std::is_same<%s::rep, int64_t>::value "
                         "&& are_units_quantity_equivalent(typename decltype(as_quantity(%s{}))::Unit{}, %s{});" % (D, D, D, D, uq),
                         key=key, family="closed", std="c++20")
            ks.append(k)
            self.closed.append((k.name, True, "as_chrono_duration(as_quantity(d)) is the same duration type; the quantity's unit is seconds x Period", key))

        # ---- mixed operations
        for (pn, qn) in self.mixed_pairs:
            pt, pv = PERIODS[pn]
            qm, qt, qv = QUNITS[qn]
            cu = fgcd(pv, qv)
            # chrono's common period for reduced ratios: gcd(n1,n2)/lcm(d1,d2) -- must be the same unit as the model's gcd
            n1, d1, n2, d2 = pv.numerator, pv.denominator, qv.numerator, qv.denominator
            assert Fraction(gcd(n1, n2), d1 * d2 // gcd(d1, d2)) == cu
            f1, f2 = pv / cu, qv / cu
            assert f1.denominator == 1 and f2.denominator == 1
            f1, f2 = int(f1), int(f2)
            for (r1, r2) in self.mixed_reps:
                if r1 != r2 and (pn, qn) not in self.mixed_pairs[:4] and self.tier != "thorough":
                    continue
                rc = common_ct(r1, r2)
                # model: both operands must be implicitly convertible (in the common rep) to the common unit
                ok1 = implicit_ok(pv, rc, cu, rc)
                ok2 = implicit_ok(qv, rc, cu, rc)
                expect = bool(ok1) and bool(ok2)       # None (factor not representable at all) is refused as well
                A = dur(r1, pn)
                B = dur_ratio(r2, qv)
                for order in ("dq", "qd"):
                    for on, op in OPS:
                        arith = on in ("add", "sub")
                        ret = rc if arith else "bool"
                        if arith and is_int(rc) and F.CTYPES[rc][1] < 32:
                            continue
                        tag = "%s_%s_%s_%s_%s_%s" % (order, on, pn, qn, sfx(r1), sfx(r2))
                        key = {"period": pt, "qunit": qn, "rep_d": r1, "rep_q": r2, "op": op, "order": "d op q" if order == "dq" else "q op d"}
                        args = [(r1, "x"), (r2, "y")]
                        if order == "dq":
                            e_au = "%s{x} %s %s(y)" % (A, op, qm)
                            e_rf = "%s{x} %s %s{y}" % (A, op, B)
                        else:
                            e_au = "%s(y) %s %s{x}" % (qm, op, A)
                            e_rf = "%s{y} %s %s{x}" % (B, op, A)
                        if arith:
                            b_au = "return (%s).in(%s{});" % (e_au, unit_cxx(cu))
                            b_rf = "return (%s).count();" % e_rf
                        else:
                            b_au = "return %s;" % e_au
                            b_rf = "return %s;" % e_rf
                        ka = F.Kernel("c17_au_" + tag, ret, args, b_au, key=key, family="mixed " + ("arith" if arith else "compare"))
                        kr = F.Kernel("c17_ch_" + tag, ret, args, b_rf, key=key, family="chrono reference")
                        ks += [ka, kr]
                        self.mixed.append((tag, ka.name, kr.name, (r1, r2), rc, on, f1, f2, key, expect))

        # ---- implicit Quantity -> duration conversions that change the period AND widen the rep (red-team change C17_r8: the unit
        # conversion run in the source's narrower rep and widened afterwards).  Reference: chrono's own implicit duration conversion.
        self.conv = []       # (tag, au, ref, src rep, dst rep, factor, key)
        for (pn, qn) in (("r3600", "one"), ("one", "milli"), ("milli", "nano"), ("r60", "milli")):
            f = PERIODS[pn][1] / PERIODS[qn][1]
            assert f.denominator == 1
            for (r1, r2) in (("int32_t", "int64_t"), ("int16_t", "int32_t"), ("float", "double"), ("int32_t", "double")):
                S, D2 = dur(r1, pn), dur(r2, qn)
                tag = "conv_%s_%s_%s_%s" % (pn, qn, sfx(r1), sfx(r2))
                key = {"src_period": PERIODS[pn][0], "dst_period": PERIODS[qn][0], "src_rep": r1, "dst_rep": r2, "factor": int(f)}
                ka = F.Kernel("c17_au_" + tag, r2, [(r1, "x")], "%s d{x}; %s d2 = as_quantity(d); return d2.count();" % (S, D2), key=key,
                              family="implicit conversion to a wider, finer duration")
                kr = F.Kernel("c17_ch_" + tag, r2, [(r1, "x")], "%s d{x}; %s d2 = d; return d2.count();" % (S, D2), key=key, family="chrono reference")
                ks += [ka, kr]
                self.conv.append((tag, ka.name, kr.name, r1, r2, int(f), key))

        # ---- closed facts
        def closed(name, body, expect, note, key):
            k = F.Kernel("c17_cl_" + name, "bool", [], body, key=key, family="closed")
            ks.append(k)
            self.closed.append((k.name, expect, note, key))

        for ct in self.reps:
            for pn in self.periods:
                pt, pv = PERIODS[pn]
                D = dur(ct, pn)
                tag = "%s_%s" % (sfx(ct), pn)
                key = {"rep": ct, "period": pt}
                closed("rep_" + tag, "return std::is_same<typename decltype(as_quantity(%s{}))::Rep, %s>::value;" % (D, ct), True,
                       "as_quantity(d) has d's rep", key)
                closed("unit_" + tag, "return are_units_quantity_equivalent(decltype(as_quantity(%s{}))::unit, %s{});" % (D, unit_cxx(pv)), True,
                       "as_quantity(d) has the unit seconds x Period (model: Period as a rational number of seconds)", key)
                named = SPECIAL.get((ct, pn))
                ut = named if named else "decltype(Seconds{} * (mag<%d>() / mag<%d>()))" % (pv.numerator, pv.denominator)
                if pn != "r2_4":
                    closed("type_" + tag, "return std::is_same<decltype(as_quantity(%s{})), Quantity<%s, %s>>::value;" % (D, ut, ct), True,
                           "exact type of as_quantity(d)" + (" (named typedef -> prefixed unit)" if named else ""), key)
                closed("period_" + tag, "return std::is_same<decltype(as_chrono_duration(as_quantity(%s{}))), std::chrono::duration<%s, typename %s::type>>::value;" % (D, ct, pt),
                       True, "as_chrono_duration(as_quantity(d)) is duration<Rep, Period> (Period in lowest terms)", key)
                closed("periodeq_" + tag, "return std::ratio_equal<typename decltype(as_chrono_duration(as_quantity(%s{})))::period, %s>::value;" % (D, pt),
                       True, "round-tripped Period equals Period as a ratio", key)
                closed("impl_" + tag, "return std::is_convertible<%s, CorrespondingQuantityT<%s>>::value && std::is_convertible<CorrespondingQuantityT<%s>, %s>::value;" % (D, D, D, D),
                       True, "duration <-> corresponding quantity are implicitly convertible both ways", key)
        # as_chrono_duration of named au units
        for qn, rep in (("ns", "int64_t"), ("ms", "int32_t"), ("s", "double"), ("min", "int32_t"), ("h", "float"), ("d", "int64_t"), ("frame", "int32_t"), ("us", "double")):
            qm, qt, qv = QUNITS[qn]
            closed("acd_" + qn, "return std::is_same<decltype(as_chrono_duration(%s((%s)1))), std::chrono::duration<%s, std::ratio<%d, %d>>>::value;" % (
                qm, rep, rep, qv.numerator, qv.denominator), True, "as_chrono_duration(q) has q's rep and Period = unit / seconds", {"qunit": qn, "rep": rep})
        # implicit acceptance grid
        targets = [("s", "int32_t"), ("s", "int64_t"), ("s", "double"), ("ms", "int32_t"), ("ms", "int64_t"), ("ns", "int64_t"),
                   ("h", "int64_t"), ("min", "float"), ("us", "int32_t")]
        if self.tier == "thorough":
            targets += [("ns", "int32_t"), ("d", "int32_t"), ("frame", "int64_t"), ("min", "int32_t"), ("h", "double")]
        reps_c = [r for r in self.reps if r in ("int32_t", "int64_t", "float", "double", "uint32_t")]
        for ct in reps_c:
            for pn in self.periods:
                pt, pv = PERIODS[pn]
                D = dur(ct, pn)
                for (qn, qrep) in targets:
                    qm, qt, qv = QUNITS[qn]
                    QX = "Quantity<%s, %s>" % (qt, qrep)
                    tag = "%s_%s_%s_%s" % (sfx(ct), pn, qn, sfx(qrep))
                    key = {"rep": ct, "period": pt, "target": QX}
                    m = implicit_ok(pv, ct, qv, qrep)
                    closed("conv_" + tag, "return std::is_convertible<%s, %s>::value == std::is_convertible<CorrespondingQuantityT<%s>, %s>::value;" % (D, QX, D, QX),
                           (True, "D3") if m is None else True, "duration is implicitly accepted exactly when its corresponding quantity is", key)
                    closed("convm_" + tag, "return std::is_convertible<%s, %s>::value;" % (D, QX), (False, "D3") if m is None else m,
                           "implicit acceptance of the duration == model predicate of the implicit-conversion policy", key)
                # a quantity of another dimension never accepts a duration
                closed("convx_%s_%s" % (sfx(ct), pn), "return std::is_convertible<%s, Quantity<Meters, double>>::value;" % D, False,
                       "a length quantity does not accept a duration", {"rep": ct, "period": pt, "target": "Quantity<Meters, double>"})
        self.programs = len(self.ident) + len(self.mixed)
        return ks

    # ------------------------------------------------------------------------------------------------------------
    def obligations(self, K):
        obs = []
        for tag, name, ct, key, note in self.ident:
            if K[name].kernel.dropped:
                ob = F.Ob("skip:" + tag, [], None, key=key)
                ob.status = "skipped-domain"
                obs.append(ob)
                self.inconclusive.append("identity kernel %s (%s) does not compile: %s" % (tag, K[name].kernel.body, K[name].kernel.dropped[:160]))
                continue
            w = F.CTYPES[ct][1]

            def fn(K, x, name=name):
                e = K[name](x)
                return T.TRUE, T.and_(T.eq(e.ret, x), T.not_(e.ub))
            obs.append(F.Ob("id:" + tag, [("x", T.BV(w))], fn, routes=F.FP_ROUTES if F.ct_is_float(ct) else F.CMP_ROUTES, key=key,
                            kernels=[name], note=note))
        for name, per, key in getattr(self, "cal_in_s", []):
            if K[name].kernel.dropped:
                self.inconclusive.append("calendar-duration kernel %s does not compile: %s" % (name, K[name].kernel.dropped[:160]))
                continue

            def fnc(K, x, name=name, per=per):
                e = K[name](x)
                fits = T.in_range(T.imul(T.sval(x), T.const_int(per)), -(1 << 63), (1 << 63) - 1)
                return fits, T.and_(T.not_(e.ub), T.eq(e.ret, T.const_bv(0, 64)))
            obs.append(F.Ob("calendar_in_seconds:" + name, [("x", T.BV(64))], fnc, routes=F.INT_ROUTES, key=key, kernels=[name],
                            note="C++20 calendar duration as a quantity, expressed in seconds, is count x Period exactly (whenever that fits int64)"))
        nmis = 0
        for tag, au, rf, (r1, r2), rc, on, f1, f2, key, expect in self.mixed:
            da, dr = K[au].kernel.dropped, K[rf].kernel.dropped
            if dr:
                self.inconclusive.append("chrono reference %s does not compile: %s" % (tag, dr[:160]))
                continue
            if da:
                ob = F.Ob("skip:" + tag, [], None, key=dict(key, model_in_domain=expect))
                ob.status = "skipped-domain"
                obs.append(ob)
                if expect is True:
                    nmis += 1
                    self.inconclusive.append("mixed kernel %s: model says it compiles, but it was dropped: %s" % (tag, da[:200]))
                continue
            if expect is not True:
                nmis += 1
                self.inconclusive.append("mixed kernel %s compiles although the model's implicit-conversion policy refuses it (%r)" % (tag, expect))
            vs = [("x", F.ct_sort(r1)), ("y", F.ct_sort(r2))]
            isfp = F.ct_is_float(rc) or F.ct_is_float(r1) or F.ct_is_float(r2)
            narrow = is_int(rc) and F.CTYPES[rc][1] < 64
            lo, hi = F.ct_range(rc) if is_int(rc) else (0, 0)

            # std::chrono defines a <= b as !(b < a) and a >= b as !(a < b): with a NaN count these are *true*, while au's
            # (IEEE) <= / >= are false.  NaN counts are therefore excluded for these two operators (see assumptions).
            nonan = on in ("le", "ge")

            fpres = on in ("add", "sub") and F.ct_is_float(rc)

            def fn(K, x, y, au=au, rf=rf, r1=r1, r2=r2, rc=rc, f1=f1, f2=f2, narrow=narrow, lo=lo, hi=hi, nonan=nonan, fpres=fpres):
                a = K[au](x, y)
                r = K[rf](x, y)
                pre = T.not_(r.ub)
                if nonan and F.ct_is_float(r1):
                    pre = T.and_(pre, T.not_(T.fp_isnan(F.FMT_OF[r1], x)))
                if nonan and F.ct_is_float(r2):
                    pre = T.and_(pre, T.not_(T.fp_isnan(F.FMT_OF[r2], y)))
                if narrow:
                    pre = T.and_(pre, T.in_range(T.imul(F.ival(r1, x), T.const_int(f1)), lo, hi),
                                 T.in_range(T.imul(F.ival(r2, y), T.const_int(f2)), lo, hi))
                same = T.eq(a.ret, r.ret)
                if fpres:
                    # which NaN an addition returns is unspecified: two NaN results count as equal
                    same = T.or_(same, T.and_(T.fp_isnan(F.FMT_OF[rc], a.ret), T.fp_isnan(F.FMT_OF[rc], r.ret)))
                return pre, T.and_(T.not_(a.ub), same)
            obs.append(F.Ob("mixed:" + tag, vs, fn, routes=F.FP_ROUTES if isfp else F.INT_ROUTES, key=dict(key, F_d=f1, F_q=f2),
                            kernels=[au, rf], timeout=60 if "long double" in (r1, r2) else None,
                            note="chrono reference does not overflow => au mixed operation does not trap and gives the same result"))
        for tag, au, rf, r1, r2, f, key in self.conv:
            if K[rf].kernel.dropped:
                self.inconclusive.append("chrono reference %s does not compile: %s" % (tag, K[rf].kernel.dropped[:160]))
                continue
            if K[au].kernel.dropped:
                ob = F.Ob("skip:" + tag, [], None, key=key)
                ob.status = "skipped-domain"
                obs.append(ob)
                continue

            def vfn(K, x, au=au, rf=rf, r1=r1, r2=r2, f=f):
                a = K[au](x)
                r = K[rf](x)
                pre = T.not_(r.ub)
                if is_int(r2):
                    lo, hi = F.ct_range(r2)
                    pre = T.and_(pre, T.in_range(T.imul(F.ival(r1, x), T.const_int(f)), lo, hi))
                same = T.eq(a.ret, r.ret)
                if F.ct_is_float(r2):
                    same = T.or_(same, T.and_(T.fp_isnan(F.FMT_OF[r2], a.ret), T.fp_isnan(F.FMT_OF[r2], r.ret)))
                return pre, T.and_(T.not_(a.ub), same)
            isfp = F.ct_is_float(r1) or F.ct_is_float(r2)
            obs.append(F.Ob("conv:" + tag, [("x", F.ct_sort(r1))], vfn, routes=F.FP_ROUTES if isfp else F.INT_ROUTES, key=key, kernels=[au, rf],
                            note="count x factor fits the destination rep => the implicit Quantity -> duration conversion equals chrono's own "
                                 "duration -> duration conversion (computed in the wider rep) and does not trap"))
        # observation (not a claim): with a NaN count chrono's <= is true and au's is false
        for tag, au, rf, (r1, r2), rc, on, f1, f2, key, expect in self.mixed:
            if on == "le" and r1 == r2 and F.ct_is_float(r1) and key["order"] == "d op q" and (key["period"], key["qunit"]) == ("std::milli", "s") \
                    and not K[au].kernel.dropped and not K[rf].kernel.dropped:
                def ofn(K, x, y, au=au, rf=rf):
                    a = K[au](x, y)
                    r = K[rf](x, y)
                    return T.and_(T.not_(r.ub), T.not_(a.ub)), T.and_(r.ret, T.not_(a.ret))
                obs.append(F.Ob("nan_le_differs:" + tag, [("x", F.ct_sort(r1)), ("y", F.ct_sort(r2))], ofn, kind="stretch", expect="sat",
                                routes=F.FP_ROUTES, key=key, kernels=[au, rf],
                                note="witness: there are counts (a NaN) for which chrono's d <= d' is true while au's d <= q is false"))
        # vacuity: the precondition of each (period, unit, rep pair) family is satisfiable with non-zero operands
        seen = set()
        for tag, au, rf, (r1, r2), rc, on, f1, f2, key, expect in self.mixed:
            fam = (key["period"], key["qunit"], r1, r2)
            if on != "add" or key["order"] != "d op q" or fam in seen or K[au].kernel.dropped or K[rf].kernel.dropped:
                continue
            seen.add(fam)
            narrow = is_int(rc) and F.CTYPES[rc][1] < 64
            lo, hi = F.ct_range(rc) if is_int(rc) else (0, 0)
            w1, w2 = F.CTYPES[r1][1], F.CTYPES[r2][1]
            isfp = F.ct_is_float(rc) or F.ct_is_float(r1) or F.ct_is_float(r2)

            def wfn(K, x, y, rf=rf, r1=r1, r2=r2, f1=f1, f2=f2, narrow=narrow, lo=lo, hi=hi, w1=w1, w2=w2):
                r = K[rf](x, y)
                pre = T.not_(r.ub)
                if narrow:
                    pre = T.and_(pre, T.in_range(T.imul(F.ival(r1, x), T.const_int(f1)), lo, hi),
                                 T.in_range(T.imul(F.ival(r2, y), T.const_int(f2)), lo, hi))
                return pre, T.and_(T.ne(x, T.const_bv(0, w1)), T.ne(y, T.const_bv(0, w2)))
            obs.append(F.Ob("witness:" + tag, [("x", F.ct_sort(r1)), ("y", F.ct_sort(r2))], wfn, expect="sat",
                            routes=F.FP_ROUTES if isfp else F.INT_ROUTES, key=key, kernels=[rf],
                            note="the chrono reference has non-trapping inputs with x != 0, y != 0 (obligation not vacuous)"))
        # closed
        for name, expect, note, key in self.closed:
            d = K[name].kernel.dropped
            if isinstance(expect, tuple):
                # the integer factor is not representable in the destination rep: on a tree with finding D3 (C06) the trait
                # itself is a hard error (kernel line dropped, outside the claim); where it compiles, the model's answer holds
                expect = expect[0]
                if d:
                    ob = F.Ob("skip:" + name, [], None, key=dict(key, model="hard error tolerated (D3)"))
                    ob.status = "skipped-domain"
                    obs.append(ob)
                    self.extra_cov["closed_dropped_as_D3"] = self.extra_cov.get("closed_dropped_as_D3", 0) + 1
                    continue
            if d:
                ob = F.Ob("skip:" + name, [], None, key=key)
                ob.status = "skipped-domain"
                obs.append(ob)
                self.inconclusive.append("closed kernel %s (%s) does not compile: %s" % (name, K[name].kernel.body[:120], d[:200]))
                continue

            def cfn(K, name=name, expect=expect):
                e = K[name]()
                return T.TRUE, T.and_(T.not_(e.ub), T.eq(e.ret, T.const_bool(expect)))
            obs.append(F.Ob("closed:" + name, [], cfn, kind="closed", key=dict(key, expected=expect), kernels=[name], note=note))
        return obs


CHECK = C17
