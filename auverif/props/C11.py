"""C11 - Magnitude evaluation and classification are exact (partial; DESIGN.md section 6, C11)."""
from fractions import Fraction
from .. import framework as F
from .. import terms as T
from .. import fpeval
from ..unitmodel import Mag

D = "au::detail::"
OK = "au::detail::MagRepresentationOutcome::OK"
U64, I64 = "uint64_t", "int64_t"
M64 = (1 << 64) - 1
I64MAX = (1 << 63) - 1

FLT_MAX = {"float": Fraction((1 << 24) - 1) * Fraction(2) ** (127 - 23),
           "double": Fraction((1 << 53) - 1) * Fraction(2) ** (1023 - 52),
           "long double": Fraction((1 << 64) - 1) * Fraction(2) ** (16383 - 63)}


FLT_TINY = {"float": Fraction(2) ** -149, "double": Fraction(2) ** -1074, "long double": Fraction(2) ** -16445}


class MagExpr:
    """a magnitude with its C++ spelling and exact model value"""

    def __init__(self, cxx, mag):
        self.cxx = cxx
        self.mag = mag

    def __mul__(self, o):
        return MagExpr("(%s * %s)" % (self.cxx, o.cxx), self.mag * o.mag)

    def __truediv__(self, o):
        return MagExpr("(%s / %s)" % (self.cxx, o.cxx), self.mag / o.mag)

    def pow(self, k):
        return MagExpr("pow<%d>(%s)" % (k, self.cxx), self.mag.pow(k))

    def root(self, k):
        return MagExpr("root<%d>(%s)" % (k, self.cxx), self.mag.pow(Fraction(1, k)))


def m(n):
    import sympy
    return MagExpr("mag<%dull>()" % n, Mag({int(p): e for p, e in sympy.factorint(n).items()}))


PI = MagExpr("Magnitude<Pi>{}", Mag({}, 1))


def grid(tier, rng):
    out = []
    for n in (1, 2, 3, 10, 100, 127, 128, 129, 255, 256, 257, 1000, 32767, 32768, 65535, 65536, 10 ** 6, 2 ** 31 - 1, 2 ** 31,
              2 ** 32 - 1, 2 ** 32, 10 ** 12, 2 ** 63 - 1, 2 ** 63, 2 ** 63 + 29, 2 ** 64 - 59, 2 ** 64 - 1, 2 ** 61 - 1,
              45359237):
        out.append(m(n))
    out += [m(3) / m(2), m(1) / m(1000), m(381) / m(1250), m(5) / m(9), m(2 ** 31) / m(3), m(1) / m(2 ** 64 - 59),
            m(10).pow(18), m(10).pow(19), m(10).pow(20), m(2).pow(62), m(2).pow(63), m(2).pow(64), m(2).pow(65), m(2).pow(127),
            m(2).pow(128), m(10).pow(38), m(10).pow(39), m(10).pow(308), m(10).pow(309), m(10).pow(-30), m(10).pow(-45), m(10).pow(-50), m(10).pow(-330), m(2).pow(-149), m(2).pow(-150), m(2).pow(-1074), m(2).pow(-1075),
            m(2).root(2), m(2).root(3), m(10).root(2), m(8).root(3), m(2 ** 63).root(2), m(3).pow(2).root(3),
            PI, PI.pow(2), PI.pow(-1), PI.root(2), PI / m(180), m(2) * PI, PI * m(10).pow(38), m(2 ** 31 - 1) * m(2 ** 31 - 1),
            m(2 ** 61 - 1) * m(8), m(2 ** 61 - 1) * m(4), m(2 ** 64 - 59).pow(2), m(2 ** 64 - 59).pow(-1), m(3).pow(40), m(3).pow(41),
            m(7).pow(22), m(7).pow(23)]
    # composites that fool weak primality tests, divided by one of their factors / under a root: classification must see the true factorisation
    out += [m(1373653) / m(829), m(829) / m(1373653), m(2047) / m(23), m(25326001) / m(2251), m(3215031751) / m(151),
            (m(1373653) * m(829) * m(1657)).root(2), (m(2047) * m(23)).root(2), m(1373653) * m(2) / m(1657)]
    if tier == "thorough":
        for _ in range(60):
            a = rng.getrandbits(rng.randrange(1, 64)) | 1
            b = rng.getrandbits(rng.randrange(1, 40)) | 1
            from math import gcd
            g = gcd(a, b)
            out.append(m(a // g) / m(b // g) if b // g > 1 else m(a // g))
        for k in range(2, 64, 5):
            out += [m(2).pow(k) * m(3), m(10).pow(k % 19 + 1) / m(7)]
    return out


class C11(F.Check):
    pid = "C11"
    level = "model_checking"
    chunk_size = 40
    assumptions = [
        "clang 14 front end and -O1 pipeline, own LLVM-IR->SMT encoder, z3 5.1 / cvc5 1.0.3 are trusted",
        "symbolic part: the value-level constexpr helpers are called at run time with a symbolic base: checked_int_pow<uintmax/intmax>(base, e) for fixed e in 0..4, "
        "base_power_value<T, N, 1>(uintmax base) for N in 1..3 and T signed/unsigned, safe_to_cast_to<T>(x) for floating T <- long double and integral T <- intmax/uintmax "
        "(the combinations the library instantiates); product<U, N> takes an array of structs by reference and is not encoded (seen only through the closed grid)",
        "bases are >= 1 (magnitude bases are primes or pi; base 0 divides by zero in the overflow guard)",
        "checked_int_pow<uint8_t> with BOTH base and exponent symbolic (exp < 128, unwind 8 with unwinding assertion) is claimed in the thorough tier only",
        "closed grid: representable_in / get_value / is_integer / is_rational / numerator / denominator / integer_part for magnitudes prod p^(a/b) * pi^(c/d) with primes up to 2^64-59 and "
        "values straddling every type limit are compile-time facts compared with an exact big-integer / rational-interval model (floating T: positive and within 4 ulp)",
        "root() (bisection in long double) is not decided symbolically; its results are seen only through the closed grid",
        "'get_value<T> is a compile error when not representable' is well-formedness: only representable_in's boolean is observed; a get_value kernel that compiles although the model says "
        "'not representable' is reported",
    ]

    def bounds(self):
        return {"base": "all 64-bit values >= 1", "exponents (symbolic kernels)": "0..4 fixed; uint8: symbolic < 128 (thorough)",
                "magnitude grid": len(self.mags), "types": F.ALL_REPS}

    def kernels(self):
        ks = []
        self.sym = []
        # checked_int_pow with fixed exponent
        for ty, ct in (("std::uintmax_t", U64), ("std::intmax_t", I64)):
            for e in range(0, 5):
                nm = "c11_cip_%s_%d" % (ct.replace("_t", ""), e)
                ks.append(F.Kernel(nm + "_ok", "bool", [(ct, "base")], "return %schecked_int_pow<%s>(base, %du).outcome == %s;" % (D, ty, e, OK),
                                   key={"T": ty, "exp": e}, family="checked_int_pow"))
                ks.append(F.Kernel(nm + "_val", ct, [(ct, "base")], "return %schecked_int_pow<%s>(base, %du).value;" % (D, ty, e),
                                   key={"T": ty, "exp": e}, family="checked_int_pow"))
                self.sym.append(("cip", nm, ct, e))
        # base_power_value<T, N, 1>(uintmax base)
        for t, wct in (("int32_t", I64), ("uint32_t", U64), ("int64_t", I64), ("uint8_t", U64)):
            for n in (1, 2, 3):
                nm = "c11_bpv_%s_%d" % (t.replace("_t", ""), n)
                ks.append(F.Kernel(nm + "_ok", "bool", [(U64, "base")],
                                   "return %sbase_power_value<%s, %d, 1>(base).outcome == %s;" % (D, t, n, OK),
                                   key={"T": t, "N": n}, family="base_power_value"))
                ks.append(F.Kernel(nm + "_val", wct, [(U64, "base")], "return %sbase_power_value<%s, %d, 1>(base).value;" % (D, t, n),
                                   key={"T": t, "N": n}, family="base_power_value"))
                self.sym.append(("bpv", nm, wct, n))
        # safe_to_cast_to
        for t in F.ALL_REPS:
            for w in (I64, U64, "long double"):
                if (w == "long double") != F.ct_is_float(t):
                    continue     # only the combinations the library instantiates: floating T <- long double, integral T <- intmax/uintmax
                nm = "c11_safe_%s_%s" % (t.replace("_t", "").replace(" ", ""), w.replace("_t", "").replace(" ", ""))
                ks.append(F.Kernel(nm, "bool", [(w, "x")], "return %ssafe_to_cast_to<%s>(x);" % (D, t), key={"T": t, "W": w},
                                   family="safe_to_cast_to"))
                self.sym.append(("safe", nm, w, t))
        if self.tier == "thorough":
            for ct in ("uint8_t", "int8_t"):
                nm = "c11_cip8_%s" % ct.replace("_t", "")
                ks.append(F.Kernel(nm + "_ok", "bool", [(ct, "base"), ("uint8_t", "e")],
                                   "return %schecked_int_pow<%s>(base, e).outcome == %s;" % (D, ct, OK), key={"T": ct}, family="checked_int_pow8"))
                ks.append(F.Kernel(nm + "_val", ct, [(ct, "base"), ("uint8_t", "e")],
                                   "return %schecked_int_pow<%s>(base, e).value;" % (D, ct), key={"T": ct}, family="checked_int_pow8"))
                self.sym.append(("cip8", nm, ct, None))
        # closed grid
        self.mags = grid(self.tier, self.rng)
        self.closed = []
        self.probes = 0
        self.max_probes = 24 if self.tier == "quick" else 80
        for i, me in enumerate(self.mags):
            for t in F.ALL_REPS:
                tag = "%d_%s" % (i, t.replace("_t", "").replace(" ", ""))
                key = {"mag": me.cxx, "T": t, "model": repr(me.mag)}
                k1 = F.Kernel("c11_rep_%s" % tag, "bool", [], "return representable_in<%s>(%s);" % (t, me.cxx), key=key,
                              family="representable_in", native=False)
                ks.append(k1)
                # get_value only where the model says it exists, plus a bounded number of 'must not compile' probes
                rep, sure = self.model_rep(me, t)
                n2 = None
                if (rep and sure) or (sure and not rep and self.probes < self.max_probes and (i * 7 + len(t)) % 5 == 0):
                    if not rep:
                        self.probes += 1
                    k2 = F.Kernel("c11_get_%s" % tag, t, [], "return get_value<%s>(%s);" % (t, me.cxx), key=key, family="get_value",
                                  native=False)
                    ks.append(k2)
                    n2 = k2.name
                self.closed.append((me, t, k1.name, n2, key))
            key = {"mag": me.cxx, "model": repr(me.mag)}
            k3 = F.Kernel("c11_isint_%d" % i, "bool", [], "return is_integer(%s);" % me.cxx, key=key, family="is_integer", native=False)
            k4 = F.Kernel("c11_israt_%d" % i, "bool", [], "return is_rational(%s);" % me.cxx, key=key, family="is_rational", native=False)
            ks += [k3, k4]
            parts = []
            if me.mag.is_rational():
                q = me.mag.as_fraction()
                if q.numerator <= M64 and q.denominator <= M64:
                    for fam, fn, exp in (("num", "numerator", q.numerator), ("den", "denominator", q.denominator),
                                         ("ipart", "integer_part", None)):
                        if exp is None:
                            continue
                        kk = F.Kernel("c11_%s_%d" % (fam, i), U64, [], "return get_value<std::uintmax_t>(%s(%s));" % (fn, me.cxx), key=key,
                                      family=fn, native=False)
                        ks.append(kk)
                        parts.append((kk.name, exp))
            self.closed_cls = getattr(self, "closed_cls", [])
            self.closed_cls.append((me, k3.name, k4.name, parts, key))
        return ks

    # ---- helpers
    @staticmethod
    def model_rep(me, t):
        lo, hi = me.mag.approx()
        if F.ct_is_float(t):
            # a strictly positive result must exist: values that round to zero (below half the smallest subnormal) do not fit
            tiny = FLT_TINY[t]
            if hi <= tiny / 2:
                return False, True
            if lo <= tiny:                 # rounds to 0 or to the smallest subnormal: leave the boundary band undecided
                return False, False
            return (hi <= FLT_MAX[t] or lo <= FLT_MAX[t]), ((hi <= FLT_MAX[t]) or (lo > FLT_MAX[t]))
        return (me.mag.is_integer() and me.mag.as_fraction() <= F.ct_range(t)[1]), True

    def obligations(self, K):
        obs = []
        B = T.BV(64)
        NIA = ["z3-intq", "cvc5-intq", "z3-int"]
        for kind, nm, ct, par in self.sym:
            if kind in ("cip", "bpv"):
                e = par
                signed = ct == I64
                hi = I64MAX if signed else M64
                src_signed = signed if kind == "cip" else False       # base_power_value takes an unsigned base
                unw = 8

                def fn(K, base, nm=nm, e=e, hi=hi, signed=signed, src_signed=src_signed, unw=unw):
                    ok = K[nm + "_ok"](base, unwind=unw)
                    val = K[nm + "_val"](base, unwind=unw)
                    bv = T.sval(base) if src_signed else T.uval(base)
                    p = T.const_int(1)
                    for _ in range(e):
                        p = T.imul(p, bv)
                    fits = T.ile(p, T.const_int(hi))
                    pre = T.ile(T.const_int(1), bv)
                    got = T.sval(val.ret) if signed else T.uval(val.ret)
                    post = T.and_(T.not_(ok.ub), T.not_(val.ub), T.not_(ok.unwind), T.not_(val.unwind), T.eq(ok.ret, fits),
                                  T.or_(T.not_(fits), T.eq(got, p)))
                    return pre, post
                obs.append(F.Ob("%s:%s" % (kind, nm), [("base", B)], fn, routes=NIA, timeout=40, key={"kernel": nm, "power": e},
                                kernels=[nm + "_ok", nm + "_val"],
                                note="outcome == OK <=> base^%d fits the widened type; then value == base^%d exactly; no UB" % (e, e)))
            elif kind == "prod2":
                signed = ct == I64
                hi = I64MAX if signed else M64

                def fn(K, a, b, nm=nm, hi=hi, signed=signed):
                    ok = K[nm + "_ok"](a, b, unwind=4)
                    val = K[nm + "_val"](a, b, unwind=4)
                    av, bv = (T.sval(a), T.sval(b)) if signed else (T.uval(a), T.uval(b))
                    p = T.imul(av, bv)
                    fits = T.ile(p, T.const_int(hi))
                    pre = T.and_(T.ile(T.const_int(0), av), T.ile(T.const_int(0), bv))
                    got = T.sval(val.ret) if signed else T.uval(val.ret)
                    return pre, T.and_(T.not_(ok.ub), T.not_(val.ub), T.not_(ok.unwind), T.not_(val.unwind), T.eq(ok.ret, fits),
                                       T.or_(T.not_(fits), T.eq(got, p)))
                obs.append(F.Ob("product2:" + nm, [("a", B), ("b", B)], fn, routes=NIA, timeout=40, key={"kernel": nm},
                                kernels=[nm + "_ok", nm + "_val"], note="product of two non-negative values: OK <=> a*b fits; value exact"))
            elif kind == "safe":
                w, t = ct, par
                if w == "long double":
                    fmt = F.FMT_OF[w]
                    xs = [("x", T.BV(79))]

                    def fn(K, x, nm=nm, t=t, fmt=fmt):
                        e = K[nm](x)
                        if F.ct_is_float(t):
                            mx = T.const_bv(fpeval.from_fraction(fmt, FLT_MAX[t]), 79)
                            exp = T.and_(T.fp_cmp("ole", fmt, T.fp_neg(fmt, mx), x), T.fp_cmp("oge", fmt, mx, x))
                        else:
                            exp = T.FALSE      # a floating value is never 'safe' for an integral target (documented: must be integral type)
                        # magnitudes are positive reals: NaN is outside the domain (the comparisons answer 'true' for NaN)
                        return T.not_(T.fp_isnan(fmt, x)), T.and_(T.not_(e.ub), T.eq(e.ret, exp))
                    obs.append(F.Ob("safe_to_cast:" + nm, xs, fn, routes=F.FP_ROUTES, key={"T": t, "W": w}, kernels=[nm]))
                else:
                    def fn(K, x, nm=nm, t=t, w=w):
                        e = K[nm](x)
                        xv = F.ival(w, x)
                        if F.ct_is_float(t):
                            exp = T.TRUE
                        else:
                            lo, hi = F.ct_range(t)
                            exp = T.in_range(xv, lo, hi)
                        return T.TRUE, T.and_(T.not_(e.ub), T.eq(e.ret, exp))
                    obs.append(F.Ob("safe_to_cast:" + nm, [("x", B)], fn, routes=F.CMP_ROUTES, key={"T": t, "W": w}, kernels=[nm]))
            elif kind == "cip8":
                signed = ct == "int8_t"
                hi = 127 if signed else 255

                def fn(K, base, e, nm=nm, hi=hi, signed=signed):
                    ok = K[nm + "_ok"](base, e, unwind=8)
                    val = K[nm + "_val"](base, e, unwind=8)
                    # saturating power chain in 16 bits: p_{i+1} = min(p_i * base, 256)
                    b16 = T.zext(base, 16)
                    p = T.const_bv(1, 16)
                    cap = T.const_bv(256, 16)
                    for i in range(127):
                        step = T.bvop("bvmul", p, b16)
                        step = T.ite(T.bvcmp("ugt", step, cap), cap, step)
                        p = T.ite(T.bvcmp("ult", T.const_bv(i, 8), e), step, p)
                    fits = T.bvcmp("ule", p, T.const_bv(hi, 16))
                    pre = T.and_(T.bvcmp("ult", e, T.const_bv(128, 8)), T.bvcmp("sge" if signed else "uge", base, T.const_bv(1, 8)))
                    return pre, T.and_(T.not_(ok.ub), T.not_(val.ub), T.not_(ok.unwind), T.not_(val.unwind), T.eq(ok.ret, fits),
                                       T.or_(T.not_(fits), T.eq(T.zext(val.ret, 16), p)))
                obs.append(F.Ob("cip8:" + nm, [("base", T.BV(8)), ("e", T.BV(8))], fn, routes=["z3-bv", "cvc5-bv"], timeout=300,
                                key={"kernel": nm}, kernels=[nm + "_ok", nm + "_val"],
                                note="8-bit instantiation, base and exponent both symbolic (exp < 128), unwind 8"))
        # ---- closed grid
        for me, t, n1, n2, key in self.closed:
            lo, hi = me.mag.approx()
            rep, sure = self.model_rep(me, t)
            if K[n1].kernel.dropped:
                ob = F.Ob("closed:" + n1, [], None, kind="closed", key=dict(key, compile_error=K[n1].kernel.dropped[:200]), kernels=[n1],
                          note="representable_in must be answerable")
                ob.status = "lowering-failed"
                obs.append(ob)
                continue
            if sure:
                def fn(K, n1=n1, rep=rep):
                    return T.TRUE, T.eq(K[n1]().ret, T.const_bool(rep))
                obs.append(F.Ob("closed:" + n1, [], fn, kind="closed", key=dict(key, expected=rep), kernels=[n1],
                                note="representable_in<T>(m) == (exact value within T's range, integer for integral T)"))
            if n2 is None:
                continue
            if K[n2].kernel.dropped:
                if not rep:
                    self.extra_cov["must_not_compile_probes_rejected"] = self.extra_cov.get("must_not_compile_probes_rejected", 0) + 1
                if rep and sure:
                    ob = F.Ob("closed:" + n2, [], None, kind="closed", key=dict(key, compile_error=K[n2].kernel.dropped[:200]), kernels=[n2],
                              note="model says representable, get_value must compile")
                    ob.status = "lowering-failed"
                    obs.append(ob)
                continue
            if not rep and sure:
                # get_value compiled although the model says the value is not representable: wrong number instead of compile error
                def fnb(K):
                    return T.TRUE, T.FALSE
                obs.append(F.Ob("closed:" + n2, [], fnb, kind="closed", key=dict(key, expected="compile error"), kernels=[n2],
                                note="get_value<T>(m) compiles although m is not representable in T"))
                continue
            if not sure:
                continue
            if F.ct_is_float(t):
                fmt = F.FMT_OF[t]
                # within 4 ulp of the exact value, strictly positive
                mid = (lo + hi) / 2
                bits = fpeval.from_fraction(fmt, mid)
                cands = set()
                for d in range(-4, 5):
                    cands.add(bits + d)

                def fn(K, n2=n2, cands=cands, fmt=fmt):
                    r = K[n2]().ret
                    if not T.is_const(r):
                        return T.TRUE, T.FALSE
                    return T.TRUE, T.const_bool(r.attr in cands and r.attr != 0)
                obs.append(F.Ob("closed:" + n2, [], fn, kind="closed", key=dict(key, expected_bits="0x%x +-4ulp" % bits), kernels=[n2],
                                note="get_value<T>(m) strictly positive and within 4 ulp of the exact real"))
            else:
                v = int(me.mag.as_fraction())
                w = F.CTYPES[t][1]

                def fn(K, n2=n2, v=v, w=w):
                    return T.TRUE, T.eq(K[n2]().ret, T.const_bv(v, w))
                obs.append(F.Ob("closed:" + n2, [], fn, kind="closed", key=dict(key, expected=v), kernels=[n2],
                                note="get_value<T>(m) == exact integer"))
        for me, n3, n4, parts, key in self.closed_cls:
            for nm, exp in ((n3, me.mag.is_integer()), (n4, me.mag.is_rational())):
                if K[nm].kernel.dropped:
                    continue

                def fn(K, nm=nm, exp=exp):
                    return T.TRUE, T.eq(K[nm]().ret, T.const_bool(exp))
                obs.append(F.Ob("closed:" + nm, [], fn, kind="closed", key=dict(key, expected=exp), kernels=[nm]))
            for nm, exp in parts:
                if K[nm].kernel.dropped:
                    self.notes.append("%s does not compile: %s" % (nm, K[nm].kernel.dropped[:120]))
                    continue

                def fn(K, nm=nm, exp=exp):
                    return T.TRUE, T.eq(K[nm]().ret, T.const_bv(exp, 64))
                obs.append(F.Ob("closed:" + nm, [], fn, kind="closed", key=dict(key, expected=exp), kernels=[nm]))
        return obs


CHECK = C11
