"""C06 - Implicit-conversion safety surface is total and as documented (DESIGN.md section 6, C06)."""
from fractions import Fraction
from .. import framework as F
from .. import terms as T
from .C05 import common_type
from .C08 import runit

REPS10 = F.INT_REPS + ["float", "double", "long long"]      # long long: a distinct type with int64_t's arithmetic (type-identity dispatch)


def expected_permit(r1, r2, ratio):
    if F.ct_is_float(r2):
        return True
    if F.ct_is_float(r1):
        return False
    if ratio == 1:
        return True
    if ratio.denominator != 1:
        return False
    return 2147 * ratio.numerator <= F.ct_range(r2)[1]


def ratios_for(r2, tier):
    out = [Fraction(1), Fraction(2), Fraction(1000), Fraction(1, 2), Fraction(1, 1000), Fraction(3, 2), Fraction(2, 3),
           Fraction(10 ** 6), Fraction(10 ** 12)]
    if not F.ct_is_float(r2):
        hi = F.ct_range(r2)[1]
        t = hi // 2147
        for k in (t - 1, t, t + 1, hi, hi + 1):
            if 1 <= k < (1 << 64):
                out.append(Fraction(k))
        if tier == "thorough":
            out += [Fraction(hi // 2), Fraction(3), Fraction(10 ** 9), Fraction(10 ** 18), Fraction(1, 10 ** 12)]
    else:
        out += [Fraction(2 ** 31), Fraction(10 ** 18)]
    return list(dict.fromkeys(out))


class C06(F.Check):
    pid = "C06"
    level = "model_checking"
    assumptions = [
        "clang 14 front end and -O1 pipeline, own LLVM-IR->SMT encoder, z3 5.1 / cvc5 1.0.3 are trusted",
        "the predicate itself is a compile-time fact: observed as closed booleans (std::is_convertible / is_constructible) over a 10x10 rep grid x ratios "
        "straddling each rep's 2147-threshold and maximum, compared with the documented predicate computed independently",
        "totality: trait queries whose factor the target rep cannot represent are generated like any other; a query that does not compile is "
        "reported as a lowering-stage verdict (the compiler's, not the solver's) and fails the check",
        "value-level consequence is solver-decided for every permitted conversion into an integral rep: exact integer multiplication for ALL inputs that fit, "
        "no overflow for |x| <= 2147 that the target can hold, and no division in the kernel",
        "overload-resolution probes and 'must not compile' call sites are outside",
    ]

    def bounds(self):
        return {"rep pairs": 100, "ratios per target rep": "9-19", "stored values": "all values of the source rep"}

    def kernels(self):
        ks = []
        self.closed = []
        self.convs = []
        n = 0
        for r1 in REPS10:
            for r2 in REPS10:
                for ratio in ratios_for(r2, self.tier):
                    n += 1
                    u1, u2 = runit(ratio), "Meters"
                    exp = expected_permit(r1, r2, ratio)
                    tag = "%s_%s_%d" % (r1.replace("_t", "").replace(" ", ""), r2.replace("_t", "").replace(" ", ""), n)
                    key = {"R1": r1, "R2": r2, "ratio": str(ratio), "expected": exp}
                    q1, q2 = "Quantity<%s, %s>" % (u1, r1), "Quantity<%s, %s>" % (u2, r2)
                    k = F.Kernel("c06_permit_%s" % tag, "bool", [], "return std::is_convertible<%s, %s>::value;" % (q1, q2),
                                 key=key, family="is_convertible")
                    ks.append(k)
                    k2 = F.Kernel("c06_constr_%s" % tag, "bool", [], "return std::is_constructible<%s, %s>::value;" % (q2, q1),
                                  key=key, family="is_constructible")
                    ks.append(k2)
                    self.closed.append((k.name, k2.name, exp, key, tag))
                    if exp and not F.ct_is_float(r2) and not F.ct_is_float(r1):
                        kk = int(ratio)
                        c = F.Kernel("c06_conv_%s" % tag, r2, [(r1, "x")], "%s q = make_quantity<%s>(x); return q.in(%s{});" % (q2, u1, u2),
                                     key=key, family="implicit_conv")
                        ks.append(c)
                        self.convs.append((c.name, r1, r2, kk, key, tag))
        # 'equivalently, whether unit-only .as(u)/.in(u) and mixed-unit comparison/addition compile': same-rep probes whose
        # acceptance by the compiler must coincide with the predicate (lowering-stage facts)
        self.parity = []
        for r in REPS10:
            rs = ratios_for(r, self.tier)
            for j, ratio in enumerate(rs):
                if ratio >= (1 << 63) or (self.tier == "quick" and j % 2):
                    continue
                exp = expected_permit(r, r, ratio)
                u1 = runit(ratio)
                tagp = "%s_%d" % (r.replace("_t", "").replace(" ", ""), j)
                key = {"R": r, "ratio": str(ratio), "expected_to_compile": exp}
                # a mixed-unit comparison converts BOTH operands to the common unit (1/q meters for ratio p/q): factors p and q
                exp_cmp = expected_permit(r, r, Fraction(ratio.numerator)) and expected_permit(r, r, Fraction(ratio.denominator))
                for fam, body, rt, ex in (("in", "return make_quantity<%s>(x).in(Meters{});" % u1, r, exp),
                                          ("cmp", "return make_quantity<%s>(x) < make_quantity<Meters>(x);" % u1, "bool", exp_cmp)):
                    k = F.Kernel("c06_parity_%s_%s" % (fam, tagp), rt, [(r, "x")], body, key=dict(key, form=fam, expected_to_compile=ex),
                                 family="policy_parity_" + fam)
                    ks.append(k)
                    self.parity.append((k.name, ex, k.key, fam, tagp))
        # dimension mismatch and point analogue (closed)
        extra = [
            ("std::is_convertible<Quantity<Meters, int32_t>, Quantity<Seconds, int32_t>>::value", False, "dimension mismatch int"),
            ("std::is_convertible<Quantity<Meters, double>, Quantity<Seconds, double>>::value", False, "dimension mismatch double"),
            ("std::is_constructible<Quantity<Seconds, double>, Quantity<Meters, double>>::value", False, "dimension mismatch constructible"),
            ("std::is_convertible<QuantityPoint<Kilo<Kelvins>, int32_t>, QuantityPoint<Kelvins, int32_t>>::value", True, "point k=1000"),
            ("std::is_convertible<QuantityPoint<Kelvins, int32_t>, QuantityPoint<Kilo<Kelvins>, int32_t>>::value", False, "point 1/1000"),
            ("std::is_convertible<QuantityPoint<Kelvins, int32_t>, QuantityPoint<Kilo<Kelvins>, double>>::value", True, "point to double"),
            ("std::is_convertible<QuantityPoint<Mega<Kelvins>, int32_t>, QuantityPoint<Kelvins, int32_t>>::value", True, "point k=10^6 int32 (2147e6 <= max)"),
            ("std::is_convertible<QuantityPoint<Giga<Kelvins>, int32_t>, QuantityPoint<Kelvins, int32_t>>::value", False, "point k=10^9 int32"),
            ("std::is_convertible<QuantityPoint<Mega<Kelvins>, int64_t>, QuantityPoint<Kelvins, int64_t>>::value", True, "point k=10^6 int64"),
            ("std::is_convertible<QuantityPoint<Kelvins, double>, QuantityPoint<Kelvins, int32_t>>::value", False, "point double->int"),
            ("std::is_convertible<QuantityPoint<Meters, int32_t>, QuantityPoint<Kelvins, int32_t>>::value", False, "point dimension mismatch"),
            ("std::is_convertible<QuantityPoint<Tera<Kelvins>, int32_t>, QuantityPoint<Kelvins, int32_t>>::value", False, "point non-representable factor"),
        ]
        self.extra = []
        for i, (expr, exp, lab) in enumerate(extra):
            k = F.Kernel("c06_extra_%d" % i, "bool", [], "return %s;" % expr, key={"what": lab, "expected": exp}, family="extra_traits")
            ks.append(k)
            self.extra.append((k.name, exp, k.key))
        return ks

    def obligations(self, K):
        obs = []
        for n1, n2, exp, key, tag in self.closed:
            for nm, what in ((n1, "is_convertible"), (n2, "is_constructible")):
                if K[nm].kernel.dropped:
                    # totality: the question itself must compile
                    def fnd(K):
                        return T.TRUE, T.FALSE
                    ob = F.Ob("total:%s:%s" % (what, tag), [], None, kind="closed", key=dict(key, compile_error=K[nm].kernel.dropped[:200]),
                              kernels=[nm], note="asking the trait must not be a hard error (totality)")
                    ob.status = "lowering-failed"
                    obs.append(ob)
                    self.lowering_failures.append((what, key, K[nm].kernel.dropped[:160]))
                    continue

                def fn(K, nm=nm, exp=exp):
                    e = K[nm]()
                    return T.TRUE, T.and_(T.not_(e.ub), T.eq(e.ret, T.const_bool(exp)))
                obs.append(F.Ob("predicate:%s:%s" % (what, tag), [], fn, kind="closed", key=key, kernels=[nm],
                                note="trait value equals the documented predicate"))
        for nm, exp, key, fam, tagp in self.parity:
            dropped = K[nm].kernel.dropped
            if exp and dropped:
                ob = F.Ob("policy_parity:%s:%s" % (fam, tagp), [], None, kind="closed", key=dict(key, compile_error=dropped[:200]), kernels=[nm],
                          note="the predicate permits this conversion, so the unit-only form / mixed comparison must compile")
                ob.status = "lowering-failed"
                obs.append(ob)
            else:
                def fnp(K, exp=exp, dropped=bool(dropped)):
                    return T.TRUE, T.const_bool(exp != dropped)
                obs.append(F.Ob("policy_parity:%s:%s" % (fam, tagp), [], fnp, kind="closed", key=key, kernels=[nm],
                                note="unit-only .in(u) / mixed-unit comparison is accepted by the compiler exactly when the predicate is true"))
        for nm, exp, key in self.extra:
            if K[nm].kernel.dropped:
                self.lowering_failures.append(("extra", key, K[nm].kernel.dropped[:160]))
                continue

            def fn(K, nm=nm, exp=exp):
                return T.TRUE, T.eq(K[nm]().ret, T.const_bool(exp))
            obs.append(F.Ob("predicate:" + nm, [], fn, kind="closed", key=key, kernels=[nm]))
        for nm, r1, r2, k, key, tag in self.convs:
            if K[nm].kernel.dropped:
                # permitted by the trait but the conversion itself does not compile: report
                self.lowering_failures.append(("implicit conversion", key, K[nm].kernel.dropped[:160]))
                continue
            w = F.CTYPES[r1][1]
            xs = [("x", T.BV(w))]
            c = common_type(r1, r2)
            lo2, hi2 = F.ct_range(r2)
            cl, ch = F.ct_range(F.promoted(c))

            def fn1(K, x, nm=nm, r1=r1, r2=r2, k=k, lo2=lo2, hi2=hi2, cl=cl, ch=ch):
                e = K[nm](x)
                prod = T.imul(F.ival(r1, x), T.const_int(k))
                pre = T.and_(T.in_range(prod, lo2, hi2), T.in_range(prod, cl, ch), T.in_range(F.ival(r1, x), cl, ch))
                return pre, T.and_(T.not_(e.ub), T.eq(F.ival(r2, e.ret), prod))
            obs.append(F.Ob("exact_mul:" + tag, xs, fn1, key=key, kernels=[nm],
                            note="x*k fits target and common rep => no UB and result == x*k"))

            def fn2(K, x, nm=nm, r1=r1, r2=r2, k=k, lo2=lo2, hi2=hi2):
                e = K[nm](x)
                xv = F.ival(r1, x)
                prod = T.imul(xv, T.const_int(k))
                pre = T.and_(T.ile(T.iabs(xv), T.const_int(2147)), T.in_range(xv, lo2, hi2))
                return pre, T.and_(T.not_(e.ub), T.in_range(prod, lo2, hi2), T.eq(F.ival(r2, e.ret), prod))
            obs.append(F.Ob("safe_upto_2147:" + tag, xs, fn2, key=key, kernels=[nm],
                            note="|x| <= 2147 and x representable in the target => x*k does not overflow, no UB, exact"))

            def fn3(K, nm=nm):
                e = K[nm](T.var("x", T.BV(F.CTYPES[K[nm].kernel.args[0][0]][1])))
                has_div = any(op in ("sdiv", "udiv", "srem", "urem") for op in e.stats.get("ops", []))
                return T.TRUE, T.const_bool(not has_div)
            obs.append(F.Ob("no_division:" + tag, [], fn3, kind="closed", key=key, kernels=[nm],
                            note="permitted conversion is a pure integer multiplication (no division in the kernel)"))
        return obs

    def __init__(self, tier, seed):
        super().__init__(tier, seed)
        self.lowering_failures = []


CHECK = C06
