"""C14 - Products, quotients and powers combine values raw-wise and units algebraically (DESIGN.md section 6, C14).

Value half: every au operation is paired with a raw reference kernel (the bare operator / std function on the stored
values, lowered by the same compiler in the same TU); the solver decides "same result bits and same trap condition for
all inputs".  Unit half: closed kernels compare the unit the library computes with the unit computed by the small exact
model below (dimension vector + rational magnitude, written from the SI definitions, spelled in C++ from *base* units
only), and the raw-number collapse with the model's "dimensionless and magnitude exactly 1"."""
from fractions import Fraction
from .. import framework as F
from .. import terms as T
from .. import fpeval

# ----------------------------------------------------------------------------------------------------------------------
# independent unit model
BASE_OF = {"L": "Meters", "M": "Grams", "T": "Seconds", "I": "Amperes", "K": "Kelvins", "A": "Radians", "B": "Bits",
           "N": "Moles", "J": "Candelas"}


class MU:
    """model unit: dims {base letter: Fraction exponent}, mag Fraction (rational magnitudes only)"""

    def __init__(self, dims, mag=1):
        self.dims = {k: Fraction(v) for k, v in dims.items() if Fraction(v) != 0}
        self.mag = Fraction(mag)

    def __mul__(self, o):
        d = dict(self.dims)
        for k, v in o.dims.items():
            d[k] = d.get(k, Fraction(0)) + v
        return MU(d, self.mag * o.mag)

    def inv(self):
        return MU({k: -v for k, v in self.dims.items()}, 1 / self.mag)

    def __truediv__(self, o):
        return self * o.inv()

    def pow(self, k):
        k = Fraction(k)
        if k.denominator == 1:
            m = self.mag ** int(k)
        else:
            m = Fraction(_iroot(self.mag.numerator ** abs(k.numerator), k.denominator),
                         _iroot(self.mag.denominator ** abs(k.numerator), k.denominator))
            if k < 0:
                m = 1 / m
        return MU({b: e * k for b, e in self.dims.items()}, m)

    def unitless(self):
        return not self.dims and self.mag == 1

    def cxx(self):
        """C++ type of this unit spelled from base units and mag<> only"""
        e = "UnitProductT<>{}"
        for b in sorted(self.dims):
            x = self.dims[b]
            e += " * UnitPowerT<%s, %d, %d>{}" % (BASE_OF[b], x.numerator, x.denominator)
        if self.mag.numerator != 1:
            e += " * mag<%dull>()" % self.mag.numerator
        if self.mag.denominator != 1:
            e += " / mag<%dull>()" % self.mag.denominator
        return "decltype(%s)" % e


def _iroot(n, r):
    x = int(round(n ** (1.0 / r)))
    for c in (x - 1, x, x + 1):
        if c >= 0 and c ** r == n:
            return c
    raise ValueError("model: %d has no exact %d-th root" % (n, r))


KG = {"M": 1}
# name -> (maker expression, unit type, model)       [hand-written from the SI / NIST definitions]
UNITS = {
    "m": ("meters", "Meters", MU({"L": 1})),
    "s": ("seconds", "Seconds", MU({"T": 1})),
    "g": ("grams", "Grams", MU({"M": 1})),
    "kg": ("kilo(grams)", "Kilo<Grams>", MU({"M": 1}, 1000)),
    "Hz": ("hertz", "Hertz", MU({"T": -1})),
    "ms": ("milli(seconds)", "Milli<Seconds>", MU({"T": 1}, Fraction(1, 1000))),
    "min": ("minutes", "Minutes", MU({"T": 1}, 60)),
    "h": ("hours", "Hours", MU({"T": 1}, 3600)),
    "ft": ("feet", "Feet", MU({"L": 1}, Fraction(381, 1250))),
    "in": ("inches", "Inches", MU({"L": 1}, Fraction(127, 5000))),
    "mi": ("miles", "Miles", MU({"L": 1}, Fraction(1609344, 1000))),
    "km": ("kilo(meters)", "Kilo<Meters>", MU({"L": 1}, 1000)),
    "cm": ("centi(meters)", "Centi<Meters>", MU({"L": 1}, Fraction(1, 100))),
    "pct": ("percent", "Percent", MU({}, Fraction(1, 100))),
    "1": ("unos", "Unos", MU({})),
    "N": ("newtons", "Newtons", MU({"M": 1, "L": 1, "T": -2}, 1000)),
    "J": ("joules", "Joules", MU({"M": 1, "L": 2, "T": -2}, 1000)),
    "W": ("watts", "Watts", MU({"M": 1, "L": 2, "T": -3}, 1000)),
    "V": ("volts", "Volts", MU({"M": 1, "L": 2, "T": -3, "I": -1}, 1000)),
    "A": ("amperes", "Amperes", MU({"I": 1})),
    "ohm": ("ohms", "Ohms", MU({"M": 1, "L": 2, "T": -3, "I": -2}, 1000)),
    "C": ("coulombs", "Coulombs", MU({"I": 1, "T": 1})),
    "Pa": ("pascals", "Pascals", MU({"M": 1, "L": -1, "T": -2}, 1000)),
    "L": ("liters", "Liters", MU({"L": 3}, Fraction(1, 1000))),
    "bit": ("bits", "Bits", MU({"B": 1})),
    "B": ("bytes", "Bytes", MU({"B": 1}, 8)),
    "rad": ("radians", "Radians", MU({"A": 1})),
    "kn": ("knots", "Knots", MU({"L": 1, "T": -1}, Fraction(1852, 3600))),
    "m2": ("squared(meters)", "decltype(squared(Meters{}))", MU({"L": 2})),
    "m3": ("cubed(meters)", "decltype(cubed(Meters{}))", MU({"L": 3})),
    "ft2": ("squared(feet)", "decltype(squared(Feet{}))", MU({"L": 2}, Fraction(381, 1250) ** 2)),
    "in3": ("cubed(inches)", "decltype(cubed(Inches{}))", MU({"L": 3}, Fraction(127, 5000) ** 3)),
    "1/s": ("pow<-1>(seconds)", "decltype(pow<-1>(Seconds{}))", MU({"T": -1})),
    "m/s": ("(meters / second)", "decltype(Meters{} / Seconds{})", MU({"L": 1, "T": -1})),
    "m2/s2": ("(squared(meters) / squared(second))", "decltype(squared(Meters{}) / squared(Seconds{}))", MU({"L": 2, "T": -2})),
}

# hand-written table: does the product / quotient collapse to a raw number?   (the independent expected booleans;
# they are cross-checked against MU.unitless() at import time so a typo in either is caught, not silently used)
COLLAPSE = {
    ("Hz", "s", "*"): True, ("Hz", "ms", "*"): False, ("pct", "m", "*"): False, ("pct", "pct", "*"): False,
    ("pct", "1", "*"): False, ("1", "1", "*"): True, ("m", "m", "/"): True, ("m", "s", "*"): False, ("m", "s", "/"): False,
    ("m", "m", "*"): False, ("ft", "in", "/"): False, ("km", "m", "/"): False, ("Hz", "1/s", "/"): True,
    ("Hz", "s", "/"): False, ("s", "Hz", "*"): True, ("ms", "Hz", "*"): False, ("min", "Hz", "*"): False,
    ("pct", "pct", "/"): True, ("pct", "1", "/"): False, ("N", "m", "*"): False, ("J", "N", "/"): False, ("W", "s", "*"): False,
    ("V", "A", "*"): False, ("V", "ohm", "/"): False, ("J", "J", "/"): True, ("W", "V", "/"): False, ("C", "A", "/"): False,
    ("B", "bit", "/"): False, ("bit", "bit", "/"): True, ("km", "h", "/"): False, ("kn", "m/s", "/"): False,
    ("m/s", "m/s", "/"): True, ("m/s", "s", "*"): False, ("m/s", "Hz", "/"): False, ("Pa", "m2", "*"): False,
    ("L", "m3", "/"): False, ("m3", "m3", "/"): True, ("rad", "rad", "/"): True, ("rad", "s", "/"): False,
    ("1/s", "s", "*"): True, ("1/s", "ms", "*"): False, ("kg", "g", "/"): False, ("g", "g", "/"): True,
    ("in", "ft", "/"): False, ("mi", "h", "/"): False, ("J", "W", "/"): False, ("ohm", "A", "*"): False, ("cm", "cm", "*"): False,
    ("cm", "m", "/"): False, ("Hz", "Hz", "/"): True, ("Hz", "Hz", "*"): False, ("1", "m", "*"): False, ("m", "1", "/"): False,
}
for (_a, _b, _op), _v in COLLAPSE.items():
    _m = UNITS[_a][2] * UNITS[_b][2] if _op == "*" else UNITS[_a][2] / UNITS[_b][2]
    assert _m.unitless() == _v, ("C14 model table inconsistent", _a, _b, _op)


def arith_ct(a, b):
    """usual arithmetic conversions on x86-64 (result type of a*b, a/b)"""
    for f in ("long double", "double", "float"):
        if a == f or b == f:
            return f
    a, b = F.promoted(a), F.promoted(b)
    if a == b:
        return a
    (ka, wa, _), (kb, wb, _) = F.CTYPES[a], F.CTYPES[b]
    if ka == kb:
        return a if wa >= wb else b
    u, s = (a, b) if ka == "u" else (b, a)
    wu, ws = F.CTYPES[u][1], F.CTYPES[s][1]
    if wu >= ws:
        return u
    return s


def sfx(ct):
    return {"int8_t": "i8", "uint8_t": "u8", "int16_t": "i16", "uint16_t": "u16", "int32_t": "i32", "uint32_t": "u32",
            "int64_t": "i64", "uint64_t": "u64", "float": "f", "double": "d", "long double": "ld"}[ct]


def is_int(ct):
    return not F.ct_is_float(ct)


def pow_expr(ct, k):
    """raw expression with the association order of a square-and-multiply recursion: x^0 = 1, odd: x * x^(k-1),
    even: r = x^(k/2); r*r.  Every level's value is converted back to T as a function returning T would."""
    T1 = "(%s)1" % ct

    def rec(k):
        if k < 0:
            return "(%s)(%s / %s)" % (ct, T1, rec(-k))
        if k == 0:
            return T1
        if k % 2 == 1:
            return "(%s)(x * %s)" % (ct, rec(k - 1))
        r = rec(k // 2)
        return "(%s)(%s * %s)" % (ct, r, r)
    return rec(k)


def same_bits(ct, a, r):
    """result equality: identical bits; for floating results two NaNs also count as equal (which NaN an arithmetic
    operation returns is not specified by C++/IEEE 754, and clang folds x*1.0 -> x which keeps a signalling NaN)"""
    e = T.eq(a, r)
    if F.ct_is_float(ct):
        fmt = F.FMT_OF[ct]
        return T.or_(e, T.and_(T.fp_isnan(fmt, a), T.fp_isnan(fmt, r)))
    return e


PRELUDE = """
template <class T> struct AuvUnitOf { using type = UnitProductT<>; };
template <class U, class R> struct AuvUnitOf<Quantity<U, R>> { using type = U; };
template <class T> struct AuvRepOf { using type = T; };
template <class U, class R> struct AuvRepOf<Quantity<U, R>> { using type = R; };
// raw square-and-multiply recursion with the association order of math.hh (x^0 = 1; odd: x * x^(k-1); even: r = x^(k/2), r*r)
template <class T> constexpr T auv_pow(T x, int k) { if (k < 0) { return T{1} / auv_pow(x, -k); } if (k == 0) { return T{1}; } if (k % 2 == 1) { return x * auv_pow(x, k - 1); } const auto r = auv_pow(x, k / 2); return r * r; }
"""


class C14(F.Check):
    pid = "C14"
    level = "translation_validation"
    assumptions = [
        "clang 14 front end and -O1 pipeline, own LLVM-IR->SMT encoder, z3 5.1 / cvc5 1.0.3 are trusted",
        "reference kernels (bare operator / std function on the rep) are lowered by the same compiler in the same TU; "
        "equivalence = same result bits and same trap/UB condition for all inputs",
        "std::sqrt / std::cbrt (and their f/l variants) are uninterpreted functions of the argument bit pattern: the claim "
        "is congruence (au calls the same libm function on the stored value), not the accuracy of libm",
        "quantifier over unit pairs, rep pairs and exponents is an enumerated grid (library units + compound units), not symbolic",
        "expected units come from a hand-written model (dimension vector and rational magnitude from SI definitions) spelled "
        "in C++ from base units only; pi-bearing units (degrees, revolutions) are not in the grid",
        "the value is read back with .in(<model unit>) so a wrong result unit also shows up as a value difference",
        "well-formedness clauses (integer-division guard, as_raw_number rejections) are outside the solver-decided claim; "
        "a handful of negative compile probes are recorded as closed facts (kernel line must be rejected with the guard's message)",
        "int_pow on sub-int reps: intermediate results are converted back to the rep (implementation-defined narrowing, not "
        "UB), so the integer claim is 'x^k representable => result == x^k and no trap', not 'no trap => result == x^k'",
        "x87 long double modelled as (_ FloatingPoint 15 64)",
    ]

    def bounds(self):
        return {"stored values": "every bit pattern of every argument (no bound)",
                "reps": self.reps, "rep pairs": ["%s x %s" % p for p in self.rep_pairs],
                "unit pairs (value kernels)": len(self.val_pairs), "unit pairs (closed)": len(COLLAPSE),
                "exponents": "-4..4 (integral reps 0..4)", "roots": [2, 3], "unwind": 0, "inline_depth": 8}

    encode_opts = {"inline_depth": 8}

    # ------------------------------------------------------------------------------------------------------------
    def grid(self):
        th = self.tier == "thorough"
        self.reps = ["int8_t", "uint8_t", "int16_t", "int32_t", "uint32_t", "int64_t", "uint64_t", "float", "double", "long double"]
        if th:
            self.reps = list(F.ALL_REPS)
        mixed = [("int32_t", "double"), ("int16_t", "int64_t"), ("int8_t", "uint8_t"), ("float", "double"),
                 ("int32_t", "uint32_t"), ("double", "int64_t")]
        if th:
            mixed += [("uint16_t", "int16_t"), ("int64_t", "uint64_t"), ("float", "int32_t"), ("long double", "double"),
                      ("uint8_t", "uint64_t"), ("int64_t", "float"), ("uint32_t", "int64_t")]
        self.rep_pairs = [(r, r) for r in self.reps] + mixed
        self.val_pairs = [("m", "s"), ("Hz", "s"), ("Hz", "ms"), ("m", "m"), ("pct", "m"), ("ft", "in"), ("N", "m")]
        if th:
            self.val_pairs += [("km", "h"), ("W", "s"), ("V", "A"), ("Hz", "1/s"), ("kn", "m/s"), ("B", "bit"), ("pct", "pct"),
                               ("1", "1"), ("L", "m3"), ("J", "N")]
        self.equiv_pairs = [("m", "m"), ("Hz", "1/s")] + ([("pct", "pct"), ("m/s", "m/s"), ("J", "J")] if th else [])
        self.scalar_units = ["m", "Hz"] + (["pct", "ft", "N"] if th else [])
        self.pow_units = ["m", "ft"] + (["Hz", "pct", "m/s"] if th else [])
        self.root_units = {2: ["m2", "m", "ft2", "m2/s2"], 3: ["m3", "m", "in3"]}

    def kernels(self):
        self.prelude = PRELUDE
        self.grid()
        ks = []
        self.pairs = []       # (tag, au kernel, ref kernel, arg ctypes, ret ctype, key, family, expect_compile)
        self.zpow = []        # (tag, au kernel, ct, k, key)
        self.trees = []       # (tag, au kernel, explicit-tree reference, ct, k, key)
        self.closed = []      # (kernel name, expected bool, note, key)
        self.probes = []      # (kernel name, message regex, key)
        self.refs = {}

        def ref(name, ret, args, body):
            if name not in self.refs:
                k = F.Kernel(name, ret, args, body, family="reference")
                self.refs[name] = k
                ks.append(k)
            return name

        def pair(tag, ret, args, body, refname, key, fam):
            k = F.Kernel("c14_" + tag, ret, args, body, key=key, family=fam)
            ks.append(k)
            self.pairs.append((tag, k.name, refname, [a for a, _ in args], ret, key, fam))
            return k

        def U(u):
            return UNITS[u]

        # ---- q1 * q2, q1 / q2, q1 / unblock_int_div(q2)
        for r1, r2 in self.rep_pairs:
            rr = arith_ct(r1, r2)
            rp = "%s_%s" % (sfx(r1), sfx(r2))
            args = [(r1, "x"), (r2, "y")]
            rmul = ref("c14_ref_mul_" + rp, rr, args, "return x * y;")
            rdiv = ref("c14_ref_div_" + rp, rr, args, "return x / y;")
            both_int = is_int(r1) and is_int(r2)
            for i, (a, b) in enumerate(self.val_pairs):
                (ma, ta, ua), (mb, tb, ub) = U(a), U(b)
                key = {"rep1": r1, "rep2": r2, "unit1": a, "unit2": b}
                pm, qm = ua * ub, ua / ub
                if pm.unitless():
                    body = "return %s(x) * %s(y);" % (ma, mb)
                else:
                    body = "return (%s(x) * %s(y)).in(%s{});" % (ma, mb, pm.cxx())
                pair("mul_%s_%d" % (rp, i), rr, args, body, rmul, dict(key, op="q*q"), "q*q")
                if not both_int:
                    if qm.unitless():
                        body = "return %s(x) / %s(y);" % (ma, mb)
                    else:
                        body = "return (%s(x) / %s(y)).in(%s{});" % (ma, mb, qm.cxx())
                    pair("div_%s_%d" % (rp, i), rr, args, body, rdiv, dict(key, op="q/q"), "q/q")
                if both_int or i < 3:
                    # unblock_int_div never collapses to a raw number (make_quantity, not _unless_unitless): read with .in
                    body = "return (%s(x) / unblock_int_div(%s(y))).in(%s{});" % (ma, mb, qm.cxx())
                    pair("udiv_%s_%d" % (rp, i), rr, args, body, rdiv, dict(key, op="q/unblock_int_div(q)"), "q/unblock(q)")
            if both_int:
                for i, (a, b) in enumerate(self.equiv_pairs):
                    (ma, ta, ua), (mb, tb, ub) = U(a), U(b)
                    assert (ua / ub).unitless()
                    key = {"rep1": r1, "rep2": r2, "unit1": a, "unit2": b, "op": "q/q (equivalent units, integral)"}
                    pair("idiv_%s_%d" % (rp, i), rr, args, "return %s(x) / %s(y);" % (ma, mb), rdiv, key, "q/q")
            # ---- scalar forms
            for i, a in enumerate(self.scalar_units):
                ma, ta, ua = U(a)
                key = {"rep1": r1, "rep2": r2, "unit": a}
                pair("smul_%s_%d" % (rp, i), rr, args, "return (x * %s(y)).in(%s{});" % (ma, ua.cxx()), rmul,
                     dict(key, op="s*q"), "s*q")
                pair("muls_%s_%d" % (rp, i), rr, args, "return (%s(x) * y).in(%s{});" % (ma, ua.cxx()), rmul,
                     dict(key, op="q*s"), "q*s")
                pair("divs_%s_%d" % (rp, i), rr, args, "return (%s(x) / y).in(%s{});" % (ma, ua.cxx()), rdiv,
                     dict(key, op="q/s"), "q/s")
                iu = ua.inv().cxx()
                if not both_int:
                    pair("sdiv_%s_%d" % (rp, i), rr, args, "return (x / %s(y)).in(%s{});" % (ma, iu), rdiv,
                         dict(key, op="s/q"), "s/q")
                pair("sudiv_%s_%d" % (rp, i), rr, args, "return (x / unblock_int_div(%s(y))).in(%s{});" % (ma, iu), rdiv,
                     dict(key, op="s/unblock_int_div(q)"), "s/unblock(q)")
                if i == 0:
                    pair("qudivs_%s_%d" % (rp, i), rr, args, "return (%s(x) / unblock_int_div(y)).in(%s{});" % (ma, ua.cxx()),
                         rdiv, dict(key, op="q/unblock_int_div(s)"), "q/unblock(s)")

        # ---- int_pow, sqrt, cbrt, as_raw_number (one rep)
        for ct in self.reps:
            s = sfx(ct)
            a1 = [(ct, "x")]
            for k in range(-4, 5):
                if is_int(ct) and k < 0:
                    continue
                ks_ = str(k).replace("-", "m")
                rk = ref("c14_ref_pow_%s_%s" % (s, ks_), ct, a1, "return auv_pow<%s>(x, %d);" % (ct, k))
                rt = ref("c14_ref_tree_%s_%s" % (s, ks_), ct, a1, "return %s;" % pow_expr(ct, k))
                for i, a in enumerate(self.pow_units):
                    ma, ta, ua = U(a)
                    if is_int(ct) and i > 0 and self.tier != "thorough":
                        continue
                    key = {"rep": ct, "unit": a, "k": k, "op": "int_pow"}
                    tag = "pow_%s_%s_%d" % (s, ks_, i)
                    kk = pair(tag, ct, a1, "return int_pow<%d>(%s(x)).in(%s{});" % (k, ma, ua.pow(k).cxx()), rk, key, "int_pow")
                    if i == 0:
                        self.trees.append((tag, kk.name, rt, ct, k, key))
                    if is_int(ct) and F.ct_signed(ct) and i == 0 and k >= 2:
                        self.zpow.append((tag, kk.name, ct, k, key))
            # roots
            for deg, fn in ((2, "sqrt"), (3, "cbrt")):
                rct = ct if F.ct_is_float(ct) else "double"
                if is_int(ct) and ct not in ("int32_t", "uint8_t", "int64_t"):
                    continue
                rn = ref("c14_ref_%s_%s" % (fn, s), rct, a1, "return std::%s(x);" % fn)
                for i, a in enumerate(self.root_units[deg]):
                    ma, ta, ua = U(a)
                    if is_int(ct) and i > 0:
                        continue
                    key = {"rep": ct, "unit": a, "op": fn}
                    pair("%s_%s_%d" % (fn, s, i), rct, a1, "return %s(%s(x)).in(%s{});" % (fn, ma, ua.pow(Fraction(1, deg)).cxx()),
                         rn, key, fn)
            # as_raw_number
            rid = ref("c14_ref_id_" + s, ct, a1, "return x;")
            pair("raw_unos_" + s, ct, a1, "return as_raw_number(unos(x));", rid, {"rep": ct, "unit": "1", "op": "as_raw_number"}, "as_raw_number")
            pair("raw_id_" + s, ct, a1, "return as_raw_number(x);", rid, {"rep": ct, "unit": "(raw)", "op": "as_raw_number"}, "as_raw_number")
            pair("raw_hzs_" + s, F.promoted(ct) if is_int(ct) else ct, a1, "return as_raw_number(hertz(x) * seconds((%s)1));" % ct,
                 ref("c14_ref_x1_" + s, F.promoted(ct) if is_int(ct) else ct, a1, "return x * (%s)1;" % ct),
                 {"rep": ct, "unit": "Hz*s", "op": "as_raw_number"}, "as_raw_number")
            if F.ct_is_float(ct):
                r100 = ref("c14_ref_div100_" + s, ct, a1, "return x / (%s)100;" % ct)
                pair("raw_pct_" + s, ct, a1, "return as_raw_number(percent(x));", r100, {"rep": ct, "unit": "pct", "op": "as_raw_number"}, "as_raw_number")
            if F.ct_is_float(ct) or ct in ("int32_t", "int64_t", "uint32_t", "uint64_t"):
                r1000 = ref("c14_ref_mul1000_" + s, ct, a1, "return x * (%s)1000;" % ct)
                pair("raw_k_" + s, ct, a1, "return as_raw_number(make_quantity<decltype(Unos{} * mag<1000>())>(x));", r1000,
                     {"rep": ct, "unit": "1000 x unos", "op": "as_raw_number"}, "as_raw_number")

        # ---- closed: units of results and raw-number collapse
        def closed(name, body, expect, note, key):
            k = F.Kernel("c14_cl_" + name, "bool", [], body, key=key, family="closed")
            ks.append(k)
            self.closed.append((k.name, expect, note, key))

        items = sorted(COLLAPSE.items())
        if self.tier != "thorough":
            items = items[:]      # cheap: keep all
        for j, ((a, b, op), collapse) in enumerate(items):
            (ma, ta, ua), (mb, tb, ub) = U(a), U(b)
            mu = ua * ub if op == "*" else ua / ub
            e = "%s(1.0) %s %s(1.0)" % (ma, op, mb)
            key = {"unit1": a, "unit2": b, "op": op}
            closed("arith_%d" % j, "return std::is_arithmetic<decltype(%s)>::value;" % e, collapse,
                   "result is a raw number exactly when the model's unit is dimensionless with magnitude 1", key)
            closed("unit_%d" % j, "return are_units_quantity_equivalent(typename AuvUnitOf<decltype(%s)>::type{}, %s{});" % (e, mu.cxx()),
                   True, "unit of the result is quantity-equivalent to the model's product/quotient unit", key)
            lib = "UnitProductT<%s, %s>" % (ta, tb) if op == "*" else "UnitQuotientT<%s, %s>" % (ta, tb)
            if collapse:
                closed("type_%d" % j, "return std::is_same<decltype(%s), double>::value;" % e, True, "exact result type double", key)
            else:
                closed("type_%d" % j, "return std::is_same<decltype(%s), Quantity<%s, double>>::value;" % (e, lib), True,
                       "exact result type Quantity<UnitProductT/UnitQuotientT<U1,U2>, double>", key)
            if op == "/":
                eu = "%s(1) / unblock_int_div(%s(1))" % (ma, mb)
                closed("ucoll_%d" % j, "return std::is_convertible<decltype(%s), int>::value;" % eu, collapse,
                       "q/unblock_int_div(q) is usable as a raw number exactly when the model's units cancel", key)
                closed("uunit_%d" % j, "return are_units_quantity_equivalent(typename AuvUnitOf<decltype(%s)>::type{}, %s{});" % (eu, mu.cxx()),
                       True, "unit of q/unblock_int_div(q)", key)
        # units that cancel in DIMENSION but leave an irrational scale factor (a power of pi, a root) are not the unitless unit: the result
        # stays a Quantity and does not convert implicitly to its rep; an exactly cancelling irrational factor does collapse. Hand-written.
        IRR = [
            ("rev_per_2rad", "revolutions(1.0) / (radians * mag<2>())(1.0)", False, "leftover factor pi"),
            ("rev_times_inv_2rad", "revolutions(6) * pow<-1>(radians * mag<2>())(2)", False, "leftover factor pi, integral reps"),
            ("deg_per_rad", "degrees(1.0) / radians(1.0)", False, "leftover factor pi/180"),
            ("pirad_per_rad", "(radians * Magnitude<Pi>{})(1.0) / radians(1.0)", False, "leftover factor pi"),
            ("rad_per_pirad", "radians(1.0) / (radians * Magnitude<Pi>{})(1.0)", False, "leftover factor 1/pi"),
            ("pi2", "(unos * Magnitude<Pi>{})(1.0) * (unos * Magnitude<Pi>{})(1.0)", False, "leftover factor pi^2"),
            ("pim_per_pim", "(meters * Magnitude<Pi>{})(1.0) / (meters * Magnitude<Pi>{})(1.0)", True, "pi cancels exactly"),
            ("pim_times_inv", "(meters * Magnitude<Pi>{})(1.0) * pow<-1>(meters * Magnitude<Pi>{})(1.0)", True, "pi cancels exactly"),
            ("sqrt_dam_per_sqrt_m", "sqrt(deka(meters)(40.0)) / sqrt(meters(10.0))", False, "leftover factor sqrt(10)"),
            ("sqrt_hm_per_sqrt_m", "sqrt(hecto(meters)(4.0)) / sqrt(meters(1.0))", False, "leftover factor 10 (rational, not 1)"),
            ("sqrt_m_per_sqrt_m", "sqrt(meters(4.0)) / sqrt(meters(1.0))", True, "cancels exactly"),
            ("cbrt_pct_times_uno", "cbrt(percent(8.0)) * unos(1.0)", False, "leftover factor 100^(-1/3)"),
            ("cbrt_m3_per_m", "cbrt(cubed(meters)(8.0)) / meters(1.0)", True, "cancels exactly"),
            ("root2_ft_in", "sqrt(feet(1.0) * inches(1.0)) / inches(1.0)", False, "leftover factor sqrt(12)"),
        ]
        for nm, e, collapse, why in IRR:
            key = {"expression": e, "why": why}
            closed("irr_arith_" + nm, "return std::is_arithmetic<decltype(%s)>::value;" % e, collapse,
                   "result is a raw number exactly when the units cancel to the unitless unit (magnitude exactly 1), irrational leftovers included", key)
        # roots of roots and roots of units whose scale factor is itself a root: exponents multiply exactly (1/2 * 1/2 = 1/4, 1/3 * 1/3 = 1/9)
        NEST = [
            ("sqrt_sqrt_m", "sqrt(sqrt(meters(16.0)))", "UnitPowerT<Meters, 1, 4>"),
            ("cbrt_cbrt_m", "cbrt(cbrt(meters(8.0)))", "UnitPowerT<Meters, 1, 9>"),
            ("sqrt_cbrt_m", "sqrt(cbrt(meters(8.0)))", "UnitPowerT<Meters, 1, 6>"),
            ("cbrt_sqrt_m", "cbrt(sqrt(meters(8.0)))", "UnitPowerT<Meters, 1, 6>"),
            ("sqrt3_m", "sqrt(sqrt(sqrt(meters(256.0))))", "UnitPowerT<Meters, 1, 8>"),
            ("sqrt_sqrt_m4", "sqrt(sqrt(int_pow<4>(meters(2.0))))", "Meters"),
            ("cbrt_cbrt_m9", "cbrt(cbrt(int_pow<9>(meters(2.0))))", "Meters"),
            ("sqrt_of_root2m", "sqrt((meters * root<2>(mag<2>()))(4.0))", "decltype(root<2>(Meters{}) * root<4>(mag<2>()))"),
            ("pow4_sqrt_sqrt", "int_pow<4>(sqrt(sqrt(meters(16.0))))", "Meters"),
            ("inv_sqrt_sqrt", "1.0 / sqrt(sqrt(meters(16.0)))", "UnitPowerT<Meters, -1, 4>"),
        ]
        for nm, e, ut in NEST:
            closed("nest_unit_" + nm, "return are_units_quantity_equivalent(typename AuvUnitOf<decltype(%s)>::type{}, %s{});" % (e, ut), True,
                   "unit of a nested root / power is the unit with the PRODUCT of the exponents", {"expression": e, "expected_unit": ut})
        closed("nest_collapse", "return std::is_arithmetic<decltype(int_pow<4>(sqrt(sqrt(meters(16.0)))) / meters(1.0))>::value;", True,
               "(m^(1/4))^4 / m collapses to a raw number", {"expression": "int_pow<4>(sqrt(sqrt(meters(16.0)))) / meters(1.0)"})
        closed("nest_type_pow", "return std::is_same<UnitPowerT<UnitPowerT<Meters, 1, 2>, 1, 2>, UnitPowerT<Meters, 1, 4>>::value && "
               "std::is_same<UnitPowerT<UnitPowerT<Seconds, 2, 3>, 3, 4>, UnitPowerT<Seconds, 1, 2>>::value && "
               "std::is_same<UnitPowerT<UnitPowerT<Feet, 1, 3>, 1, 3>, UnitPowerT<Feet, 1, 9>>::value;", True,
               "UnitPowerT of UnitPowerT multiplies rational exponents exactly (non-coprime denominators included)", {})
        # 1/q and the unit-symbol spellings of it: the quotient keeps the rep of the quantity (float stays float) and has the inverse unit
        for r_ in ("float", "double", "long double"):
            rt_ = r_.replace(" ", "")
            for nm, e in (("one_over_q", "((%s)1 / seconds((%s)3))" % (r_, r_)), ("sym_over_q", "(symbols::m / seconds((%s)3))" % r_),
                          ("const_over_q", "(make_constant(meters) / seconds((%s)3))" % r_), ("sym_times_q", "(symbols::m * seconds((%s)3))" % r_),
                          ("q_over_sym", "(seconds((%s)3) / symbols::m)" % r_)):
                closed("rep_%s_%s" % (nm, rt_), "return std::is_same<typename std::decay_t<decltype(%s)>::Rep, %s>::value;" % (e, r_), True,
                       "the rep of the result is the rep of the quantity operand", {"expression": e, "rep": r_})
        for nm, ut, conv in (("uno", "Unos", True), ("pi_uno", "decltype(Unos{} * Magnitude<Pi>{})", False),
                             ("sqrt10_uno", "decltype(root<2>(Unos{} * mag<10>()))", False), ("pct", "Percent", False),
                             ("inv_pi_uno", "decltype(Unos{} / Magnitude<Pi>{})", False), ("rad", "Radians", False)):
            closed("irr_conv_" + nm, "return std::is_convertible<Quantity<%s, double>, double>::value;" % ut, conv,
                   "a Quantity converts implicitly to its rep exactly when its unit is the unitless unit", {"unit": ut})
        # rep of the result = rep of the raw operator
        for r1, r2 in self.rep_pairs:
            rp = "%s_%s" % (sfx(r1), sfx(r2))
            for op, (a, b) in (("*", ("m", "s")), ("/", ("m", "s")), ("*", ("Hz", "s"))):
                if op == "/" and is_int(r1) and is_int(r2):
                    e = "meters((%s)1) / unblock_int_div(seconds((%s)1))" % (r1, r2)
                else:
                    e = "%s((%s)1) %s %s((%s)1)" % (UNITS[a][0], r1, op, UNITS[b][0], r2)
                closed("rep_%s_%s%s" % (rp, "m" if op == "*" else "d", a), "return std::is_same<typename AuvRepOf<decltype(%s)>::type, decltype((%s)1 %s (%s)1)>::value;" % (e, r1, op, r2),
                       True, "rep of the result is the type of the raw operator on the reps", {"rep1": r1, "rep2": r2, "op": op, "unit1": a, "unit2": b})
        # powers and roots
        for a in ["m", "ft", "Hz", "pct", "m/s", "N"]:
            ma, ta, ua = U(a)
            for k in range(-4, 5):
                key = {"unit": a, "k": k}
                e = "int_pow<%d>(%s(1.0))" % (k, ma)
                nm = "%s_%s" % (a.replace("/", "p"), str(k).replace("-", "m"))
                closed("powunit_" + nm, "return are_units_quantity_equivalent(typename AuvUnitOf<decltype(%s)>::type{}, %s{});" % (e, ua.pow(k).cxx()),
                       True, "unit of int_pow<k>(q) is the model's U^k", key)
                closed("powtype_" + nm, "return std::is_same<decltype(%s), Quantity<UnitPowerT<%s, %d>, double>>::value;" % (e, ta, k),
                       True, "exact type of int_pow<k>(q)", key)
                closed("powcoll_" + nm, "return std::is_convertible<decltype(%s), double>::value;" % e, ua.pow(k).unitless(),
                       "int_pow<k>(q) usable as a raw number exactly when U^k is the unitless unit", key)
        for deg, fn in ((2, "sqrt"), (3, "cbrt")):
            for a in self.root_units[deg]:
                ma, ta, ua = U(a)
                e = "%s(%s(1.0))" % (fn, ma)
                closed("rootunit_%s_%s" % (fn, a.replace("/", "p")), "return are_units_quantity_equivalent(typename AuvUnitOf<decltype(%s)>::type{}, %s{});" % (
                    e, ua.pow(Fraction(1, deg)).cxx()), True, "unit of %s(q) is the model's U^(1/%d)" % (fn, deg), {"unit": a, "root": deg})
                closed("roottype_%s_%s" % (fn, a.replace("/", "p")), "return std::is_same<decltype(%s), Quantity<UnitPowerT<%s, 1, %d>, double>>::value;" % (e, ta, deg),
                       True, "exact type of %s(q)" % fn, {"unit": a, "root": deg})
        # s / q
        for a in ["m", "Hz", "pct", "ft"]:
            ma, ta, ua = U(a)
            closed("sdivunit_" + a, "return are_units_quantity_equivalent(typename AuvUnitOf<decltype(2.0 / %s(1.0))>::type{}, %s{});" % (ma, ua.inv().cxx()),
                   True, "unit of s/q is the model's inverse unit", {"unit": a})
            closed("sdivunit_u_" + a, "return are_units_quantity_equivalent(typename AuvUnitOf<decltype(2 / unblock_int_div(%s(1)))>::type{}, %s{});" % (ma, ua.inv().cxx()),
                   True, "unit of s/unblock_int_div(q) is the model's inverse unit", {"unit": a})
        # observations (strict raw-number-ness where the library uses make_quantity instead of make_quantity_unless_unitless)
        self.observe = []
        for nm, e in (("udiv_mm", "meters(6) / unblock_int_div(meters(2))"), ("pow0", "int_pow<0>(meters(2.0))"),
                      ("udiv_hz", "hertz(6) / unblock_int_div(pow<-1>(seconds)(2))")):
            k = F.Kernel("c14_obs_" + nm, "bool", [], "return std::is_arithmetic<decltype(%s)>::value;" % e, family="observation")
            ks.append(k)
            self.observe.append((k.name, e))

        # ---- negative compile probes (guards): these lines must be rejected
        def probe(name, ret, args, body, pattern, key):
            k = F.Kernel("c14_probe_" + name, ret, args, body, key=key, family="negative-probe")
            ks.append(k)
            self.probes.append((k.name, pattern, key))
        i32 = [("int32_t", "x"), ("int32_t", "y")]
        probe("idiv_ms", "int32_t", i32, "return (meters(x) / seconds(y)).in(Meters{} / Seconds{});", "Integer division forbidden",
              {"op": "q/q", "units": "m, s", "rep": "int32_t"})
        probe("idiv_ftin", "int32_t", i32, "return (feet(x) / inches(y)).in(Feet{} / Inches{});", "Integer division forbidden",
              {"op": "q/q", "units": "ft, in", "rep": "int32_t"})
        probe("sdiv_m", "int32_t", i32, "return (x / meters(y)).in(pow<-1>(Meters{}));", "Integer division forbidden",
              {"op": "s/q", "units": "m", "rep": "int32_t"})
        probe("raw_m", "double", [("double", "x")], "return as_raw_number(meters(x));", ".", {"op": "as_raw_number", "units": "m", "rep": "double"})
        probe("raw_pct_i", "int32_t", [("int32_t", "x")], "return as_raw_number(percent(x));", ".",
              {"op": "as_raw_number", "units": "pct", "rep": "int32_t"})
        probe("pow_neg_i", "int32_t", [("int32_t", "x")], "return int_pow<-1>(meters(x)).in(pow<-1>(Meters{}));", "Negative exponent",
              {"op": "int_pow<-1>", "units": "m", "rep": "int32_t"})
        # as_raw_number acceptance grid: "accepts only dimensionless quantities whose conversion to the unitless unit is policy-safe".
        # Policy (documented, see C06): integral rep R and integer factor k are safe iff 2147 * k <= max(R); non-integer factors are
        # refused for integral reps; floating reps accept every factor.
        self.raw_grid = []
        greps = F.INT_REPS + ["float", "double"] if self.tier == "thorough" else ["int8_t", "uint8_t", "int16_t", "uint16_t", "int32_t", "uint32_t", "int64_t", "double"]
        for ct in greps:
            s = sfx(ct)
            a1 = [(ct, "x")]
            if F.ct_is_float(ct):
                facs = [(1000, 1), (10 ** 9, 1), (1, 100), (3, 7)]
            else:
                hi = F.ct_range(ct)[1]
                t = hi // 2147
                facs = sorted(set(f for f in (1, 2, 10, 1000, 10 ** 7, 10 ** 9, t, t + 1, 2 * t + 1) if 1 <= f < (1 << 63)))
                facs = [(f, 1) for f in facs] + [(1, 100), (3, 2)]
            for n, d in facs:
                u = "decltype(Unos{} * mag<%dull>() / mag<%dull>())" % (n, d)
                accept = F.ct_is_float(ct) or (d == 1 and (n == 1 or 2147 * n <= F.ct_range(ct)[1]))   # k == 1 is always exact
                key = {"rep": ct, "unit": "%d/%d x unos" % (n, d), "op": "as_raw_number", "policy_accepts": accept}
                k = F.Kernel("c14_rawgrid_%s_%d_%d" % (s, n, d), ct, a1, "return as_raw_number(make_quantity<%s>(x));" % u, key=key, family="as_raw_number_grid")
                ks.append(k)
                rn = None
                if accept and d == 1 and not F.ct_is_float(ct):
                    rn = ref("c14_ref_mulk_%s_%d" % (s, n), ct, a1, "return x * (%s)%dull;" % (ct, n))
                self.raw_grid.append((k.name, rn, ct, accept, key))
        probe("raw_ghzs_i", "int32_t", i32, "return as_raw_number(giga(hertz)(x) * seconds(y));", ".",
              {"op": "as_raw_number", "units": "GHz*s (factor 10^9, overflow-risky for int32)", "rep": "int32_t"})
        self.programs = len(self.pairs)
        return ks

    # ------------------------------------------------------------------------------------------------------------
    def obligations(self, K):
        import re
        obs = []
        ndrop = 0
        for tag, au, rf, argcts, ret, key, fam in self.pairs:
            ka, kr = K[au].kernel, K[rf].kernel
            if ka.dropped or kr.dropped:
                ndrop += 1
                ob = F.Ob("skip:" + tag, [], None, key=key)
                ob.status = "skipped-domain"
                obs.append(ob)
                self.inconclusive.append("kernel pair %s (%s) was expected to compile but was dropped: %s" % (
                    tag, ka.body, (ka.dropped or kr.dropped)[:160]))
                continue
            vs = [("x%d" % i, F.ct_sort(ct)) for i, ct in enumerate(argcts)]
            isfp = any(F.ct_is_float(c) for c in argcts + [ret])

            def fn(K, *xs, au=au, rf=rf, ret=ret):
                a = K[au](*xs)
                r = K[rf](*xs)
                return T.TRUE, T.and_(same_bits(ret, a.ret, r.ret), T.eq(a.ub, r.ub))
            kind = "claimed"
            to = None
            if "long double" in argcts and self.tier != "thorough":
                to = 60
            obs.append(F.Ob("eq:" + tag, vs, fn, kind=kind, routes=F.FP_ROUTES if isfp else F.INT_ROUTES, key=key,
                            kernels=[au, rf], timeout=to, note="au %s == raw reference: same result bits, same trap condition" % fam))
        # int_pow against the explicit multiplication tree (x*x, x*(x*x), (x*x)*(x*x), 1/...): the library multiplies by an
        # explicit 1 at the bottom of its recursion, which the compiler keeps at run time (int_pow_impl is not inlined)
        for tag, au, rt, ct, k, key in self.trees:
            if K[au].kernel.dropped or K[rt].kernel.dropped:
                continue
            isfp = F.ct_is_float(ct)

            if not isfp:
                def tfn(K, x, au=au, rt=rt, ct=ct):
                    a = K[au](x)
                    r = K[rt](x)
                    return T.TRUE, T.and_(same_bits(ct, a.ret, r.ret), T.eq(a.ub, r.ub))
                obs.append(F.Ob("tree:" + tag, [("x", F.ct_sort(ct))], tfn, routes=F.INT_ROUTES, key=key, kernels=[au, rt],
                                note="int_pow<k> == explicit raw multiplication tree in square-and-multiply association order"))
                continue
            # floating reps, compositional: (L) x (*) 1 == x for every non-NaN x   [tree k=1, solver]
            #   (S) non-NaN x: the au term with every "x (*) 1" replaced by x (justified by L) == explicit tree  [structural]
            #   (N) NaN x: both results are NaN  [solver]
            fmt = F.FMT_OF[ct]
            wd = T.fmt_width(fmt)
            one = T.const_bv(fpeval.from_fraction(fmt, Fraction(1)), wd)
            xs = [("x", T.BV(wd))]
            slow = ct == "long double"

            def lfn(K, x, au=au, rt=rt, ct=ct, fmt=fmt):
                a = K[au](x)
                r = K[rt](x)
                return T.not_(T.fp_isnan(fmt, x)), T.and_(T.eq(a.ret, r.ret), T.eq(a.ub, r.ub))

            def sfn(K, x, au=au, rt=rt, ct=ct, fmt=fmt, one=one):
                a = K[au](x)
                r = K[rt](x)
                m = {t.uid: x for t in T.subterms([a.ret]) if t.op == "fp.mul" and
                     ((t.args[0] is x and t.args[1] is one) or (t.args[1] is x and t.args[0] is one))}
                a2 = T.substitute(a.ret, m) if m else a.ret
                return T.not_(T.fp_isnan(fmt, x)), T.and_(T.eq(a2, r.ret), T.eq(a.ub, r.ub))

            def nfn(K, x, au=au, rt=rt, ct=ct, fmt=fmt):
                a = K[au](x)
                r = K[rt](x)
                return T.fp_isnan(fmt, x), T.and_(T.fp_isnan(fmt, a.ret), T.fp_isnan(fmt, r.ret), T.not_(a.ub), T.not_(r.ub))
            if k == 1:
                obs.append(F.Ob("tree_L:" + tag, xs, lfn, kind="stretch" if slow and self.tier != "thorough" else "claimed",
                                routes=F.FP_ROUTES, key=key, kernels=[au, rt], timeout=60 if slow else None,
                                note="lemma L: int_pow<1>(x) = x (*) 1 has the bits of x for every non-NaN x"))
            else:
                obs.append(F.Ob("tree_S:" + tag, xs, sfn, routes=F.FP_ROUTES, key=key, kernels=[au, rt],
                                note="non-NaN x: int_pow<k> with x (*) 1 rewritten to x (lemma L) == explicit raw multiplication tree "
                                     "in square-and-multiply association order"))
            if k != 0:
                # measured: k > 0 decides in < 4 s for every format; k < 0 (a division on top) 0.5-5 s for float,
                # 3-24 s for double, 14-67 s for x87 -> those are stretch, attempted in the thorough tier only
                nkind = "claimed" if (k > 0 or ct == "float") else "stretch"
                if nkind == "stretch" and self.tier != "thorough":
                    continue
                obs.append(F.Ob("tree_N:" + tag, xs, nfn, kind=nkind,
                                routes=F.FP_ROUTES, key=key, kernels=[au, rt], timeout=90 if nkind == "stretch" else None,
                                note="NaN x: int_pow<k> and the explicit tree both return a NaN, no trap"))
        # int_pow against x^k in Z
        for tag, au, ct, k, key in self.zpow:
            if K[au].kernel.dropped:
                continue
            w = F.CTYPES[ct][1]
            lo, hi = F.ct_range(ct)
            small = w <= 16
            if not small and k > 2 and self.tier != "thorough":
                continue

            def zfn(K, x, au=au, ct=ct, k=k, lo=lo, hi=hi, small=small):
                a = K[au](x)
                xi = F.ival(ct, x)
                p = xi
                for _ in range(k - 1):
                    p = T.imul(p, xi)
                if small:
                    # sub-int reps: arithmetic is done in int and converted back, never traps
                    return T.in_range(p, lo, hi), T.and_(T.not_(a.ub), T.eq(F.ival(ct, a.ret), p))
                return T.not_(a.ub), T.eq(F.ival(ct, a.ret), p)
            obs.append(F.Ob("zpow:" + tag, [("x", T.BV(w))], zfn, kind="claimed" if small else "stretch",
                            routes=["z3-bv", "cvc5-bv", "z3-int"] if small else ["z3-int", "cvc5-int"], key=key, kernels=[au],
                            note=("x^k representable => no trap and result == x^k in Z" if small else "no trap => result == x^k in Z")))
            if small:
                def nfn(K, x, au=au):
                    return T.TRUE, T.not_(K[au](x).ub)
                obs.append(F.Ob("zpow_notrap:" + tag, [("x", T.BV(w))], nfn, routes=F.CMP_ROUTES, key=key, kernels=[au],
                                note="int_pow on a sub-int rep never traps (products are formed in int and converted back)"))

                def wfn(K, x, au=au, ct=ct, k=k):
                    a = K[au](x)
                    xi = F.ival(ct, x)
                    p = xi
                    for _ in range(k - 1):
                        p = T.imul(p, xi)
                    return T.not_(a.ub), T.ne(F.ival(ct, a.ret), p)
                obs.append(F.Ob("zpow_wraps:" + tag, [("x", T.BV(w))], wfn, kind="stretch", expect="sat",
                                routes=["z3-bv", "cvc5-bv", "z3-int"], key=key, kernels=[au],
                                note="witness: there is an x for which int_pow silently returns a value != x^k without any trap"))
        # closed
        for name, expect, note, key in self.closed:
            if K[name].kernel.dropped:
                ob = F.Ob("skip:" + name, [], None, key=key)
                ob.status = "skipped-domain"
                obs.append(ob)
                self.inconclusive.append("closed kernel %s does not compile: %s" % (K[name].kernel.body, K[name].kernel.dropped[:160]))
                continue

            def cfn(K, name=name, expect=expect):
                e = K[name]()
                return T.TRUE, T.and_(T.not_(e.ub), T.eq(e.ret, T.const_bool(expect)))
            obs.append(F.Ob("closed:" + name, [], cfn, kind="closed", key=dict(key, expected=expect), kernels=[name], note=note))
        # negative probes
        for name, rn, ct, accept, key in self.raw_grid:
            def afn(K, name=name, accept=accept):
                return T.TRUE, T.const_bool(bool(K[name].kernel.dropped) != accept)
            obs.append(F.Ob("raw_accept:" + name, [], afn, kind="closed", key=key, kernels=[name],
                            note="as_raw_number compiles exactly when the conversion to the unitless unit is policy-safe (observed at lowering)"))
            if accept and rn and not K[name].kernel.dropped and not K[rn].kernel.dropped:
                def vfn(K, x, name=name, rn=rn, ct=ct):
                    a, r = K[name](x), K[rn](x)
                    return T.TRUE, T.and_(same_bits(ct, a.ret, r.ret), T.eq(a.ub, r.ub))
                obs.append(F.Ob("raw_value:" + name, [("x", F.ct_sort(ct))], vfn, routes=F.INT_ROUTES, key=key, kernels=[name, rn],
                                note="accepted as_raw_number == x * k: same bits, same trap condition"))
        for name, pattern, key in self.probes:
            def pfn(K, name=name, pattern=pattern):
                d = K[name].kernel.dropped
                return T.TRUE, T.const_bool(bool(d) and re.search(pattern, d) is not None)
            obs.append(F.Ob("guard:" + name, [], pfn, kind="closed", key=key, kernels=[name],
                            note="negative compile probe: this line must be rejected (%s)" % pattern))
        # strict reading of "collapsing to a raw number exactly when the units cancel": known finding D13 on the unblock_int_div
        # and int_pow<0> forms (the library uses make_quantity there, not make_quantity_unless_unitless)
        for name, e in self.observe:
            h = K[name]
            if h.kernel.dropped:
                continue

            def sfn(K, name=name):
                return T.TRUE, K[name]().ret
            obs.append(F.Ob("strict_collapse:" + name, [], sfn, kind="closed", key={"expression": e, "expected": "a raw number (units cancel)"},
                            kernels=[name], note="units cancel => result is a raw arithmetic value"))
        return obs

    def known_predicates(self):
        def d13(ob, vs):
            return T.TRUE if ob.name.startswith("strict_collapse:") else None
        return {"D13": d13}


CHECK = C14
