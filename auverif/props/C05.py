"""C05 - Rep-changing conversions and their checkers are sound (DESIGN.md section 6, C05)."""
from fractions import Fraction
from .. import framework as F
from .. import terms as T
from .. import model as M
from .. import encode
from .C03 import mag_unit

RANK = {"float": 1, "double": 2, "long double": 3}


def common_type(a, b):
    if a == b:
        return a
    fa, fb = F.ct_is_float(a), F.ct_is_float(b)
    if fa or fb:
        if fa and fb:
            return a if RANK[a] >= RANK[b] else b
        return a if fa else b
    a, b = F.promoted(a), F.promoted(b)
    if a == b:
        return a
    sa, sb = F.ct_signed(a), F.ct_signed(b)
    wa, wb = F.CTYPES[a][1], F.CTYPES[b][1]
    if sa == sb:
        if wa == wb:
            return a if "long long" in a else b      # same width: the higher conversion rank wins
        return a if wa >= wb else b
    u, s = (a, b) if not sa else (b, a)
    wu, ws = F.CTYPES[u][1], F.CTYPES[s][1]
    if wu >= ws:
        return u
    return s


INT_FACTORS = [(1, 1), (1000, 1), (1, 1000), (381, 1250), (3, 1), (1, 3), (3, 7), (10 ** 9, 1), (1, 10 ** 6), (100, 1),
               (1, 100), (7, 2)]
FLT_FACTORS = [((1, 1), None), ((1000, 1), None), ((1, 1000), None), ((381, 1250), None), ((1, 8), None),
               (None, ("Degrees", "Radians")), ((10 ** 9, 1), None)]


class C05(F.Check):
    pid = "C05"
    level = "model_checking"
    assumptions = [
        "clang 14 front end and -O1 pipeline, own LLVM-IR->SMT encoder, z3 5.1 / cvc5 1.0.3 are trusted",
        "121 ordered rep pairs are all covered; the factor quantifier is an enumerated list per pair (rotating subset in quick)",
        "integral common type: step-wise exact oracle (cast to common type, xN in promoted type, /D, cast to target); "
        "floating common type: y := the value the library itself computes in the common type (kernel coerce_in<Common>), "
        "soundness = not lossy => final cast defined and value-preserving, completeness = NaN/inf/out-of-range/non-integral y => lossy",
        "precision of overflow reporting ('only when a step really leaves its range') is claimed for integral sources with integral common type only, as in the property",
        "double->float style narrowing: not lossy and finite input => finite result (rounding is not loss)",
        "x87 long double modelled as (_ FloatingPoint 15 64); long-double common type obligations are stretch in quick tier unless factor is 1",
    ]

    def bounds(self):
        return {"stored values": "all values / bit patterns of the source rep", "rep pairs": "121 + 18 with long long / unsigned long long",
                "factors per pair": "quick: 2-3 rotating; thorough: all of %d integral / %d floating" % (len(INT_FACTORS), len(FLT_FACTORS))}

    def kernels(self):
        ks = []
        self.inst = []
        pair_idx = 0
        pairs = [(s, t) for s in F.ALL_REPS for t in F.ALL_REPS]
        # long long / unsigned long long: distinct types from int64_t / uint64_t on LP64, same arithmetic (type-identity dispatch can differ)
        for tw in F.TWIN_INT_REPS:
            pairs += [(tw, t) for t in ("int32_t", "uint64_t", "int64_t", tw, "double")] + [(s, tw) for s in ("int64_t", "uint8_t", "uint64_t", "double")]
        for s, t in pairs:
            if True:
                c = common_type(s, t)
                pair_idx += 1
                if F.ct_is_float(c):
                    facs = list(FLT_FACTORS)
                else:
                    facs = [(f, None) for f in INT_FACTORS if M.conversion_compiles(c, f[0], f[1]) or f == (1, 1)]
                if self.tier == "quick":
                    n = len(facs)
                    pick = [facs[0], facs[1 + pair_idx % (n - 1)], facs[1 + (pair_idx * 5 + 2) % (n - 1)]]
                    facs = list(dict.fromkeys(pick))
                for fi, (nd, units) in enumerate(facs):
                    if units:
                        u1, u2 = units
                        lab = "%s->%s" % units
                    else:
                        u1, u2 = mag_unit(nd[0]), mag_unit(nd[1])
                        lab = "%d/%d" % nd
                    tag = "%s_%s_%d" % (s.replace("_t", "").replace(" ", ""), t.replace("_t", "").replace(" ", ""), fi)
                    key = {"S": s, "T": t, "common": c, "factor": lab}
                    q = "make_quantity<%s>(x)" % u1
                    names = {}
                    bodies = [("conv", t, "return %s.coerce_in<%s>(%s{});" % (q, t, u2)),
                              ("lossy", "bool", "return is_conversion_lossy<%s>(%s, %s{});" % (t, q, u2)),
                              ("ovf", "bool", "return will_conversion_overflow<%s>(%s, %s{});" % (t, q, u2)),
                              ("trunc", "bool", "return will_conversion_truncate<%s>(%s, %s{});" % (t, q, u2))]
                    if F.ct_is_float(c):
                        bodies.append(("mid", c, "return %s.coerce_in<%s>(%s{});" % (q, c, u2)))
                    if nd == (1, 1):
                        bodies.append(("rc", t, "return rep_cast<%s>(%s).in(%s{});" % (t, q, u1)))
                    for fam, rt, body in bodies:
                        k = F.Kernel("c05_%s_%s" % (fam, tag), rt, [(s, "x")], body, key=key, mode="ub", family=fam)
                        ks.append(k)
                        names[fam] = k.name
                    self.inst.append((s, t, c, nd, lab, names, tag))
        return ks

    def obligations(self, K):
        obs = []
        for s, t, c, nd, lab, names, tag in self.inst:
            key = {"S": s, "T": t, "common": c, "factor": lab}
            if any(K[nm].kernel.dropped for nm in names.values()):
                ob = F.Ob("skip:" + tag, [], None, key=key)
                ob.status = "skipped-domain"
                obs.append(ob)
                self.notes.append("kernels for %s do not compile: %s" % (key, [K[nm].kernel.dropped for nm in names.values() if K[nm].kernel.dropped][:1]))
                continue
            sw = F.CTYPES[s][1]
            xs = [("x", T.BV(sw))]
            fp_any = F.ct_is_float(s) or F.ct_is_float(t)
            routes = F.FP_ROUTES if fp_any else F.INT_ROUTES
            kind = "claimed"
            to = None
            if c == "long double" and nd != (1, 1) and self.tier == "quick":
                kind = "stretch"
            if c == "long double":
                to = 60

            # 4. checkers contain no reachable UB
            def fn_noub(K, x, names=names):
                return T.TRUE, T.not_(T.or_(K[names["lossy"]](x).ub, K[names["ovf"]](x).ub, K[names["trunc"]](x).ub))
            obs.append(F.Ob("checker_noub:" + tag, xs, fn_noub, kind=kind, routes=routes, key=key, timeout=to,
                            kernels=[names["lossy"], names["ovf"], names["trunc"]],
                            note="the <T> checkers execute no UB for any input"))

            def fn_disj(K, x, names=names):
                lo, ov, tr = K[names["lossy"]](x), K[names["ovf"]](x), K[names["trunc"]](x)
                return T.not_(T.or_(lo.ub, ov.ub, tr.ub)), T.eq(lo.ret, T.or_(ov.ret, tr.ret))
            obs.append(F.Ob("lossy_is_disjunction:" + tag, xs, fn_disj, kind=kind, routes=routes, key=key, timeout=to,
                            kernels=[names["lossy"], names["ovf"], names["trunc"]]))
            if "rc" in names:
                def fn_rc(K, x, names=names):
                    a, b = K[names["rc"]](x), K[names["conv"]](x)
                    return T.TRUE, T.and_(T.eq(a.ub, b.ub), T.or_(a.ub, T.eq(a.ret, b.ret)))
                obs.append(F.Ob("rep_cast_same:" + tag, xs, fn_rc, kind=kind, routes=routes, key=key, timeout=to,
                                kernels=[names["rc"], names["conv"]], note="rep_cast<T>(q).in(u) == q.coerce_in<T>(u)"))
            if not F.ct_is_float(c):
                n, d = nd
                clo, chi = F.ct_range(c)
                plo, phi = F.ct_range(F.promoted(c))
                tlo, thi = F.ct_range(t)

                def steps(x, s=s, n=n, d=d, clo=clo, chi=chi, plo=plo, phi=phi, tlo=tlo, thi=thi):
                    v0 = F.ival(s, x)
                    s1 = T.not_(T.in_range(v0, clo, chi))
                    prod = T.imul(v0, T.const_int(n))
                    ovc = T.or_(T.not_(T.in_range(prod, plo, phi)), T.ilt(T.const_int(chi * d), prod),
                                T.ilt(prod, T.const_int(clo * d)))
                    v2 = T.itrunc_div(prod, T.const_int(d))
                    s4 = T.not_(T.in_range(v2, tlo, thi))
                    # N and D are coprime (grid invariant), so D | x*N  <=>  D | x  (stated in the cheaper form; same predicate)
                    divisible = T.eq(T.imod(v0, T.const_int(d)), T.const_int(0))
                    return v0, s1, ovc, s4, divisible, prod

                def fn_sound(K, x, names=names, steps=steps, t=t, s=s, n=n, d=d):
                    lo, cv = K[names["lossy"]](x), K[names["conv"]](x)
                    exact = T.eq(T.imul(F.ival(t, cv.ret), T.const_int(d)), T.imul(F.ival(s, x), T.const_int(n)))
                    return T.and_(T.not_(lo.ret), T.not_(lo.ub)), T.and_(T.not_(cv.ub), exact)
                obs.append(F.Ob("sound:" + tag, xs, fn_sound, kind=kind, routes=routes, key=key,
                                kernels=[names["lossy"], names["conv"]],
                                note="not lossy<T>(x) => conversion has no UB and conv(x)*D == x*N in Z"))

                def fn_ovf(K, x, names=names, steps=steps):
                    ov = K[names["ovf"]](x)
                    v0, s1, ovc, s4, divisible, prod = steps(x)
                    return T.not_(ov.ub), T.eq(ov.ret, T.or_(s1, ovc, s4))
                obs.append(F.Ob("ovf_iff_steps:" + tag, xs, fn_ovf, kind=kind, routes=routes, key=key, kernels=[names["ovf"]],
                                note="will_conversion_overflow<T>(x) <=> some step's exact value leaves that step's range"))

                def fn_tr(K, x, names=names, steps=steps):
                    tr = K[names["trunc"]](x)
                    v0, s1, ovc, s4, divisible, prod = steps(x)
                    return T.and_(T.not_(tr.ub), T.not_(s1)), T.eq(tr.ret, T.not_(divisible))
                obs.append(F.Ob("trunc_iff:" + tag, xs, fn_tr, kind=kind, routes=routes, key=key, kernels=[names["trunc"]],
                                note="(x fits the common type) => (will_conversion_truncate<T>(x) <=> D does not divide x*N)"))

                def fn_complete(K, x, names=names, steps=steps):
                    lo = K[names["lossy"]](x)
                    v0, s1, ovc, s4, divisible, prod = steps(x)
                    bad = T.or_(T.not_(divisible), s4)
                    return T.and_(bad, T.not_(lo.ub)), lo.ret
                obs.append(F.Ob("complete:" + tag, xs, fn_complete, kind=kind, routes=routes, key=key, kernels=[names["lossy"]],
                                note="exact x*N/D not an integer or outside T's range => reported lossy"))
            else:
                fc = F.FMT_OF[c]
                if not F.ct_is_float(t):
                    tw = F.CTYPES[t][1]
                    tsigned = F.ct_signed(t)

                    def fn_sound(K, x, names=names, fc=fc, tsigned=tsigned):
                        lo, cv, mid = K[names["lossy"]](x), K[names["conv"]](x), K[names["mid"]](x)
                        back = T.fp_from_int(tsigned, fc, cv.ret)
                        return T.and_(T.not_(lo.ret), T.not_(lo.ub)), \
                            T.and_(T.not_(cv.ub), T.not_(mid.ub), T.fp_cmp("oeq", fc, back, mid.ret))
                    obs.append(F.Ob("sound:" + tag, xs, fn_sound, kind=kind, routes=routes, key=key, timeout=to,
                                    kernels=[names["lossy"], names["conv"], names["mid"]],
                                    note="not lossy<T>(x) => final cast defined and value-preserving: (Common)conv(x) == y"))

                    def fn_complete(K, x, names=names, fc=fc, tsigned=tsigned, tw=tw):
                        lo, mid = K[names["lossy"]](x), K[names["mid"]](x)
                        y = mid.ret
                        bad = T.or_(T.fp_isnan(fc, y), T.fp_isinf(fc, y), encode.fp_to_int_out_of_range(tsigned, fc, y, tw),
                                    T.not_(T.fp_cmp("oeq", fc, T.fp_un("rtz", fc, y), y)))
                        return T.and_(bad, T.not_(lo.ub), T.not_(mid.ub)), lo.ret
                    obs.append(F.Ob("complete:" + tag, xs, fn_complete, kind=kind, routes=routes, key=key, timeout=to,
                                    kernels=[names["lossy"], names["mid"]],
                                    note="y NaN, infinite, non-integral or outside T's range => reported lossy"))
                else:
                    ft = F.FMT_OF[t]
                    sflt = F.ct_is_float(s)
                    fs = F.FMT_OF[s] if sflt else None

                    def fn_sound(K, x, names=names, ft=ft, fs=fs, sflt=sflt):
                        lo, cv = K[names["lossy"]](x), K[names["conv"]](x)
                        pre = T.and_(T.not_(lo.ret), T.not_(lo.ub))
                        if sflt:
                            pre = T.and_(pre, T.fp_isfinite(fs, x))
                        return pre, T.and_(T.not_(cv.ub), T.fp_isfinite(ft, cv.ret))
                    obs_ = F.Ob("sound:" + tag, xs, fn_sound, kind=kind, routes=routes, key=key, timeout=to,
                                kernels=[names["lossy"], names["conv"]],
                                note="not lossy<T>(x), x finite => result finite, no UB")
                    obs_.aux = (names, ft, c)
                    obs.append(obs_)

                    def fn_complete(K, x, names=names, ft=ft, fs=fs, sflt=sflt):
                        lo, cv = K[names["lossy"]](x), K[names["conv"]](x)
                        pre = T.and_(T.fp_isinf(ft, cv.ret), T.not_(lo.ub), T.not_(cv.ub))
                        if sflt:
                            pre = T.and_(pre, T.fp_isfinite(fs, x))   # inf -> inf is value preserving for a floating target
                        return pre, lo.ret
                    ob = F.Ob("complete:" + tag, xs, fn_complete, kind=kind, routes=routes, key=key, timeout=to,
                              kernels=[names["lossy"], names["conv"]], note="finite input, infinite result => reported lossy")
                    ob.aux = (names, ft, c)
                    obs.append(ob)
        return obs

    def known_predicates(self):
        def d7(ob, vs):
            # the C04/D7 threshold-rounding finding seen through the <T> forms when both reps are floating:
            # |(Common)x| == fl(max(Common) / K), K = the multiplier the library applies in the common type (mid(1.0))
            aux = getattr(ob, "aux", None)
            if aux is None or not vs:
                return None
            names, ft, c = aux
            s_ = ob.key["S"]
            if not F.ct_is_float(s_):
                return None
            fs, fc = F.FMT_OF[s_], F.FMT_OF[c]
            from .. import fpeval
            one = T.const_bv(fpeval.from_fraction(fs, Fraction(1)), T.fmt_width(fs))
            kk = self.K[names["mid"]](one).ret
            if not T.is_const(kk):
                return None
            wc = T.fmt_width(fc)
            maxbits = (((1 << fc[0]) - 2) << (fc[1] - 1)) | ((1 << (fc[1] - 1)) - 1)
            limit = T.fp_bin("div", fc, T.const_bv(maxbits, wc), kk)
            return T.eq(T.fp_abs(fc, T.fp_cvt(fs, fc, vs[0])), limit)
        return {"D7": d7}


CHECK = C05
