"""C09 - QuantityPoint obeys exact affine semantics (value half; DESIGN.md section 6, C09)."""
from fractions import Fraction
from .. import framework as F
from .. import terms as T
from .. import pointmodel as P

GEN = [(1, 3, 2, 1, 50), (2, 7, 5, 10, -1234), (3, 1, 1, 1, 0), (4, 9, 5, 4, 7), (5, 1, 1000, 1000, 273150)]
REP_CHANGES = [("int32_t", "int64_t"), ("uint32_t", "uint64_t"), ("int64_t", "int32_t"), ("uint32_t", "int64_t"), ("int16_t", "int32_t"),
               ("int32_t", "uint64_t")]


def calc_rep(r1, r2):
    from .C05 import common_type
    c = common_type(r1, r2)
    if F.ct_signed(r2) and not F.ct_signed(c):
        c = {"uint8_t": "int8_t", "uint16_t": "int16_t", "uint32_t": "int32_t", "uint64_t": "int64_t"}[c]
    return c


SHIFT_REPS = [("int32_t", "int32_t"), ("int64_t", "int64_t"), ("int64_t", "uint32_t"), ("uint64_t", "uint32_t"), ("int32_t", "uint8_t"),
              ("int32_t", "int64_t"), ("uint32_t", "uint32_t")]
CMPS = [("eq", "=="), ("ne", "!="), ("lt", "<"), ("le", "<="), ("gt", ">"), ("ge", ">=")]


def units_for(tier):
    gens = [P.gen_unit(*g) for g in (GEN if tier == "thorough" else GEN[:3])]
    return P.LIB + gens


class C09(F.Check):
    pid = "C09"
    level = "model_checking"
    assumptions = [
        "clang 14 front end and -O1 pipeline, own LLVM-IR->SMT encoder, z3 5.1 / cvc5 1.0.3 are trusted",
        "unit pairs enumerated: Kelvins, Celsius, Fahrenheit, milli/centi/kilo-kelvins and generated units with rational scale and origin",
        "model datum: the library writes Celsius' origin as 27315 centi-kelvin and Fahrenheit's as 45967 centi-rankine; the integer form "
        "((x*a+b)*p)/q uses that representation unit (calibrated by brute force at design time)",
        "exactness (E): no UB and the true intermediate values fit the calculation rep and the true result is an integer in range => result equals the exact affine map; "
        "reach (R): intermediates and result fit => no UB trap",
        "ill-formedness half (point+point etc. must not compile) is outside solver-based checking",
        "unsigned reps with a displacement that makes the true result negative are outside (precondition: result representable)",
        "floating reps: only the integral-rep value half is solver-claimed here",
    ]

    def bounds(self):
        return {"stored values": "all values of the rep", "reps": self.reps(), "units": [u.name for u in units_for(self.tier)]}

    def reps(self):
        return ["int32_t", "int64_t", "uint32_t", "uint64_t"] if self.tier == "thorough" else ["int32_t", "int64_t", "uint64_t"]

    def kernels(self):
        us = units_for(self.tier)
        self.prelude = "\n".join(u.decl for u in us if u.decl)
        ks = []
        self.inst = []
        self.pairs2 = []
        self.shifts = []
        n = 0
        for i, u1 in enumerate(us):
            for j, u2 in enumerate(us):
                if i == j:
                    continue
                n += 1
                if self.tier == "quick" and n % 2:
                    continue
                for r in self.reps():
                    tag = "%s_%s_%s" % (u1.name, u2.name, r.replace("_t", ""))
                    key = {"from": u1.name, "to": u2.name, "rep": r}
                    p = "make_quantity_point<%s>(x)" % u1.cxx
                    names = {}
                    k = F.Kernel("c09_conv_%s" % tag, r, [(r, "x")], "return %s.coerce_in(QuantityPointMaker<%s>{});" % (p, u2.cxx),
                                 key=key, family="conv")
                    ks.append(k)
                    names["conv"] = k.name
                    k = F.Kernel("c09_in_%s" % tag, r, [(r, "x")], "return %s.in(QuantityPointMaker<%s>{});" % (p, u2.cxx),
                                 key=key, family="in")
                    ks.append(k)
                    names["in"] = k.name
                    self.inst.append((u1, u2, r, r, names, tag, key))
                # rep-changing conversions (the calculation rep is the common type, made signed for a signed destination)
                if n % 4 == 0 or self.tier == "thorough":
                    for r1, r2 in REP_CHANGES:
                        tag = "%s_%s_%s_to_%s" % (u1.name, u2.name, r1.replace("_t", ""), r2.replace("_t", ""))
                        key = {"from": u1.name, "to": u2.name, "rep": r1, "to_rep": r2}
                        p = "make_quantity_point<%s>(x)" % u1.cxx
                        k = F.Kernel("c09_conv2_%s" % tag, r2, [(r1, "x")],
                                     "return %s.coerce_in<%s>(QuantityPointMaker<%s>{});" % (p, r2, u2.cxx), key=key, family="conv_rep_change")
                        ks.append(k)
                        self.inst.append((u1, u2, r1, r2, {"conv": k.name}, tag, key))
                # two-point operations on a thinner grid
                if (n % 5 == 0) or self.tier == "thorough" and n % 2 == 0:
                    for r1, r in [(q, q) for q in self.reps()[:2]] + [("int32_t", "int64_t"), ("int16_t", "int32_t")]:
                        tag = "%s_%s_%s_%s" % (u1.name, u2.name, r1.replace("_t", ""), r.replace("_t", ""))
                        key = {"U1": u1.name, "U2": u2.name, "rep1": r1, "rep": r}
                        a = "make_quantity_point<%s>(x)" % u1.cxx
                        b = "make_quantity_point<%s>(y)" % u2.cxx
                        args = [(r1, "x"), (r, "y")]
                        names = {}
                        for nm, op in CMPS:
                            k = F.Kernel("c09_%s_%s" % (nm, tag), "bool", args, "return %s %s %s;" % (a, op, b), key=key, family="cmp")
                            ks.append(k)
                            names[nm] = k.name
                        k = F.Kernel("c09_diff_%s" % tag, F.promoted(r), args, "auto d = %s - %s; return d.in(decltype(d)::unit);" % (a, b),
                                     key=key, family="diff")
                        ks.append(k)
                        names["diff"] = k.name
                        for nm, op in (("sl", "< 0"), ("se", "== 0"), ("sg", "> 0")):
                            k = F.Kernel("c09_%s_%s" % (nm, tag), "bool", args, "return (%s <=> %s) %s;" % (a, b, op), key=key,
                                         family="spaceship", std="c++20")
                            ks.append(k)
                            names[nm] = k.name
                        self.pairs2.append((u1, u2, r1, r, names, tag, key))
                # point +/- quantity (the quantity in another unit and another rep, incl. unsigned reps narrower than the common rep)
                if (n % 5 == 1) or self.tier == "thorough" and n % 2 == 1:
                    for rp, rq in SHIFT_REPS:
                        tag = "%s_%s_%s_%s" % (u1.name, u2.name, rp.replace("_t", ""), rq.replace("_t", ""))
                        key = {"point_unit": u1.name, "quantity_unit": u2.name, "point_rep": rp, "quantity_rep": rq}
                        a = "make_quantity_point<%s>(x)" % u1.cxx
                        b = "make_quantity<%s>(y)" % u2.cxx
                        args = [(rp, "x"), (rq, "y")]
                        from .C05 import common_type
                        cr = F.promoted(common_type(rp, rq))
                        names = {}
                        for nm, expr in (("p_plus_q", "%s + %s" % (a, b)), ("q_plus_p", "%s + %s" % (b, a)), ("p_minus_q", "%s - %s" % (a, b)),
                                         ("p_pluseq_q", None), ("p_minuseq_q", None)):
                            if expr is None:
                                if u1 is not u2 and False:
                                    continue
                                # compound assignment: only with a quantity the point's own Diff type accepts implicitly; probed, dropped if refused
                                body = "auto p = %s; p %s= %s; return p.in(QuantityPointMaker<%s>{});" % (a, "+" if "plus" in nm else "-", b, u1.cxx)
                                ret = rp
                            else:
                                body = "auto r = %s; return r.in(QuantityPointMaker<typename decltype(r)::Unit>{});" % expr
                                ret = cr
                            k = F.Kernel("c09_%s_%s" % (nm, tag), ret, args, body, key=key, family="shift_" + nm)
                            ks.append(k)
                            names[nm] = k.name
                        self.shifts.append((u1, u2, rp, rq, cr, names, tag, key))
        # floating reps: the six comparisons of points in different units are mutually consistent for EVERY pair of bit patterns (NaN, +-0,
        # infinities included): >= is (> or ==), <= is (< or ==), != is not ==, > is < with the operands swapped
        self.fcons = []
        fl_pairs = [(us[i], us[j]) for i in range(len(us)) for j in range(len(us)) if i != j][:: (7 if self.tier == "quick" else 2)]
        for u1, u2 in fl_pairs + [(us[0], us[0])]:
            for r in ("double", "float"):
                tag = "%s_%s_%s" % (u1.name, u2.name, r)
                a = "make_quantity_point<%s>(x)" % u1.cxx
                b = "make_quantity_point<%s>(y)" % u2.cxx
                names = {}
                for nm, op in CMPS:
                    k = F.Kernel("c09_f%s_%s" % (nm, tag), "bool", [(r, "x"), (r, "y")], "return %s %s %s;" % (a, op, b),
                                 key={"U1": u1.name, "U2": u2.name, "rep": r}, family="float_cmp")
                    ks.append(k)
                    names[nm] = k.name
                k = F.Kernel("c09_fltswap_%s" % tag, "bool", [(r, "x"), (r, "y")], "return %s < %s;" % (b, a),
                             key={"U1": u1.name, "U2": u2.name, "rep": r}, family="float_cmp")
                ks.append(k)
                names["lt_swapped"] = k.name
                self.fcons.append((names, r, tag, k.key))
        # operations without affine meaning must not compile (compiler verdicts observed at lowering; one positive control per family)
        self.noaffine = []
        i2 = [("int32_t", "x"), ("int32_t", "y")]
        d2 = [("double", "x"), ("double", "y")]
        for nm, ret, args, body, must_compile in (
                ("ctl_pt_minus_pt", "int32_t", i2, "return (meters_pt(x) - meters_pt(y)).in(meters);", True),
                ("ctl_pt_plus_q", "int32_t", i2, "return (meters_pt(x) + meters(y)).in(meters_pt);", True),
                ("pt_plus_pt", "int32_t", i2, "return (meters_pt(x) + meters_pt(y)).in(meters_pt);", False),
                ("pt_plus_pt_temp", "double", d2, "return (celsius_pt(x) + kelvins_pt(y)).in(kelvins_pt);", False),
                ("scalar_times_pt", "int32_t", i2, "return (x * meters_pt(y)).in(meters_pt);", False),
                ("pt_times_scalar", "double", d2, "return (celsius_pt(x) * y).in(celsius_pt);", False),
                ("pt_div_scalar", "double", d2, "return (celsius_pt(x) / y).in(celsius_pt);", False),
                ("pt_times_pt", "int32_t", i2, "auto r = meters_pt(x) * meters_pt(y); (void)r; return 0;", False),
                ("pt_times_q", "int32_t", i2, "auto r = meters_pt(x) * meters(y); (void)r; return 0;", False),
                ("q_minus_pt", "int32_t", i2, "auto r = meters(x) - meters_pt(y); (void)r; return 0;", False),
                ("neg_pt", "int32_t", i2, "auto r = -meters_pt(x); (void)r; return 0;", False),
                ("pt_from_zero", "int32_t", i2, "QuantityPoint<Meters, int32_t> p{ZERO}; return p.in(meters_pt);", False),
                ("pt_assign_zero", "int32_t", i2, "auto p = meters_pt(x); p = ZERO; return p.in(meters_pt);", False),
                ("pt_eq_zero", "bool", i2, "return meters_pt(x) == ZERO;", False),
                ("pt_lt_zero", "bool", i2, "return celsius_pt(x) < ZERO;", False),
                ("pt_plus_zero", "int32_t", i2, "return (meters_pt(x) + ZERO).in(meters_pt);", None),   # adding the zero displacement: observed, either verdict
                ("pt_as_quantity", "int32_t", i2, "Quantity<Meters, int32_t> q = meters_pt(x); return q.in(meters);", False),
                ("quantity_as_pt", "int32_t", i2, "QuantityPoint<Meters, int32_t> p = meters(x); return p.in(meters_pt);", False),
                ("pt_in_quantity_unit_slot", "int32_t", i2, "return meters(x).in(meters_pt);", False),
                ("q_in_point_maker", "int32_t", i2, "return meters_pt(x).in(meters);", False),
                ("pt_cmp_quantity", "bool", i2, "return meters_pt(x) < meters(y);", False),
                ("pt_pluseq_pt", "int32_t", i2, "auto p = meters_pt(x); p += meters_pt(y); return p.in(meters_pt);", False),
                ("pt_dim_mismatch_minus", "double", d2, "return (meters_pt(x) - celsius_pt(y)).in(meters);", False),
                ("pt_dim_mismatch_cmp", "bool", d2, "return meters_pt(x) < celsius_pt(y);", False)):
            k = F.Kernel("c09_noaffine_" + nm, ret, args, body, key={"probe": nm, "line": body, "must_compile": must_compile}, family="no_affine_meaning", native=False)
            ks.append(k)
            self.noaffine.append((k.name, must_compile))
        return ks

    def obligations(self, K):
        obs = []
        for u1, u2, r, r2, names, tag, key in self.inst:
            a, b, p, q = P.conversion(u1, u2)
            key = dict(key, a=a, b=b, p=p, q=q)
            w = F.CTYPES[r][1]
            cr = calc_rep(r, r2)
            lo, hi = F.ct_range(cr)          # range of the calculation rep
            lo2, hi2 = F.ct_range(r2)        # range of the destination rep
            key["calc_rep"] = cr
            xs = [("x", T.BV(w))]
            signed = F.ct_signed(cr)
            for fam in ("conv", "in"):
                if fam not in names:
                    continue
                if K[names[fam]].kernel.dropped:
                    self.extra_cov["dropped_" + fam] = self.extra_cov.get("dropped_" + fam, 0) + 1
                    continue

                def exact_parts(x, r=r, a=a, b=b, p=p, q=q, lo=lo, hi=hi):
                    xv = F.ival(r, x)
                    xa = T.imul(xv, T.const_int(a))
                    s = T.iadd(xa, T.const_int(b))
                    sp = T.imul(s, T.const_int(p))
                    res = T.itrunc_div(sp, T.const_int(q))
                    divisible = T.eq(T.imod(sp, T.const_int(q)), T.const_int(0))
                    # magnitude-sum reach: insensitive to the order in which x*a and b are combined
                    mag = T.iadd(T.imul(T.iabs(xv), T.const_int(a)), T.const_int(abs(b)))
                    reach = T.and_(T.ile(mag, T.const_int(hi)), T.ile(T.imul(mag, T.const_int(p)), T.const_int(hi)),
                                   T.in_range(s, lo, hi), T.in_range(xv, lo, hi))
                    return res, divisible, reach

                def fnE(K, x, fam=fam, names=names, exact_parts=exact_parts, r2=r2, lo2=lo2, hi2=hi2, signed=signed, same=(r == r2)):
                    e = K[names[fam]](x)
                    res, divisible, reach = exact_parts(x)
                    pre = T.and_(T.not_(e.ub), divisible, T.in_range(res, lo2, hi2))
                    if not signed or not same:
                        pre = T.and_(pre, reach)
                    return pre, T.eq(F.ival(r2, e.ret), res)
                obs.append(F.Ob("E_%s:%s" % (fam, tag), xs, fnE, key=key, kernels=[names[fam]],
                                note="no UB, exact affine result integral and in range (intermediates representable in the calculation rep) => "
                                     "conversion returns exactly it"))

                def fnR(K, x, fam=fam, names=names, exact_parts=exact_parts, lo2=lo2, hi2=hi2):
                    e = K[names[fam]](x)
                    res, divisible, reach = exact_parts(x)
                    return T.and_(reach, T.in_range(res, lo2, hi2)), T.not_(e.ub)
                obs.append(F.Ob("R_%s:%s" % (fam, tag), xs, fnR, key=key, kernels=[names[fam]],
                                note="intermediates (|x|*a+|b|, times p) fit the calculation rep and the result fits the destination => no UB trap"))
        for u1, u2, r1, r, names, tag, key in self.pairs2:
            G, low, res = P.common_point_unit([u1, u2])
            (m1, o1), (m2, o2) = res
            key = dict(key, m1=m1, o1=o1, m2=m2, o2=o2)
            w = F.CTYPES[r][1]
            lo, hi = F.ct_range(r)
            pr = F.promoted(r)
            xs = [("x", T.BV(F.CTYPES[r1][1])), ("y", T.BV(w))]

            def pos(x, y, r=r, r1=r1, m1=m1, o1=o1, m2=m2, o2=o2, hi=hi, lo=lo):
                xv, yv = F.ival(r1, x), F.ival(r, y)
                pa = T.iadd(T.imul(xv, T.const_int(m1)), T.const_int(o1))
                pb = T.iadd(T.imul(yv, T.const_int(m2)), T.const_int(o2))
                reach = T.and_(T.ile(T.iadd(T.imul(T.iabs(xv), T.const_int(m1)), T.const_int(o1)), T.const_int(hi)),
                               T.ile(T.iadd(T.imul(T.iabs(yv), T.const_int(m2)), T.const_int(o2)), T.const_int(hi)),
                               T.in_range(pa, lo, hi), T.in_range(pb, lo, hi))
                return pa, pb, reach
            for nm, op in CMPS:
                if K[names[nm]].kernel.dropped:
                    self.extra_cov["dropped_cmp"] = self.extra_cov.get("dropped_cmp", 0) + 1
                    continue

                def fn(K, x, y, nm=nm, names=names, pos=pos):
                    pa, pb, reach = pos(x, y)
                    e = K[names[nm]](x, y)
                    exp = {"eq": T.eq(pa, pb), "ne": T.ne(pa, pb), "lt": T.ilt(pa, pb), "le": T.ile(pa, pb), "gt": T.ilt(pb, pa),
                           "ge": T.ile(pb, pa)}[nm]
                    return reach, T.and_(T.not_(e.ub), T.eq(e.ret, exp))
                obs.append(F.Ob("cmp_%s:%s" % (nm, tag), xs, fn, key=key, kernels=[names[nm]],
                                note="positions (x*m1+o1, y*m2+o2 in the common point unit) fit => comparison orders by absolute position"))
            if not any(K[names[n_]].kernel.dropped for n_ in ("sl", "se", "sg")):
                def fn(K, x, y, names=names, pos=pos):
                    pa, pb, reach = pos(x, y)
                    sl, se, sg = K[names["sl"]](x, y), K[names["se"]](x, y), K[names["sg"]](x, y)
                    return reach, T.and_(T.not_(T.or_(sl.ub, se.ub, sg.ub)), T.eq(sl.ret, T.ilt(pa, pb)), T.eq(se.ret, T.eq(pa, pb)),
                                         T.eq(sg.ret, T.ilt(pb, pa)))
                obs.append(F.Ob("spaceship:%s" % tag, xs, fn, key=key, kernels=[names["sl"], names["se"], names["sg"]],
                                note="C++20 <=> on points agrees with the exact order of positions"))
            else:
                self.extra_cov["dropped_spaceship"] = self.extra_cov.get("dropped_spaceship", 0) + 1
            if not K[names["diff"]].kernel.dropped:
                plo, phi = F.ct_range(pr)
                signed = F.ct_signed(r)
                pw = F.CTYPES[pr][1]

                def fn(K, x, y, names=names, pos=pos, pr=pr, plo=plo, phi=phi, signed=signed, pw=pw):
                    pa, pb, reach = pos(x, y)
                    e = K[names["diff"]](x, y)
                    d = T.isub(pa, pb)
                    if signed:
                        fits = T.in_range(d, plo, phi)
                        return reach, T.and_(T.eq(e.ub, T.not_(fits)), T.or_(e.ub, T.eq(F.ival(pr, e.ret), d)))
                    return reach, T.and_(T.not_(e.ub), T.eq(F.ival(pr, e.ret), T.imod(d, T.const_int(1 << pw))))
                obs.append(F.Ob("diff:%s" % tag, xs, fn, key=key, kernels=[names["diff"]],
                                note="point - point equals the exact displacement in the common unit"))
        # point +/- quantity: the point shifted by exactly that displacement, in the common unit of the two scales (the origin is the point's)
        for u1, u2, rp, rq, cr, names, tag, key in self.shifts:
            G = P.gcdf(u1.scale, u2.scale)
            k1, k2 = int(u1.scale / G), int(u2.scale / G)
            key = dict(key, k1=k1, k2=k2, common_rep=cr)
            xs = [("x", F.ct_sort(rp)), ("y", F.ct_sort(rq))]
            lo, hi = F.ct_range(cr)
            signed = F.ct_signed(cr)
            cw = F.CTYPES[cr][1]
            for nm in ("p_plus_q", "q_plus_p", "p_minus_q"):
                if K[names[nm]].kernel.dropped:
                    self.extra_cov["dropped_shift"] = self.extra_cov.get("dropped_shift", 0) + 1
                    continue

                def fn(K, x, y, nm=nm, names=names, rp=rp, rq=rq, k1=k1, k2=k2, lo=lo, hi=hi, signed=signed, cr=cr, cw=cw):
                    xv, yv = F.ival(rp, x), F.ival(rq, y)
                    a_, b_ = T.imul(xv, T.const_int(k1)), T.imul(yv, T.const_int(k2))
                    reach = T.and_(T.in_range(a_, lo, hi), T.in_range(b_, lo, hi))
                    d = T.isub(a_, b_) if nm == "p_minus_q" else T.iadd(a_, b_)
                    e = K[names[nm]](x, y)
                    if signed:
                        fits = T.in_range(d, lo, hi)
                        return reach, T.and_(T.eq(e.ub, T.not_(fits)), T.or_(e.ub, T.eq(F.ival(cr, e.ret), d)))
                    return reach, T.and_(T.not_(e.ub), T.eq(F.ival(cr, e.ret), T.imod(d, T.const_int(1 << cw))))
                obs.append(F.Ob("shift_%s:%s" % (nm, tag), xs, fn, key=key, kernels=[names[nm]],
                                note="operands scaled to the common unit fit the common rep => point +/- quantity is exactly x*k1 +/- y*k2 there "
                                     "(signed: traps iff that does not fit; unsigned: modulo 2^w)"))
            # compound forms, where they compile: same value as the plain operator converted back to the point's own unit and rep
            for nm, plain in (("p_pluseq_q", "p_plus_q"), ("p_minuseq_q", "p_minus_q")):
                if K[names[nm]].kernel.dropped or K[names[plain]].kernel.dropped:
                    continue
                if k1 != 1 or rp != cr:
                    continue          # the compound form stays in the point's unit and rep: compared only when that IS the common unit and rep

                def fnc(K, x, y, nm=nm, plain=plain, names=names):
                    a_, b_ = K[names[nm]](x, y), K[names[plain]](x, y)
                    return T.TRUE, T.and_(T.eq(a_.ub, b_.ub), T.or_(a_.ub, T.eq(a_.ret, b_.ret)))
                obs.append(F.Ob("shift_%s:%s" % (nm, tag), xs, fnc, key=key, kernels=[names[nm], names[plain]],
                                note="p += q / p -= q equal p + q / p - q when the point's unit and rep are the common ones"))
        for names, r, tag, key in self.fcons:
            if any(K[n_].kernel.dropped for n_ in names.values()):
                self.extra_cov["dropped_float_cmp"] = self.extra_cov.get("dropped_float_cmp", 0) + 1
                continue
            w = F.CTYPES[r][1]

            def ffn(K, x, y, names=names):
                e = {n_: K[k_](x, y) for n_, k_ in names.items()}
                ub = T.or_(*[v.ub for v in e.values()])
                return T.TRUE, T.and_(T.not_(ub),
                                      T.eq(e["ge"].ret, T.or_(e["gt"].ret, e["eq"].ret)), T.eq(e["le"].ret, T.or_(e["lt"].ret, e["eq"].ret)),
                                      T.eq(e["ne"].ret, T.not_(e["eq"].ret)), T.eq(e["gt"].ret, e["lt_swapped"].ret),
                                      T.not_(T.and_(e["lt"].ret, e["gt"].ret)))
            obs.append(F.Ob("float_cmp_consistent:" + tag, [("x", T.BV(w)), ("y", T.BV(w))], ffn, routes=F.FP_ROUTES, key=key, kernels=list(names.values()),
                            note="floating reps, every pair of bit patterns: >= is (> or ==), <= is (< or ==), != is not ==, p > q is q < p, never both < and >"))
        for name, must_compile in self.noaffine:
            d = K[name].kernel.dropped
            if must_compile is None:
                self.extra_cov.setdefault("observed_either_way", {})[name] = "rejected" if d else "accepted"
                continue

            def nfn(K, name=name, must_compile=must_compile):
                return T.TRUE, T.const_bool(bool(K[name].kernel.dropped) != must_compile)
            obs.append(F.Ob("no_affine_meaning:" + name, [], nfn, kind="closed", key=dict(K[name].kernel.key, compiler_says=(d or "accepted")[:160]), kernels=[name],
                            note="operations without affine meaning do not compile (positive controls do): compiler verdict observed at lowering"))
        return obs


CHECK = C09
