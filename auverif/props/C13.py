"""C13 - Quantity / QuantityPoint are zero-overhead transparent wrappers around their rep (DESIGN.md section 6, C13).

Translation validation: every same-unit operator of Quantity<U,R> / QuantityPoint<U,R> is lowered next to the same
operator spelled on bare R ("raw" reference kernel, same compiler, same TU) and the solver decides, for all operand bit
patterns, "same trap condition, and the same result bits whenever the raw operator does not trap".
"""
from .. import framework as F
from .. import terms as T

SUBINT = ("int8_t", "uint8_t", "int16_t", "uint16_t")

# (tag, C++ unit type)
UNITS_QUICK = [
    ("m", "Meters"),
    ("ft", "Feet"),
    ("mps", "decltype(Meters{} / Seconds{})"),
]
UNITS_THOROUGH = UNITS_QUICK + [
    ("degC", "Celsius"),
    ("km", "Kilo<Meters>"),
    ("rad", "Radians"),
    ("pct", "Percent"),
    ("bit", "Bits"),
    ("ft37", "decltype(Feet{} * mag<3>() / mag<7>())"),
    ("hz", "UnitInverseT<Seconds>"),
    ("m2ps", "decltype(Meters{} * Meters{} / Seconds{})"),
    ("degF", "Fahrenheit"),
]

# mixed scalar operand types (rep, scalar)
MIXED_QUICK = [("int32_t", "double"), ("float", "int32_t"), ("int16_t", "int64_t"), ("uint8_t", "float")]
MIXED_THOROUGH = MIXED_QUICK + [("double", "float"), ("int64_t", "uint64_t"), ("uint32_t", "int32_t"),
                                ("long double", "int64_t"), ("uint16_t", "uint16_t"), ("int8_t", "uint8_t"),
                                ("uint64_t", "int8_t"), ("double", "long double"), ("int32_t", "int16_t")]

CMPS = [("eq", "=="), ("ne", "!="), ("lt", "<"), ("le", "<="), ("gt", ">"), ("ge", ">=")]


def rtag(ct):
    return ct.replace("_t", "").replace(" ", "")


def arith_result(a, b):
    """C++ usual arithmetic conversions on x86-64 (type of `a op b` for the arithmetic types used here)."""
    ka, wa, _ = F.CTYPES[a]
    kb, wb, _ = F.CTYPES[b]
    if ka == "f" or kb == "f":
        rank = {"float": 1, "double": 2, "long double": 3}
        cands = [t for t in (a, b) if F.CTYPES[t][0] == "f"]
        return max(cands, key=lambda t: rank[t])
    a, b = F.promoted(a), F.promoted(b)
    ka, wa, _ = F.CTYPES[a]
    kb, wb, _ = F.CTYPES[b]
    if ka == kb:
        return a if wa >= wb else b
    (u, wu), (s, ws) = ((a, wa), (b, wb)) if ka == "u" else ((b, wb), (a, wa))
    if wu >= ws:
        return u
    return s        # the signed type is strictly wider: it represents every value of the unsigned one


def ub_equiv_post(a, r):
    """same trap condition; same result bits whenever the reference does not trap"""
    return T.and_(T.eq(a.ub, r.ub), T.or_(r.ub, T.eq(a.ret, r.ret)))


class C13(F.Check):
    pid = "C13"
    level = "translation_validation"
    chunk_size = 160
    validate_inputs = 10
    assumptions = [
        "clang 14 front end and -O1 pipeline, own LLVM-IR->SMT encoder, z3 5.1 / cvc5 are trusted; the raw reference "
        "kernels are lowered by the same compiler in the same TU",
        "quantifier over operand values is solver-decided and complete (every bit pattern, incl. NaN payloads, "
        "infinities, signed zeros; x87 long double as (_ FloatingPoint 15 64), pseudo-denormals outside)",
        "quantifier over units is enumerated (library units + generated compound/scaled units), over reps: the 11 "
        "arithmetic reps; 'all units in the library' is not enumerated exhaustively",
        "trap condition = any reachable -fsanitize=undefined trap (signed overflow, division by zero, INT_MIN/-1), "
        "violated nsw/nuw flag or poison use; unsigned wrap-around is not a trap here",
        "unary +, unary - and same-unit % on int8/uint8/int16/uint16 reps do not lower under clang (narrowing "
        "list-initialisation, defect D6): those kernels are dropped by the domain-drop pass and counted, not claimed; "
        "their declared result type Quantity<U,R> also differs from the raw operator's int (recorded, not claimed)",
        "integer `scalar / quantity` is rejected by a static_assert by design (outside the domain; probed and counted)",
        "QuantityPoint same-unit ops that build the point from a promoted Quantity<U,int> do not compile for sub-int reps "
        "(outside the domain; counted)",
        "QuantityPoint values are read with data_in(unit) (direct member access); QuantityPoint::in(unit) adds the zero "
        "origin displacement (x + 0) and is compared with the raw expression `x + R{0}`, not with x",
        "g++ and the -std=c++17/20 axes are outside (C20 covers the clang -std axis); g++ is only used for native "
        "replay / translator validation",
        "well-formedness halves (what must not compile) are outside",
    ]

    def bounds(self):
        return {"stored values": "all bit patterns of every operand (no bound)", "reps": F.ALL_REPS,
                "units": [u for _, u in self.units()], "mixed scalar pairs": self.mixed(), "unwind": 0,
                "inline_depth": 0}

    def units(self):
        return UNITS_THOROUGH if self.tier == "thorough" else UNITS_QUICK

    def mixed(self):
        return MIXED_THOROUGH if self.tier == "thorough" else MIXED_QUICK

    # ------------------------------------------------------------------ kernels
    def kernels(self):
        ks = []
        self.pairs = []      # (obname, au, raw, argspec, key, fp, witness)
        self.rts = []        # (obname, kernel, ct, key)
        self.closed = []     # (obname, kernel, expected, key)   expected: True or ("zero", ct)
        self.facts = []      # (label, kernel, key)  recorded, not claimed
        self.expected_drop = {}   # kernel name -> reason label
        self.prelude = "\n".join("using C13_%s = %s;" % (t, u) for t, u in self.units()) + "\n"
        raw_seen = {}

        def add(k):
            ks.append(k)
            return k.name

        def raw(fam, ct, ret, args, body, sfx=""):
            name = "c13_raw_%s_%s%s" % (fam, rtag(ct), sfx)
            if name not in raw_seen:
                raw_seen[name] = add(F.Kernel(name, ret, args, body, key={"rep": ct, "op": fam}, family="raw_" + fam))
            return name

        def pair(fam, ct, ut, ret, args, au_body, raw_body, rawfam=None, sfx="", witness=False, expect=None, s=None):
            key = {"rep": ct, "unit": ut, "op": fam}
            if s:
                key["scalar"] = s
            au = add(F.Kernel("c13_%s_%s%s_%s" % (fam, rtag(ct), sfx, ut), ret, args, au_body, key=key, family=fam))
            rw = raw(rawfam or fam, ct, ret, args, raw_body, sfx)
            fp = any(F.ct_is_float(t) for t, _ in args) or F.ct_is_float(ret)
            self.pairs.append(("%s:%s%s_%s" % (fam, rtag(ct), sfx, ut), au, rw, args, key, fp, witness))
            if expect:
                self.expected_drop[au] = expect

        for ct in F.ALL_REPS:
            P = F.promoted(ct)
            isint = not F.ct_is_float(ct)
            sub = ct in SUBINT
            xy = [(ct, "x"), (ct, "y")]
            x1 = [(ct, "x")]
            for ui, (ut, _) in enumerate(self.units()):
                U = "C13_" + ut
                Q = "Quantity<%s, %s>" % (U, ct)
                PT = "QuantityPoint<%s, %s>" % (U, ct)
                q = lambda v, U=U: "make_quantity<%s>(%s)" % (U, v)          # noqa: E731
                p = lambda v, U=U: "make_quantity_point<%s>(%s)" % (U, v)    # noqa: E731
                key = {"rep": ct, "unit": ut}
                tag = "%s_%s" % (rtag(ct), ut)
                # --- round trips
                for fam, body in (
                        ("rt", "return %s.in(%s{});" % (q("x"), U)),
                        ("rt_maker", "return QuantityMaker<%s>{}(x).in(QuantityMaker<%s>{});" % (U, U)),
                        ("rt_data", "auto q = %s; return q.data_in(%s{});" % (q("x"), U)),
                        ("rt_copy", "%s a = %s; %s b; b = a; %s c(b); return c.in(%s{});" % (Q, q("x"), Q, Q, U)),
                        ("rt_pt_data", "auto p = %s; return p.data_in(%s{});" % (p("x"), U)),
                        ("rt_pt_copy", "%s a = %s; %s b; b = a; %s c(b); return c.data_in(%s{});" % (PT, p("x"), PT, PT, U)),
                ):
                    n = add(F.Kernel("c13_%s_%s" % (fam, tag), ct, x1, body, key=dict(key, op=fam), family=fam))
                    self.rts.append(("%s:%s" % (fam, tag), n, ct, dict(key, op=fam)))
                # --- Quantity: binary value operators (result type = promoted type, like the raw operator)
                d6 = "D6" if sub else None
                pair("add", ct, ut, P, xy, "return (%s + %s).in(%s{});" % (q("x"), q("y"), U), "return x + y;", witness=isint)
                pair("sub", ct, ut, P, xy, "return (%s - %s).in(%s{});" % (q("x"), q("y"), U), "return x - y;", witness=isint)
                if isint:
                    pair("mod", ct, ut, P, xy, "return (%s %% %s).in(%s{});" % (q("x"), q("y"), U), "return x % y;",
                         witness=True, expect=d6)
                pair("pos", ct, ut, P, x1, "return (+%s).in(%s{});" % (q("x"), U), "return +x;", expect=d6)
                pair("neg", ct, ut, P, x1, "return (-%s).in(%s{});" % (q("x"), U), "return -x;", witness=isint, expect=d6)
                pair("mul_qs", ct, ut, P, xy, "return (%s * y).in(%s{});" % (q("x"), U), "return x * y;", rawfam="mul", witness=isint)
                pair("mul_sq", ct, ut, P, xy, "return (x * %s).in(%s{});" % (q("y"), U), "return x * y;", rawfam="mul", witness=isint)
                pair("div_qs", ct, ut, P, xy, "return (%s / y).in(%s{});" % (q("x"), U), "return x / y;", rawfam="div", witness=isint)
                if not isint or ui == 0:
                    pair("div_sq", ct, ut, P, xy, "auto r = x / %s; return r.in(decltype(r)::unit);" % q("y"), "return x / y;",
                         rawfam="div", witness=isint, expect="integer_scalar_over_quantity" if isint else None)
                # --- compound assignment (stored back into R)
                for fam, op, rhs in (("addeq", "+=", q("y")), ("subeq", "-=", q("y")), ("muleq", "*=", "y"), ("diveq", "/=", "y")):
                    pair(fam, ct, ut, ct, xy, "auto q = %s; q %s %s; return q.in(%s{});" % (q("x"), op, rhs, U),
                         "%s r = x; r %s y; return r;" % (ct, op), witness=isint)
                    pair(fam + "_ref", ct, ut, ct, xy, "auto q = %s; return (q %s %s).in(%s{});" % (q("x"), op, rhs, U),
                         "%s r = x; r %s y; return r;" % (ct, op), rawfam=fam)
                # --- comparisons
                for cn, op in CMPS:
                    pair(cn, ct, ut, "bool", xy, "return %s %s %s;" % (q("x"), op, q("y")), "return x %s y;" % op)
                # --- QuantityPoint same-unit operators (values read through data_in: direct member access)
                psub = "subint_point_from_promoted" if sub else None
                pair("pt_sub", ct, ut, ct, xy, "return (%s - %s).in(%s{});" % (p("x"), p("y"), U),
                     "return static_cast<%s>(x - y);" % ct, rawfam="sub_r", witness=isint, expect=psub)
                pair("pt_add_q", ct, ut, ct, xy, "return (%s + %s).data_in(%s{});" % (p("x"), q("y"), U),
                     "return static_cast<%s>(x + y);" % ct, rawfam="add_r", witness=isint, expect=psub)
                pair("q_add_pt", ct, ut, ct, xy, "return (%s + %s).data_in(%s{});" % (q("x"), p("y"), U),
                     "return static_cast<%s>(x + y);" % ct, rawfam="add_r", expect=psub)
                pair("pt_sub_q", ct, ut, ct, xy, "return (%s - %s).data_in(%s{});" % (p("x"), q("y"), U),
                     "return static_cast<%s>(x - y);" % ct, rawfam="sub_r", witness=isint, expect=psub)
                pair("pt_addeq", ct, ut, ct, xy, "auto p = %s; p += %s; return p.data_in(%s{});" % (p("x"), q("y"), U),
                     "%s r = x; r += y; return r;" % ct, rawfam="addeq")
                pair("pt_subeq", ct, ut, ct, xy, "auto p = %s; return (p -= %s).data_in(%s{});" % (p("x"), q("y"), U),
                     "%s r = x; r -= y; return r;" % ct, rawfam="subeq")
                for cn, op in CMPS:
                    pair("pt_" + cn, ct, ut, "bool", xy, "return %s %s %s;" % (p("x"), op, p("y")), "return x %s y;" % op, rawfam=cn)
                # point read-out through in(): x + (zero origin displacement)
                pair("pt_in", ct, ut, ct, x1, "return %s.in(%s{});" % (p("x"), U), "return static_cast<%s>(x + %s{0});" % (ct, ct),
                     rawfam="plus_zero")
                # --- closed facts
                dq, dr = "std::declval<%s>()" % Q, "std::declval<%s>()" % ct
                dp = "std::declval<%s>()" % PT

                def closed(fam, ret, body, expected=True, claim=True, key=key, tag=tag):
                    n = add(F.Kernel("c13_%s_%s" % (fam, tag), ret, [], body, key=dict(key, fact=fam), family="closed_" + fam))
                    if claim:
                        self.closed.append(("%s:%s" % (fam, tag), n, expected, dict(key, fact=fam)))
                    else:
                        self.facts.append((fam, n, dict(key, fact=fam)))
                for who, ty in (("q", Q), ("pt", PT)):
                    closed("sizeof_" + who, "bool", "return sizeof(%s) == sizeof(%s);" % (ty, ct))
                    closed("alignof_" + who, "bool", "return alignof(%s) == alignof(%s);" % (ty, ct))
                    closed("triv_copy_" + who, "bool", "return std::is_trivially_copyable<%s>::value;" % ty)
                    closed("triv_dtor_" + who, "bool", "return std::is_trivially_destructible<%s>::value;" % ty)
                    closed("std_layout_" + who, "bool", "return std::is_standard_layout<%s>::value;" % ty)
                closed("default_q", ct, "return %s{}.in(%s{});" % (Q, U), expected=("zero", ct))
                closed("default_q2", ct, "%s q; return q.in(%s{});" % (Q, U), expected=("zero", ct))
                closed("default_pt", ct, "%s p; return p.data_in(%s{});" % (PT, U), expected=("zero", ct))
                for fam, au_e, raw_e in (("add", "%s + %s" % (dq, dq), "%s + %s" % (dr, dr)),
                                         ("sub", "%s - %s" % (dq, dq), "%s - %s" % (dr, dr)),
                                         ("mul_qs", "%s * %s" % (dq, dr), "%s * %s" % (dr, dr)),
                                         ("mul_sq", "%s * %s" % (dr, dq), "%s * %s" % (dr, dr)),
                                         ("div_qs", "%s / %s" % (dq, dr), "%s / %s" % (dr, dr)),
                                         ("mod", "%s %% %s" % (dq, dq), "%s %% %s" % (dr, dr)),
                                         ("pos", "+%s" % dq, "+%s" % dr),
                                         ("neg", "-%s" % dq, "-%s" % dr)):
                    if fam == "mod" and not isint:
                        continue
                    closed("type_" + fam, "bool", "return std::is_same<decltype(%s), Quantity<%s, decltype(%s)>>::value;" % (au_e, U, raw_e),
                           claim=not (sub and fam in ("mod", "pos", "neg")))
                closed("type_cmp", "bool", "return " + " && ".join(
                    "std::is_same<decltype(%s %s %s), bool>::value && std::is_same<decltype(%s %s %s), bool>::value" % (dq, op, dq, dp, op, dp)
                    for _, op in CMPS) + ";")
                closed("type_compound", "bool", "return " + " && ".join(
                    "std::is_same<decltype(std::declval<%s&>() %s %s), %s&>::value" % (Q, op, rhs, Q)
                    for op, rhs in (("+=", dq), ("-=", dq), ("*=", dr), ("/=", dr))) + ";")
                closed("type_rep_unit", "bool", "return std::is_same<typename %s::Rep, %s>::value && std::is_same<typename %s::Unit, %s>::value"
                       " && std::is_same<typename %s::Rep, %s>::value && std::is_same<typename %s::Diff, %s>::value"
                       " && std::is_same<decltype(%s), %s>::value;" % (Q, ct, Q, U, PT, ct, PT, Q, q(dr), Q))
                closed("type_pt_sub", "bool", "return std::is_same<decltype(%s - %s), %s>::value;" % (dp, dp, Q))
            # --- mixed scalar operand types (first unit only)
        ut = self.units()[0][0]
        U = "C13_" + ut
        for ct, s in self.mixed():
            res = arith_result(ct, s)
            args = [(ct, "x"), (s, "y")]
            sfx = "_x_" + rtag(s)
            q = "make_quantity<%s>(x)" % U
            isint = not F.ct_is_float(res)
            pair("mul_qs", ct, ut, res, args, "return (%s * y).in(%s{});" % (q, U), "return x * y;", rawfam="mul", sfx=sfx, witness=isint, s=s)
            pair("mul_sq", ct, ut, res, args, "return (y * %s).in(%s{});" % (q, U), "return y * x;", rawfam="mul_rev", sfx=sfx, s=s)
            pair("div_qs", ct, ut, res, args, "return (%s / y).in(%s{});" % (q, U), "return x / y;", rawfam="div", sfx=sfx, witness=isint, s=s)
            if F.ct_is_float(ct) or not F.ct_is_float(s):
                for fam, op in (("muleq", "*="), ("diveq", "/=")):
                    pair(fam, ct, ut, ct, args, "auto q = %s; q %s y; return q.in(%s{});" % (q, op, U),
                         "%s r = x; r %s y; return r;" % (ct, op), sfx=sfx, s=s)
            n = add(F.Kernel("c13_type_mixed_%s%s_%s" % (rtag(ct), sfx, ut), "bool", [],
                             "return std::is_same<decltype(%s * std::declval<%s>()), Quantity<%s, decltype(std::declval<%s>() * std::declval<%s>())>>::value"
                             " && std::is_same<decltype(%s / std::declval<%s>()), Quantity<%s, decltype(std::declval<%s>() / std::declval<%s>())>>::value;" % (
                                 "std::declval<Quantity<%s, %s>>()" % (U, ct), s, U, ct, s,
                                 "std::declval<Quantity<%s, %s>>()" % (U, ct), s, U, ct, s),
                             key={"rep": ct, "scalar": s, "unit": ut, "fact": "type_mixed"}, family="closed_type_mixed"))
            self.closed.append(("type_mixed:%s%s_%s" % (rtag(ct), sfx, ut), n, True, {"rep": ct, "scalar": s, "unit": ut}))
        self.programs = len(self.pairs)
        return ks

    # ------------------------------------------------------------------ obligations
    def obligations(self, K):
        obs = []
        drops = {}
        unexpected = []
        npairs = 0
        for obname, au, rw, args, key, fp, witness in self.pairs:
            if au not in K or rw not in K:
                continue
            da, dr = K[au].kernel.dropped, K[rw].kernel.dropped
            exp = self.expected_drop.get(au)
            if da or dr:
                ob = F.Ob("skip:" + obname, [], None, key=dict(key, expected_drop=exp, reason=(da or dr)[:160]))
                ob.status = "skipped-domain"
                obs.append(ob)
                if da and exp and not dr:
                    drops[exp] = drops.get(exp, 0) + 1
                else:
                    unexpected.append("%s: %s" % (au if da else rw, (da or dr)[:200]))
                continue
            if exp:
                self.notes.append("kernel %s was expected not to compile (%s) but lowered; it is checked like the others" % (au, exp))
            npairs += 1
            vars_ = [(n, F.ct_sort(t)) for t, n in args]

            def fn(K, *vs, au=au, rw=rw):
                return T.TRUE, ub_equiv_post(K[au](*vs), K[rw](*vs))
            obs.append(F.Ob(obname, vars_, fn, routes=F.FP_ROUTES if fp else F.CMP_ROUTES, key=key, kernels=[au, rw],
                            note="au operator == raw operator on bare rep: same trap condition, same result bits when no trap"))
            if witness:
                def wfn(K, *vs, au=au):
                    return T.TRUE, T.not_(K[au](*vs).ub)
                obs.append(F.Ob("witness:" + obname, vars_, wfn, expect="sat", routes=F.CMP_ROUTES, key=key, kernels=[au],
                                note="some operand pair does not trap (the equivalence is not vacuous)"))
        for obname, name, ct, key in self.rts:
            if name not in K:
                continue
            if K[name].kernel.dropped:
                unexpected.append("%s: %s" % (name, K[name].kernel.dropped[:200]))
                ob = F.Ob("skip:" + obname, [], None, key=key)
                ob.status = "skipped-domain"
                obs.append(ob)
                continue

            def rfn(K, x, name=name):
                e = K[name](x)
                return T.TRUE, T.and_(T.not_(e.ub), T.eq(e.ret, x))
            obs.append(F.Ob(obname, [("x", F.ct_sort(ct))], rfn, routes=F.FP_ROUTES if F.ct_is_float(ct) else F.CMP_ROUTES,
                            key=key, kernels=[name], note="value read back is the input bit-for-bit, no trap"))
        for obname, name, expected, key in self.closed:
            if name not in K:
                continue
            if K[name].kernel.dropped:
                unexpected.append("%s: %s" % (name, K[name].kernel.dropped[:200]))
                ob = F.Ob("skip:" + obname, [], None, key=key)
                ob.status = "skipped-domain"
                obs.append(ob)
                continue

            def cfn(K, name=name, expected=expected):
                e = K[name]()
                if expected is True:
                    return T.TRUE, T.and_(e.ret, T.not_(e.ub))
                w = F.CTYPES[expected[1]][1]
                return T.TRUE, T.and_(T.eq(e.ret, T.const_bv(0, w)), T.not_(e.ub))
            obs.append(F.Ob(obname, [], cfn, kind="closed", key=key, kernels=[name],
                            note="compile-time fact observed as the kernel's constant result"))
        # recorded, unclaimed facts (D6: declared result type of unary +/-/% on sub-int reps)
        d6_types = {}
        for fam, name, key in self.facts:
            if name not in K or K[name].kernel.dropped:
                continue
            try:
                r = K[name]().ret
                val = bool(r.attr) if T.is_const(r) else None
            except Exception:   # noqa
                val = None
            d6_types["%s %s %s" % (fam, key["rep"], key["unit"])] = val
        if d6_types:
            same = sum(1 for v in d6_types.values() if v)
            self.extra_cov["D6_declared_result_type_equals_raw_operator_type"] = {
                "true": same, "false": sum(1 for v in d6_types.values() if v is False), "instances": len(d6_types),
                "meaning": "decltype(-q), decltype(+q), decltype(q % q) for int8/uint8/int16/uint16 reps is Quantity<U,R> while "
                           "the raw operator yields int; recorded with defect D6, not claimed"}
        self.extra_cov["expected_out_of_domain_kernels"] = drops
        self.extra_cov["kernel_pairs_compared"] = npairs
        if drops.get("D6"):
            self.notes.append("D6: %d kernels (unary +, unary -, same-unit %% on int8/uint8/int16/uint16 reps) do not compile under "
                              "clang 14: narrowing list-initialisation `return {-value_};` (g++ accepts with a warning)" % drops["D6"])
        if drops.get("subint_point_from_promoted"):
            self.notes.append("%d QuantityPoint kernels on sub-int reps (p - p, p + q, q + p, p - q) do not compile: the promoted "
                              "Quantity<U,int> is not implicitly convertible to Quantity<U,R>" % drops["subint_point_from_promoted"])
        if drops.get("integer_scalar_over_quantity"):
            self.notes.append("%d integer `scalar / quantity` kernels rejected by static_assert (integer division forbidden), by design"
                              % drops["integer_scalar_over_quantity"])
        for u in unexpected[:10]:
            self.notes.append("unexpected drop: " + u)
        if unexpected:
            self.inconclusive.append("%d kernels that the module expects to compile were dropped, e.g. %s" % (len(unexpected), unexpected[0]))
        return obs

    def known_predicates(self):
        def d6(ob, vs):
            """inputs where the raw operator's int result is not representable in the sub-int rep (only meaningful once the D6
            kernels compile, e.g. after a static_cast<Rep> repair that keeps Quantity<U,R> as the result type)"""
            if ob.key.get("rep") not in SUBINT or ob.key.get("op") not in ("pos", "neg", "mod") or len(ob.kernels) < 2:
                return None
            ct = ob.key["rep"]
            w = F.CTYPES[ct][1]
            r = self.K[ob.kernels[1]](*vs).ret
            back = T.sext(T.trunc(r, w), 32) if F.ct_signed(ct) else T.zext(T.trunc(r, w), 32)
            return T.ne(back, r)
        return {"D6": d6}


CHECK = C13
