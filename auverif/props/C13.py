"""C13 - Quantity / QuantityPoint are zero-overhead transparent wrappers around their rep (DESIGN.md section 6, C13).

Translation validation: every same-unit operator of Quantity<U,R> / QuantityPoint<U,R> is lowered next to the same
operator spelled on bare R ("raw" reference kernel, same compiler, same TU) and the solver decides, for all operand bit
patterns, "same trap condition, and the same result bits whenever the raw operator does not trap".
"""
from .. import framework as F
from .. import terms as T

SUBINT = ("int8_t", "uint8_t", "int16_t", "uint16_t")

# (tag, C++ unit type)
UNITS_QUICK = [
    ("m", "Meters"),
    ("ft", "Feet"),
    ("mps", "decltype(Meters{} / Seconds{})"),
]
UNITS_THOROUGH = UNITS_QUICK + [
    ("degC", "Celsius"),
    ("km", "Kilo<Meters>"),
    ("rad", "Radians"),
    ("pct", "Percent"),
    ("bit", "Bits"),
    ("ft37", "decltype(Feet{} * mag<3>() / mag<7>())"),
    ("hz", "UnitInverseT<Seconds>"),
    ("m2ps", "decltype(Meters{} * Meters{} / Seconds{})"),
    ("degF", "Fahrenheit"),
]

# mixed scalar operand types (rep, scalar)
MIXED_QUICK = [("int32_t", "double"), ("float", "int32_t"), ("int16_t", "int64_t"), ("uint8_t", "float")]
MIXED_THOROUGH = MIXED_QUICK + [("double", "float"), ("int64_t", "uint64_t"), ("uint32_t", "int32_t"),
                                ("long double", "int64_t"), ("uint16_t", "uint16_t"), ("int8_t", "uint8_t"),
                                ("uint64_t", "int8_t"), ("double", "long double"), ("int32_t", "int16_t")]

CMPS = [("eq", "=="), ("ne", "!="), ("lt", "<"), ("le", "<="), ("gt", ">"), ("ge", ">=")]


def rtag(ct):
    return ct.replace("_t", "").replace(" ", "")


def arith_result(a, b):
    """C++ usual arithmetic conversions on x86-64 (type of `a op b` for the arithmetic types used here)."""
    ka, wa, _ = F.CTYPES[a]
    kb, wb, _ = F.CTYPES[b]
    if ka == "f" or kb == "f":
        rank = {"float": 1, "double": 2, "long double": 3}
        cands = [t for t in (a, b) if F.CTYPES[t][0] == "f"]
        return max(cands, key=lambda t: rank[t])
    a, b = F.promoted(a), F.promoted(b)
    ka, wa, _ = F.CTYPES[a]
    kb, wb, _ = F.CTYPES[b]
    if ka == kb:
        return a if wa >= wb else b
    (u, wu), (s, ws) = ((a, wa), (b, wb)) if ka == "u" else ((b, wb), (a, wa))
    if wu >= ws:
        return u
    return s        # the signed type is strictly wider: it represents every value of the unsigned one


def ub_equiv_post(a, r, nan_ct=None):
    """same trap condition; same result bits whenever the reference does not trap.
    nan_ct (a floating C type): the result is produced by floating-point *arithmetic*; SMT-LIB FP has a single NaN, so the
    payload/sign of an arithmetic NaN result is not modelled.  Structurally identical encodings still fold to bit equality;
    when they are not identical the solver is asked for a difference other than 'both NaN' (which would not replay)."""
    same = T.eq(a.ret, r.ret)
    if nan_ct is not None:
        fmt = F.FMT_OF[nan_ct]
        same = T.or_(same, T.and_(T.fp_isnan(fmt, a.ret), T.fp_isnan(fmt, r.ret)))
    return T.and_(T.eq(a.ub, r.ub), T.or_(r.ub, same))


class C13(F.Check):
    pid = "C13"
    level = "translation_validation"
    chunk_size = 160
    validate_inputs = 10
    assumptions = [
        "clang 14 front end and -O1 pipeline, own LLVM-IR->SMT encoder, z3 5.1 / cvc5 are trusted; the raw reference "
        "kernels are lowered by the same compiler in the same TU",
        "quantifier over operand values is solver-decided and complete (every bit pattern, incl. NaN payloads, "
        "infinities, signed zeros; x87 long double as (_ FloatingPoint 15 64), pseudo-denormals outside)",
        "SMT-LIB floating point has a single NaN: where an au kernel and its reference are not structurally identical, results "
        "of floating-point arithmetic are compared bit-for-bit except that two NaN results count as equal (payload/sign of an "
        "arithmetic NaN is not modelled); round trips, unary +/- and comparisons are bit-exact for every NaN payload",
        "quantifier over units is enumerated (library units + generated compound/scaled units), over reps: the 11 "
        "arithmetic reps; 'all units in the library' is not enumerated exhaustively",
        "trap condition = any reachable -fsanitize=undefined trap (signed overflow, division by zero, INT_MIN/-1), "
        "violated nsw/nuw flag or poison use; unsigned wrap-around is not a trap here",
        "unary +, unary - and same-unit % on int8/uint8/int16/uint16 reps do not lower under clang (narrowing "
        "list-initialisation, defect D6): those kernels are dropped by the domain-drop pass and counted, not claimed; "
        "their declared result type Quantity<U,R> also differs from the raw operator's int (recorded, not claimed)",
        "the integral raw reference kernels are themselves checked against an exact integer oracle (promotion, signed-overflow "
        "/ division-by-zero / min/-1 traps, modular conversion back to the rep) for + - unary comparisons and compound forms "
        "on all 8 integral reps, and for * / % on the 8/16-bit reps; 32/64-bit * / % references are not given an oracle "
        "(au and raw encodings are structurally identical there)",
        "integer `scalar / quantity` is rejected by a static_assert by design (outside the domain; probed and counted)",
        "the framework lowers with -Wno-everything, which would silence clang's default-error narrowing diagnostic; this "
        "module restores clang's default with `#pragma clang diagnostic error \"-Wc++11-narrowing\"` ahead of the Au headers",
        "QuantityPoint same-unit ops on sub-int reps convert the promoted Quantity<U,int> back to Quantity<U,R> implicitly "
        "(static_cast inside the library); their reference is the raw operator's result cast to R",
        "QuantityPoint values are read with data_in(unit) (direct member access); QuantityPoint::in(unit) adds the zero "
        "origin displacement (x + 0) and is compared with the raw expression `x + R{0}`, not with x",
        "g++ and the -std=c++17/20 axes are outside (C20 covers the clang -std axis); g++ is only used for native "
        "replay / translator validation",
        "well-formedness halves (what must not compile) are outside",
    ]

    def bounds(self):
        return {"stored values": "all bit patterns of every operand (no bound)", "reps": F.ALL_REPS + F.TWIN_INT_REPS,
                "units": [u for _, u in self.units()], "mixed scalar pairs": self.mixed(), "unwind": 0,
                "inline_depth": 0}

    def units(self):
        return UNITS_THOROUGH if self.tier == "thorough" else UNITS_QUICK

    def mixed(self):
        return MIXED_THOROUGH if self.tier == "thorough" else MIXED_QUICK

    # ------------------------------------------------------------------ kernels
    def kernels(self):
        ks = []
        self.pairs = []      # (obname, au, raw, argspec, key, fp, witness)
        self.rts = []        # (obname, kernel, ct, key)
        self.closed = []     # (obname, kernel, expected, key)   expected: True or ("zero", ct)
        self.facts = []      # (label, kernel, key)  recorded, not claimed
        self.expected_drop = {}   # kernel name -> reason label
        self.raws = []       # (family, rep, kernel, ret, args) same-type reference kernels, checked against exact integer oracles
        # clang's default: non-constant narrowing in list-initialisation is an error (the framework's -Wno-everything hides it)
        self.includes = '#pragma clang diagnostic error "-Wc++11-narrowing"\n' + F.std_includes()
        self.prelude = "\n".join("using C13_%s = %s;" % (t, u) for t, u in self.units()) + "\n"
        raw_seen = {}

        def add(k):
            ks.append(k)
            return k.name

        def raw(fam, ct, ret, args, body, sfx=""):
            name = "c13_raw_%s_%s%s" % (fam, rtag(ct), sfx)
            if name not in raw_seen:
                raw_seen[name] = add(F.Kernel(name, ret, args, body, key={"rep": ct, "op": fam}, family="raw_" + fam))
                if not sfx:
                    self.raws.append((fam, ct, name, ret, args))
            return name

        def pair(fam, ct, ut, ret, args, au_body, raw_body, rawfam=None, sfx="", witness=False, expect=None, s=None):
            key = {"rep": ct, "unit": ut, "op": fam}
            if s:
                key["scalar"] = s
            au = add(F.Kernel("c13_%s_%s%s_%s" % (fam, rtag(ct), sfx, ut), ret, args, au_body, key=key, family=fam))
            rw = raw(rawfam or fam, ct, ret, args, raw_body, sfx)
            fp = any(F.ct_is_float(t) for t, _ in args) or F.ct_is_float(ret)
            # results of FP arithmetic: NaN payload only compared structurally; moves / sign flips / comparisons: bit-exact
            nan_ct = ret if (F.ct_is_float(ret) and fam not in ("pos", "neg")) else None
            self.pairs.append(("%s:%s%s_%s" % (fam, rtag(ct), sfx, ut), au, rw, args, key, fp, witness, nan_ct))
            if expect:
                self.expected_drop[au] = expect

        for ct in F.ALL_REPS + F.TWIN_INT_REPS:
            P = F.promoted(ct)
            isint = not F.ct_is_float(ct)
            sub = ct in SUBINT
            xy = [(ct, "x"), (ct, "y")]
            x1 = [(ct, "x")]
            for ui, (ut, _) in enumerate(self.units()):
                if ct in F.TWIN_INT_REPS and ui > 0:      # long long / unsigned long long: distinct types, same arithmetic as int64_t / uint64_t - one unit
                    continue
                U = "C13_" + ut
                Q = "Quantity<%s, %s>" % (U, ct)
                PT = "QuantityPoint<%s, %s>" % (U, ct)
                q = lambda v, U=U: "make_quantity<%s>(%s)" % (U, v)          # noqa: E731
                p = lambda v, U=U: "make_quantity_point<%s>(%s)" % (U, v)    # noqa: E731
                key = {"rep": ct, "unit": ut}
                tag = "%s_%s" % (rtag(ct), ut)
                # --- round trips
                for fam, body in (
                        ("rt", "return %s.in(%s{});" % (q("x"), U)),
                        ("rt_maker", "return QuantityMaker<%s>{}(x).in(QuantityMaker<%s>{});" % (U, U)),
                        ("rt_data", "auto q = %s; return q.data_in(%s{});" % (q("x"), U)),
                        ("rt_copy", "%s a = %s; %s b; b = a; %s c(b); return c.in(%s{});" % (Q, q("x"), Q, Q, U)),
                        ("rt_pt_data", "auto p = %s; return p.data_in(%s{});" % (p("x"), U)),
                        ("rt_pt_copy", "%s a = %s; %s b; b = a; %s c(b); return c.data_in(%s{});" % (PT, p("x"), PT, PT, U)),
                ):
                    n = add(F.Kernel("c13_%s_%s" % (fam, tag), ct, x1, body, key=dict(key, op=fam), family=fam))
                    self.rts.append(("%s:%s" % (fam, tag), n, ct, dict(key, op=fam)))
                # --- Quantity: binary value operators (result type = promoted type, like the raw operator)
                d6 = "D6" if sub else None
                pair("add", ct, ut, P, xy, "return (%s + %s).in(%s{});" % (q("x"), q("y"), U), "return x + y;", witness=isint)
                pair("sub", ct, ut, P, xy, "return (%s - %s).in(%s{});" % (q("x"), q("y"), U), "return x - y;", witness=isint)
                if isint:
                    pair("mod", ct, ut, P, xy, "return (%s %% %s).in(%s{});" % (q("x"), q("y"), U), "return x % y;",
                         witness=True, expect=d6)
                pair("pos", ct, ut, P, x1, "return (+%s).in(%s{});" % (q("x"), U), "return +x;", expect=d6)
                pair("neg", ct, ut, P, x1, "return (-%s).in(%s{});" % (q("x"), U), "return -x;", witness=isint, expect=d6)
                pair("mul_qs", ct, ut, P, xy, "return (%s * y).in(%s{});" % (q("x"), U), "return x * y;", rawfam="mul", witness=isint)
                pair("mul_sq", ct, ut, P, xy, "return (x * %s).in(%s{});" % (q("y"), U), "return x * y;", rawfam="mul", witness=isint)
                pair("div_qs", ct, ut, P, xy, "return (%s / y).in(%s{});" % (q("x"), U), "return x / y;", rawfam="div", witness=isint)
                if not isint or ui == 0:
                    pair("div_sq", ct, ut, P, xy, "auto r = x / %s; return r.in(decltype(r)::unit);" % q("y"), "return x / y;",
                         rawfam="div", witness=isint, expect="integer_scalar_over_quantity" if isint else None)
                # --- compound assignment (stored back into R)
                for fam, op, rhs in (("addeq", "+=", q("y")), ("subeq", "-=", q("y")), ("muleq", "*=", "y"), ("diveq", "/=", "y")):
                    pair(fam, ct, ut, ct, xy, "auto q = %s; q %s %s; return q.in(%s{});" % (q("x"), op, rhs, U),
                         "%s r = x; r %s y; return r;" % (ct, op), witness=isint)
                    pair(fam + "_ref", ct, ut, ct, xy, "auto q = %s; return (q %s %s).in(%s{});" % (q("x"), op, rhs, U),
                         "%s r = x; r %s y; return r;" % (ct, op), rawfam=fam)
                # --- comparisons
                for cn, op in CMPS:
                    pair(cn, ct, ut, "bool", xy, "return %s %s %s;" % (q("x"), op, q("y")), "return x %s y;" % op)
                # --- QuantityPoint same-unit operators (values read through data_in: direct member access)
                psub = None
                pair("pt_sub", ct, ut, ct, xy, "return (%s - %s).in(%s{});" % (p("x"), p("y"), U),
                     "return static_cast<%s>(x - y);" % ct, rawfam="sub_r", witness=isint, expect=psub)
                pair("pt_add_q", ct, ut, ct, xy, "return (%s + %s).data_in(%s{});" % (p("x"), q("y"), U),
                     "return static_cast<%s>(x + y);" % ct, rawfam="add_r", witness=isint, expect=psub)
                pair("q_add_pt", ct, ut, ct, xy, "return (%s + %s).data_in(%s{});" % (q("x"), p("y"), U),
                     "return static_cast<%s>(x + y);" % ct, rawfam="add_r", expect=psub)
                pair("pt_sub_q", ct, ut, ct, xy, "return (%s - %s).data_in(%s{});" % (p("x"), q("y"), U),
                     "return static_cast<%s>(x - y);" % ct, rawfam="sub_r", witness=isint, expect=psub)
                pair("pt_addeq", ct, ut, ct, xy, "auto p = %s; p += %s; return p.data_in(%s{});" % (p("x"), q("y"), U),
                     "%s r = x; r += y; return r;" % ct, rawfam="addeq")
                pair("pt_subeq", ct, ut, ct, xy, "auto p = %s; return (p -= %s).data_in(%s{});" % (p("x"), q("y"), U),
                     "%s r = x; r -= y; return r;" % ct, rawfam="subeq")
                for cn, op in CMPS:
                    pair("pt_" + cn, ct, ut, "bool", xy, "return %s %s %s;" % (p("x"), op, p("y")), "return x %s y;" % op, rawfam=cn)
                # point read-out through in(): x + (zero origin displacement)
                pair("pt_in", ct, ut, ct, x1, "return %s.in(%s{});" % (p("x"), U), "return x;", rawfam="identity")
                pair("pt_in_rep", ct, ut, ct, x1, "return %s.in<%s>(%s{});" % (p("x"), ct, U), "return x;", rawfam="identity")
                # --- closed facts
                dq, dr = "std::declval<%s>()" % Q, "std::declval<%s>()" % ct
                dp = "std::declval<%s>()" % PT

                def closed(fam, ret, body, expected=True, claim=True, key=key, tag=tag):
                    n = add(F.Kernel("c13_%s_%s" % (fam, tag), ret, [], body, key=dict(key, fact=fam), family="closed_" + fam))
                    if claim:
                        self.closed.append(("%s:%s" % (fam, tag), n, expected, dict(key, fact=fam)))
                    else:
                        self.facts.append((fam, n, dict(key, fact=fam)))
                for who, ty in (("q", Q), ("pt", PT)):
                    closed("sizeof_" + who, "bool", "return sizeof(%s) == sizeof(%s);" % (ty, ct))
                    closed("alignof_" + who, "bool", "return alignof(%s) == alignof(%s);" % (ty, ct))
                    closed("triv_copy_" + who, "bool", "return std::is_trivially_copyable<%s>::value;" % ty)
                    closed("triv_dtor_" + who, "bool", "return std::is_trivially_destructible<%s>::value;" % ty)
                    closed("std_layout_" + who, "bool", "return std::is_standard_layout<%s>::value;" % ty)
                closed("default_q", ct, "return %s{}.in(%s{});" % (Q, U), expected=("zero", ct))
                closed("default_q2", ct, "%s q; return q.in(%s{});" % (Q, U), expected=("zero", ct))
                closed("default_pt", ct, "%s p; return p.data_in(%s{});" % (PT, U), expected=("zero", ct))
                for fam, au_e, raw_e in (("add", "%s + %s" % (dq, dq), "%s + %s" % (dr, dr)),
                                         ("sub", "%s - %s" % (dq, dq), "%s - %s" % (dr, dr)),
                                         ("mul_qs", "%s * %s" % (dq, dr), "%s * %s" % (dr, dr)),
                                         ("mul_sq", "%s * %s" % (dr, dq), "%s * %s" % (dr, dr)),
                                         ("div_qs", "%s / %s" % (dq, dr), "%s / %s" % (dr, dr)),
                                         ("mod", "%s %% %s" % (dq, dq), "%s %% %s" % (dr, dr)),
                                         ("pos", "+%s" % dq, "+%s" % dr),
                                         ("neg", "-%s" % dq, "-%s" % dr)):
                    if fam == "mod" and not isint:
                        continue
                    closed("type_" + fam, "bool", "return std::is_same<decltype(%s), Quantity<%s, decltype(%s)>>::value;" % (au_e, U, raw_e),
                           claim=not (sub and fam in ("mod", "pos", "neg")))
                closed("type_cmp", "bool", "return " + " && ".join(
                    "std::is_same<decltype(%s %s %s), bool>::value && std::is_same<decltype(%s %s %s), bool>::value" % (dq, op, dq, dp, op, dp)
                    for _, op in CMPS) + ";")
                closed("type_compound", "bool", "return " + " && ".join(
                    "std::is_same<decltype(std::declval<%s&>() %s %s), %s&>::value" % (Q, op, rhs, Q)
                    for op, rhs in (("+=", dq), ("-=", dq), ("*=", dr), ("/=", dr))) + ";")
                closed("type_rep_unit", "bool", "return std::is_same<typename %s::Rep, %s>::value && std::is_same<typename %s::Unit, %s>::value"
                       " && std::is_same<typename %s::Rep, %s>::value && std::is_same<typename %s::Diff, %s>::value"
                       " && std::is_same<decltype(%s), %s>::value;" % (Q, ct, Q, U, PT, ct, PT, Q, q(dr), Q))
                closed("type_pt_sub", "bool", "return std::is_same<decltype(%s - %s), %s>::value;" % (dp, dp, Q))
            # --- mixed scalar operand types (first unit only)
        ut = self.units()[0][0]
        U = "C13_" + ut
        for ct, s in self.mixed():
            res = arith_result(ct, s)
            args = [(ct, "x"), (s, "y")]
            sfx = "_x_" + rtag(s)
            q = "make_quantity<%s>(x)" % U
            isint = not F.ct_is_float(res)
            pair("mul_qs", ct, ut, res, args, "return (%s * y).in(%s{});" % (q, U), "return x * y;", rawfam="mul", sfx=sfx, witness=isint, s=s)
            pair("mul_sq", ct, ut, res, args, "return (y * %s).in(%s{});" % (q, U), "return y * x;", rawfam="mul_rev", sfx=sfx, s=s)
            pair("div_qs", ct, ut, res, args, "return (%s / y).in(%s{});" % (q, U), "return x / y;", rawfam="div", sfx=sfx, witness=isint, s=s)
            if F.ct_is_float(ct) or not F.ct_is_float(s):
                for fam, op in (("muleq", "*="), ("diveq", "/=")):
                    pair(fam, ct, ut, ct, args, "auto q = %s; q %s y; return q.in(%s{});" % (q, op, U),
                         "%s r = x; r %s y; return r;" % (ct, op), sfx=sfx, s=s)
            n = add(F.Kernel("c13_type_mixed_%s%s_%s" % (rtag(ct), sfx, ut), "bool", [],
                             "return std::is_same<decltype(%s * std::declval<%s>()), Quantity<%s, decltype(std::declval<%s>() * std::declval<%s>())>>::value"
                             " && std::is_same<decltype(%s / std::declval<%s>()), Quantity<%s, decltype(std::declval<%s>() / std::declval<%s>())>>::value;" % (
                                 "std::declval<Quantity<%s, %s>>()" % (U, ct), s, U, ct, s,
                                 "std::declval<Quantity<%s, %s>>()" % (U, ct), s, U, ct, s),
                             key={"rep": ct, "scalar": s, "unit": ut, "fact": "type_mixed"}, family="closed_type_mixed"))
            self.closed.append(("type_mixed:%s%s_%s" % (rtag(ct), sfx, ut), n, True, {"rep": ct, "scalar": s, "unit": ut}))
        self.programs = len(self.pairs)
        return ks

    # ------------------------------------------------------------------ obligations
    def obligations(self, K):
        obs = []
        drops = {}
        lowered = {}
        unexpected = []
        npairs = 0
        pt_in_nonident = 0
        for obname, au, rw, args, key, fp, witness, nan_ct in self.pairs:
            if au not in K or rw not in K:
                continue
            da, dr = K[au].kernel.dropped, K[rw].kernel.dropped
            exp = self.expected_drop.get(au)
            if da or dr:
                ob = F.Ob("skip:" + obname, [], None, key=dict(key, expected_drop=exp, reason=(da or dr)[:160]))
                ob.status = "skipped-domain"
                obs.append(ob)
                if da and exp and not dr:
                    drops[exp] = drops.get(exp, 0) + 1
                else:
                    unexpected.append("%s: %s" % (au if da else rw, (da or dr)[:200]))
                continue
            if exp:
                lowered[exp] = lowered.get(exp, 0) + 1
            npairs += 1
            vars_ = [(n, F.ct_sort(t)) for t, n in args]

            def fn(K, *vs, au=au, rw=rw, nan_ct=nan_ct):
                return T.TRUE, ub_equiv_post(K[au](*vs), K[rw](*vs), nan_ct)
            obs.append(F.Ob(obname, vars_, fn, routes=F.FP_ROUTES if fp else F.CMP_ROUTES, key=key, kernels=[au, rw],
                            note="au operator == raw operator on bare rep: same trap condition, same result bits when no trap"))
            if key["op"] in ("pt_in", "pt_in_rep"):
                # QuantityPoint::in(unit) adds the (zero) origin displacement: identity on integral reps; on floating reps it is
                # the raw `x + 0`, which is not the identity on bits (-0.0 -> +0.0, signalling NaN quieted): recorded, not claimed
                def ifn(K, x, au=au):
                    e = K[au](x)
                    return T.TRUE, T.and_(T.not_(e.ub), T.eq(e.ret, x))
                obs.append(F.Ob("pt_in_ident:" + obname.split(":", 1)[1], vars_, ifn, routes=F.CMP_ROUTES, key=key, kernels=[au],
                                note="make_quantity_point<U>(x).in(U{}) == x bit-for-bit, every rep (D16 fixed: no x + 0)"))
            if witness:
                def wfn(K, au=au, args=args):
                    cs = [T.const_bv(3 - i, F.CTYPES[t][1]) for i, (t, _) in enumerate(args)]
                    return T.TRUE, T.not_(K[au](*cs).ub)
                obs.append(F.Ob("witness:" + obname, [], wfn, expect="sat", routes=F.CMP_ROUTES, key=key, kernels=[au],
                                note="the operand tuple (3, 2) does not trap in the encoding (the equivalence is not vacuous)"))
        for obname, name, ct, key in self.rts:
            if name not in K:
                continue
            if K[name].kernel.dropped:
                unexpected.append("%s: %s" % (name, K[name].kernel.dropped[:200]))
                ob = F.Ob("skip:" + obname, [], None, key=key)
                ob.status = "skipped-domain"
                obs.append(ob)
                continue

            def rfn(K, x, name=name):
                e = K[name](x)
                return T.TRUE, T.and_(T.not_(e.ub), T.eq(e.ret, x))
            obs.append(F.Ob(obname, [("x", F.ct_sort(ct))], rfn, routes=F.FP_ROUTES if F.ct_is_float(ct) else F.CMP_ROUTES,
                            key=key, kernels=[name], note="value read back is the input bit-for-bit, no trap"))
        for obname, name, expected, key in self.closed:
            if name not in K:
                continue
            if K[name].kernel.dropped:
                unexpected.append("%s: %s" % (name, K[name].kernel.dropped[:200]))
                ob = F.Ob("skip:" + obname, [], None, key=key)
                ob.status = "skipped-domain"
                obs.append(ob)
                continue

            def cfn(K, name=name, expected=expected):
                e = K[name]()
                if expected is True:
                    return T.TRUE, T.and_(e.ret, T.not_(e.ub))
                w = F.CTYPES[expected[1]][1]
                return T.TRUE, T.and_(T.eq(e.ret, T.const_bv(0, w)), T.not_(e.ub))
            obs.append(F.Ob(obname, [], cfn, kind="closed", key=key, kernels=[name],
                            note="compile-time fact observed as the kernel's constant result"))
        obs += self.reference_obligations(K)
        # recorded, unclaimed facts (D6: declared result type of unary +/-/% on sub-int reps)
        d6_types = {}
        for fam, name, key in self.facts:
            if name not in K or K[name].kernel.dropped:
                continue
            try:
                r = K[name]().ret
                val = bool(r.attr) if T.is_const(r) else None
            except Exception:   # noqa
                val = None
            d6_types["%s %s %s" % (fam, key["rep"], key["unit"])] = val
        if d6_types:
            same = sum(1 for v in d6_types.values() if v)
            self.extra_cov["D6_declared_result_type_equals_raw_operator_type"] = {
                "true": same, "false": sum(1 for v in d6_types.values() if v is False), "instances": len(d6_types),
                "meaning": "decltype(-q), decltype(+q), decltype(q % q) for int8/uint8/int16/uint16 reps is Quantity<U,R> while "
                           "the raw operator yields int; recorded with defect D6, not claimed"}
        self.extra_cov["expected_out_of_domain_kernels"] = drops
        self.extra_cov["kernel_pairs_compared"] = npairs
        if drops.get("D6"):
            self.notes.append("D6: %d kernels (unary +, unary -, same-unit %% on int8/uint8/int16/uint16 reps) do not compile under "
                              "clang 14: narrowing list-initialisation `return {-value_};` (g++ accepts with a warning)" % drops["D6"])
        if drops.get("integer_scalar_over_quantity"):
            self.notes.append("%d integer `scalar / quantity` kernels rejected by static_assert (integer division forbidden), by design"
                              % drops["integer_scalar_over_quantity"])
        for exp, n in sorted(lowered.items()):
            self.notes.append("%d kernels expected not to compile (%s) did lower on this tree; they are checked like the others" % (n, exp))
        if lowered:
            self.extra_cov["expected_out_of_domain_kernels_that_lowered"] = lowered
        if pt_in_nonident:
            self.notes.append("observation: for floating reps make_quantity_point<U>(x).in(U{}) computes x + 0 (zero origin displacement), so "
                              "-0.0 reads back as +0.0 (%d instances have a stretch witness); Quantity::in and data_in are bit-exact" % pt_in_nonident)
        for u in unexpected[:10]:
            self.notes.append("unexpected drop: " + u)
        if unexpected:
            self.inconclusive.append("%d kernels that the module expects to compile were dropped, e.g. %s" % (len(unexpected), unexpected[0]))
        return obs

    # ---- the raw reference kernels mean what the C++ arithmetic rules say (exact integer oracle; integral reps)
    def reference_obligations(self, K):
        obs = []
        cmpf = {"eq": lambda a, b: T.eq(a, b), "ne": lambda a, b: T.ne(a, b), "lt": T.ilt, "le": T.ile, "gt": T.igt, "ge": T.ige}
        arith = {"add": "add", "sub": "sub", "mul": "mul", "div": "div", "mod": "mod", "add_r": "add", "sub_r": "sub",
                 "addeq": "add", "subeq": "sub", "muleq": "mul", "diveq": "div", "neg": "neg", "pos": "pos", "plus_zero": "pos"}
        for fam, ct, name, ret, args in self.raws:
            if name not in K or K[name].kernel.dropped or F.ct_is_float(ct):
                continue
            if fam not in cmpf and fam not in arith:
                continue
            op = arith.get(fam)
            w = F.CTYPES[ct][1]
            if op in ("mul", "div", "mod") and w > 16:
                continue       # symbolic x symbolic at 32/64 bit: both sides are structurally identical anyway; no oracle claimed
            P = F.promoted(ct)
            plo, phi = F.ct_range(P)
            psigned = F.ct_signed(P)

            def fn(K, *vs, fam=fam, ct=ct, name=name, ret=ret, op=op, P=P, plo=plo, phi=phi, psigned=psigned):
                r = K[name](*vs)
                X = F.ival(ct, vs[0])
                Y = F.ival(ct, vs[1]) if len(vs) > 1 else None
                if fam in cmpf:
                    return T.TRUE, T.and_(T.not_(r.ub), T.eq(r.ret, cmpf[fam](X, Y)))
                ub = T.FALSE
                if op == "add":
                    exact = T.iadd(X, Y)
                elif op == "sub":
                    exact = T.isub(X, Y)
                elif op == "mul":
                    exact = T.imul(X, Y)
                elif op == "neg":
                    exact = T.ineg(X)
                elif op == "pos":
                    exact = X
                else:
                    zero = T.eq(Y, T.const_int(0))
                    Ys = T.ite(zero, T.const_int(1), Y)
                    q = T.itrunc_div(X, Ys)
                    neg = T.ilt(X, T.const_int(0))      # remainder takes the sign of the dividend; SMT mod is non-negative
                    rem = T.ite(neg, T.ineg(T.imod(T.ineg(X), Ys)), T.imod(X, Ys))
                    exact = q if op == "div" else rem
                    ub = zero
                    if psigned and P == ct:
                        ub = T.or_(zero, T.and_(T.eq(X, T.const_int(plo)), T.eq(Y, T.const_int(-1))))
                # the operator computes in the promoted type P: signed overflow is UB, unsigned wraps
                pw = F.CTYPES[P][1]
                if psigned:
                    ub = T.or_(ub, T.not_(T.in_range(exact, plo, phi)))
                    inP = exact
                else:
                    inP = T.imod(exact, T.const_int(1 << pw))
                # result as returned: ret is P (value operators) or the rep itself (compound assignment / cast: modular)
                rw = F.CTYPES[ret][1]
                if ret == P:
                    expect = inP
                elif F.ct_signed(ret):
                    expect = T.isub(T.imod(T.iadd(inP, T.const_int(1 << (rw - 1))), T.const_int(1 << rw)), T.const_int(1 << (rw - 1)))
                else:
                    expect = T.imod(inP, T.const_int(1 << rw))
                return T.TRUE, T.and_(T.eq(r.ub, ub), T.or_(ub, T.eq(F.ival(ret, r.ret), expect)))
            obs.append(F.Ob("ref_%s:%s" % (fam, rtag(ct)), [(n, F.ct_sort(t)) for t, n in args], fn,
                            routes=F.CMP_ROUTES if fam in cmpf else F.INT_ROUTES, key={"rep": ct, "op": fam}, kernels=[name],
                            note="raw reference kernel == exact integer semantics of the C++ operator (promotion, UB on signed overflow "
                                 "/ division by zero / min/-1, modular conversion back to the rep)"))
        return obs

    def known_predicates(self):
        def d6(ob, vs):
            """inputs where the raw operator's int result is not representable in the sub-int rep (only meaningful once the D6
            kernels compile, e.g. after a static_cast<Rep> repair that keeps Quantity<U,R> as the result type)"""
            if ob.key.get("rep") not in SUBINT or ob.key.get("op") not in ("pos", "neg", "mod") or len(ob.kernels) < 2:
                return None
            ct = ob.key["rep"]
            w = F.CTYPES[ct][1]
            r = self.K[ob.kernels[1]](*vs).ret
            back = T.sext(T.trunc(r, w), 32) if F.ct_signed(ct) else T.zext(T.trunc(r, w), 32)
            return T.ne(back, r)
        return {"D6": d6}


CHECK = C13
