"""C10 - Common point unit keeps every input integral and non-negative (DESIGN.md section 6, C10)."""
import itertools
from fractions import Fraction
from .. import framework as F
from .. import terms as T
from .. import pointmodel as P


def gen_units(rng, n):
    out = []
    for i in range(n):
        a, b = rng.randrange(1, 1000), rng.randrange(1, 1000)
        from math import gcd
        g = gcd(a, b)
        a, b = a // g, b // g
        c = rng.choice([1, 2, 4, 5, 10, 100, 3, 7, 1000])
        d = rng.choice([0, 1, -1, 273, -459, 27315, rng.randrange(-100000, 100000)])
        # the unit the origin is written in: kelvins / c, or an anonymous scaling of a prefixed or derived unit (size != 1 K)
        obase = rng.choice(["kelvins", "kelvins", "milli", "kilo", "centi", "rankines"])
        cn = rng.choice([1, 1, 3, 50]) if obase != "kelvins" else 1
        out.append(P.gen_unit(100 + i, a, b, c, d, obase, cn))
    return out


class C10(F.Check):
    pid = "C10"
    level = "model_checking"
    assumptions = [
        "clang 14 front end and -O1 pipeline, own LLVM-IR->SMT encoder, z3 5.1 / cvc5 1.0.3 are trusted",
        "unit lists (pairs and triples) are enumerated: library temperature units plus VERIF_SEED-random generated units with rational "
        "scale (num, den <= 1000) and rational origin (positive, zero, negative)",
        "m_i, o_i are read off each kernel (values at x = 0 and x = 1) and then (a) proved to describe the kernel for ALL x, (b) checked against the "
        "independent model: positive integer, non-negative integer, one common unit G' = scale_i / m_i for the whole list, G' divides the gcd of the scales and origin differences, "
        "offsets consistent with the exact origins, lowest origin has offset 0. Maximality of the common point unit is not part of the property "
        "(the library's unit can be finer when a zero-valued origin is written in a finer unit) and is not demanded",
        "only UB traps count; the unsigned path legitimately relies on wrap-around (DESIGN.md section 1)",
        "type identity under permutation/repetition is observed as closed booleans (compile-time facts), not solver-decided",
    ]

    def bounds(self):
        return {"stored values": "all 2^64 values (uint64 and int64 kernels)", "lists": len(self.lists), "list sizes": "2..3"}

    def kernels(self):
        nrand = 4 if self.tier == "quick" else 16
        gens = [P.gen_unit(*g) for g in [(1, 3, 2, 1, 50), (2, 7, 5, 10, -1234), (3, 1, 1, 1, 0),
                                        (4, 1, 1, 1, 5463, "milli", 50),      # Celsius-like, origin written as (milli(kelvins) * 50)(5463)
                                        (5, 2, 1, 4, 3, "rankines", 1),       # origin (rankines / 4)(3) = 5/12 K
                                        (6, 2, 1, 1, 300, "kilo", 1)]] \
            + gen_units(self.rng, nrand)
        pool = P.LIB_EXT + gens
        self.prelude = "\n".join(u.decl for u in pool if u.decl)
        lists = []
        pairs = list(itertools.combinations(range(len(pool)), 2))
        triples = list(itertools.combinations(range(len(pool)), 3))
        self.rng.shuffle(pairs)
        self.rng.shuffle(triples)
        np_, nt = (22, 10) if self.tier == "quick" else (len(pairs), 120)
        fixed = [(0, 1), (0, 2), (1, 2), (1, 3), (2, 4)]
        ng0 = len(P.LIB_EXT)
        fixed += [(0, ng0 + 3), (0, ng0 + 4), (0, ng0 + 5), (1, ng0 + 4), (ng0 + 3, ng0 + 5)]     # origins spelled in scaled non-unit bases
        for p in fixed + [p for p in pairs if p not in fixed][:np_]:
            lists.append([pool[i] for i in p])
        # every triple of library point units (incl. prefixed Celsius: same origin, different scale), then seeded random ones
        nlib = len(P.LIB_EXT)
        libtriples = list(itertools.combinations(range(nlib), 3))
        if self.tier == "quick":
            libtriples = [t for j, t in enumerate(libtriples) if j % 2 == 0 or t in ((0, 2, 5), (1, 5, 6), (0, 1, 2))]
        for t in libtriples + [t for t in triples if max(t) >= nlib][:nt]:
            lists.append([pool[i] for i in t])
        # inputs that all share one non-zero origin with non-nested scales (the common unit of the scales is none of them)
        so = P.SAME_ORIGIN
        lists += [[P.KILOC, so[0]], [so[1], so[2]], [so[3], so[4]], [P.KILOC, so[0], so[1]], [P.CELSIUS, so[2], so[0]], [P.FAHRENHEIT, so[4]]]
        self.lists = lists
        ks = []
        self.inst = []
        self.inst2 = []
        self.closed = []
        self.listinfo = []
        # documented exclusion: two distinct units of identical dimension, magnitude and origin in one list
        lists = [us for us in lists if len({(u.scale, u.origin) for u in us}) == len(us)]
        self.lists = lists
        for li, us in enumerate(lists):
            try:
                G, low, res = P.common_point_unit(us)
            except AssertionError:
                continue
            cpu = "CommonPointUnitT<%s>" % ", ".join(u.cxx for u in us)
            for ui, u in enumerate(us):
                m, off = res[ui]
                for r in ("uint64_t", "int64_t"):
                    tag = "%d_%d_%s" % (li, ui, r.replace("_t", ""))
                    key = {"list": [x.name for x in us], "unit": u.name, "rep": r, "m": m, "o": off}
                    k = F.Kernel("c10_tocpu_%s" % tag, r, [(r, "x")],
                                 "return make_quantity_point<%s>(x).coerce_in(QuantityPointMaker<%s>{});" % (u.cxx, cpu),
                                 key=key, family="to_cpu")
                    ks.append(k)
                    self.inst.append((k.name, r, m, off, tag, key))
            # explicit-rep spellings into the common point unit (as<T>, coerce_as<T>, converting constructor): small unsigned / signed
            # source reps widened to a larger destination - "integral and unsigned reps stay exact"
            if li % 3 == 0 or self.tier == "thorough":
                for ui, u in enumerate(us):
                    for r1, r2 in (("uint16_t", "uint32_t"), ("uint32_t", "int64_t"), ("uint32_t", "uint64_t"), ("uint8_t", "int32_t"), ("int16_t", "int64_t")):
                        for form, body in (("coerce_as", "return make_quantity_point<%s>(x).coerce_as<%s>(QuantityPointMaker<%s>{}).in(QuantityPointMaker<%s>{});" % (u.cxx, r2, cpu, cpu)),
                                           ("ctor", "QuantityPoint<%s, %s> p{make_quantity_point<%s>(x)}; return p.in(QuantityPointMaker<%s>{});" % (cpu, r2, u.cxx, cpu))):
                            tag = "%d_%d_%s_%s_%s" % (li, ui, r1.replace("_t", ""), r2.replace("_t", ""), form)
                            k = F.Kernel("c10_tocpu2_%s" % tag, r2, [(r1, "x")], body,
                                         key={"list": [x.name for x in us], "unit": u.name, "rep": r1, "to_rep": r2, "form": form}, family="to_cpu_rep_change_" + form)
                            ks.append(k)
                            self.inst2.append((k.name, "c10_tocpu_%d_%d_uint64" % (li, ui), r1, r2, form, tag, k.key))
            # closed: permutation / repetition invariance, and identity with an input when the model says so
            perms = list(itertools.permutations(us))[1:4]
            for pi, pm in enumerate(perms):
                other = "CommonPointUnitT<%s>" % ", ".join(u.cxx for u in pm)
                k = F.Kernel("c10_perm_%d_%d" % (li, pi), "bool", [], "return std::is_same<%s, %s>::value;" % (cpu, other),
                             key={"list": [x.name for x in us], "perm": [x.name for x in pm]}, family="perm")
                ks.append(k)
                self.closed.append((k.name, True, k.key))
            # value-level spellings: common_point_unit(u...) and make_common_point(point makers...) denote the same type, in any order
            for fi, pm in enumerate([us, us[::-1]] + ([us[1:] + us[:1]] if len(us) > 2 else [])):
                k = F.Kernel("c10_fn_%d_%d" % (li, fi), "bool", [],
                             "return std::is_same<std::remove_cv_t<decltype(common_point_unit(%s))>, %s>::value;" % (", ".join("%s{}" % u.cxx for u in pm), cpu),
                             key={"list": [x.name for x in us], "function_spelling": [x.name for x in pm]}, family="function_spelling")
                ks.append(k)
                self.closed.append((k.name, True, k.key))
            rep = "CommonPointUnitT<%s>" % ", ".join(u.cxx for u in (us + [us[0]]))
            k = F.Kernel("c10_rep_%d" % li, "bool", [], "return std::is_same<%s, %s>::value;" % (cpu, rep),
                         key={"list": [x.name for x in us], "repeat": us[0].name}, family="repeat")
            ks.append(k)
            self.closed.append((k.name, True, k.key))
            entry = {"units": us, "G": G, "tocpu": [], "isinput": []}
            for ui, u in enumerate(us):
                k = F.Kernel("c10_isinput_%d_%d" % (li, ui), "bool", [], "return std::is_same<%s, %s>::value;" % (cpu, u.cxx),
                             key={"list": [x.name for x in us], "unit": u.name}, family="is_input")
                ks.append(k)
                entry["isinput"].append(k.name)
                entry["tocpu"].append("c10_tocpu_%d_%d_uint64" % (li, ui))
            self.listinfo.append(entry)
        return ks

    def derive(self, K, name):
        """(m, o) read off the encoding itself: o = to_cpu(0), m = to_cpu(1) - to_cpu(0) (as signed 64-bit integers)"""
        e0 = K[name](T.const_bv(0, 64))
        e1 = K[name](T.const_bv(1, 64))
        if not (T.is_const(e0.ret) and T.is_const(e1.ret)):
            return None
        o = T._sgn(e0.ret.attr, 64)
        m = T._sgn((e1.ret.attr - e0.ret.attr) & ((1 << 64) - 1), 64)
        return m, o

    def obligations(self, K):
        obs = []
        derived = {}
        for name, r, m_model, off_model, tag, key in self.inst:
            if K[name].kernel.dropped:
                self.notes.append("to_cpu kernel dropped: %s %s" % (key, K[name].kernel.dropped[:120]))
                ob = F.Ob("skip:" + tag, [], None, key=key)
                ob.status = "skipped-domain"
                obs.append(ob)
                continue
            uname = name.replace("_int64", "_uint64")
            if uname not in derived:
                derived[uname] = self.derive(K, uname) if not K[uname].kernel.dropped else None
            if derived[uname] is None:
                continue
            m, off = derived[uname]
            key = dict(key, m=m, o=off, m_model=m_model, o_model=off_model)
            xs = [("x", T.BV(64))]
            if r == "uint64_t":
                def fn(K, x, name=name, m=m, off=off):
                    e = K[name](x)
                    exp = T.bvop("bvadd", T.bvop("bvmul", x, T.const_bv(m, 64)), T.const_bv(off, 64))
                    return T.TRUE, T.and_(T.not_(e.ub), T.eq(e.ret, exp))
                obs.append(F.Ob("mod2_64:" + tag, xs, fn, key=key, kernels=[name], routes=["cvc5-bvint", "z3-bv", "z3-int"],
                                note="unsigned: to_cpu(x) == x*m + o (mod 2^64), no UB, for all x; m, o read off the kernel at x=0,1"))
            else:
                hi = F.ct_range(r)[1]

                def fnE(K, x, name=name, m=m, off=off):
                    e = K[name](x)
                    exp = T.iadd(T.imul(T.sval(x), T.const_int(m)), T.const_int(off))
                    return T.not_(e.ub), T.eq(T.sval(e.ret), exp)
                obs.append(F.Ob("exact:" + tag, xs, fnE, key=key, kernels=[name],
                                note="signed: no UB => to_cpu(x) == x*m + o in Z"))

                def fnR(K, x, name=name, m=m, off=off, hi=hi):
                    e = K[name](x)
                    mag = T.iadd(T.imul(T.iabs(T.sval(x)), T.const_int(abs(m))), T.const_int(abs(off)))
                    return T.ile(mag, T.const_int(hi)), T.not_(e.ub)
                obs.append(F.Ob("reach:" + tag, xs, fnR, key=key, kernels=[name],
                                note="signed: |x|*m + o <= max => no UB"))
        # explicit-rep spellings: for every x of the (narrow) source rep, if x*m + o fits the destination rep the result is exactly that
        for name, uname, r1, r2, form, tag, key in self.inst2:
            if derived.get(uname) is None:
                continue
            m, off = derived[uname]
            if K[name].kernel.dropped:
                # the converting constructor is subject to the implicit-conversion policy; coerce_as is not
                if form == "coerce_as":
                    self.notes.append("explicit-rep to_cpu kernel dropped: %s %s" % (key, K[name].kernel.dropped[:120]))
                self.extra_cov["explicit_rep_forms_refused"] = self.extra_cov.get("explicit_rep_forms_refused", 0) + 1
                continue
            lo2, hi2 = F.ct_range(r2)

            def fn2(K, x, name=name, m=m, off=off, r1=r1, r2=r2, lo2=lo2, hi2=hi2):
                e = K[name](x)
                exp = T.iadd(T.imul(F.ival(r1, x), T.const_int(m)), T.const_int(off))
                inter = T.imul(F.ival(r1, x), T.const_int(m))
                pre = T.and_(T.in_range(exp, lo2, hi2), T.in_range(inter, lo2, hi2))
                if e.ret is None:          # the kernel traps on every path (e.g. the offset alone does not fit the destination rep)
                    return pre, T.FALSE
                return pre, T.and_(T.not_(e.ub), T.eq(F.ival(r2, e.ret), exp))
            obs.append(F.Ob("rep_change:" + tag, [("x", F.ct_sort(r1))], fn2, key=dict(key, m=m, o=off), kernels=[name],
                            note="explicit destination rep: x*m and x*m + o fit the destination => the result is exactly x*m + o, no UB (m, o as read off the same-rep kernel)"))
        # closed consistency facts per list: positive integer multipliers, non-negative offsets, one common unit G' that divides
        # the model's gcd unit, offsets consistent with the origins, and 'is one of the inputs' exactly for m == 1, o == 0
        for li, info in enumerate(self.listinfo):
            us = info["units"]
            mo = [derived.get(n) for n in info["tocpu"]]
            if any(v is None for v in mo):
                continue
            facts = []
            facts.append(("multipliers_positive", all(m >= 1 for m, o in mo)))
            facts.append(("offsets_non_negative", all(o >= 0 for m, o in mo)))
            gs = [u.scale / m for u, (m, o) in zip(us, mo) if m]
            same = all(g == gs[0] for g in gs)
            facts.append(("one_common_unit", same))
            if same and gs:
                # the largest unit that keeps every multiplier and offset integral, whatever unit the origins are written in: the gcd of the
                # scales and the non-zero origin differences. The library's unit must divide it; it may be finer (which of two coinciding
                # lowest origins it starts from, and the unit that origin is written in, is its own business - not part of the property)
                diffs = [abs(a.origin - b.origin) for a in us for b in us if a.origin != b.origin]
                gtrue = P.gcdf(*([u.scale for u in us] + diffs))
                ratio = gtrue / gs[0]
                facts.append(("divides_true_gcd_unit", ratio.denominator == 1 and ratio >= 1))
                facts.append(("offsets_match_origins", all((mo[i][1] - mo[0][1]) * gs[0] == us[i].origin - us[0].origin
                                                           for i in range(len(us)))))
                facts.append(("lowest_origin_has_zero_offset", min(o for m, o in mo) == 0))
            key = {"list": [u.name for u in us], "derived_m_o": mo, "model_gcd_unit": str(info["G"])}
            for fname, val in facts:
                def fn(K, val=val):
                    return T.TRUE, T.const_bool(bool(val))
                obs.append(F.Ob("closed:list%d:%s" % (li, fname), [], fn, kind="closed", key=key, kernels=info["tocpu"]))
            for ui, nm in enumerate(info["isinput"]):
                if K[nm].kernel.dropped:
                    continue
                expected = mo[ui] == (1, 0)

                def fn(K, nm=nm, expected=expected):
                    e = K[nm]()
                    return T.TRUE, T.eq(e.ret, T.const_bool(expected))
                obs.append(F.Ob("closed:list%d:is_input_%d" % (li, ui), [], fn, kind="closed",
                                key=dict(key, unit=us[ui].name, expected=expected), kernels=[nm]))
        for name, expected, key in self.closed:
            if K[name].kernel.dropped:
                self.notes.append("closed kernel dropped: %s %s" % (key, K[name].kernel.dropped[:120]))
                continue

            def fn(K, name=name, expected=expected):
                e = K[name]()
                return T.TRUE, T.and_(T.not_(e.ub), T.eq(e.ret, T.const_bool(expected)))
            obs.append(F.Ob("closed:" + name, [], fn, kind="closed", key=key, kernels=[name]))
        return obs


CHECK = C10
