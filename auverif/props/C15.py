"""C15 - Unit-aware math functions (DESIGN.md section 6, C15; claimed in decidable form).

A. rounding   floor_/ceil_/round_{in,as} (+ <OutputRep> forms)  ==  std::f applied to the converted value y, computed in the type
              std::round works in (double for integral reps); the bracket facts (r integral, r <= y < r+1, r-1 < y <= r,
              |r-y| <= 1/2 ties away from zero) are decided relative to y for every finite y.
B. inverse    inverse_in/inverse_as == trunc(K/x) with the exact K of an independent Fraction model; inv(inv(n)) == n on [1,1000].
C. wrappers   sin cos tan arc* hypot fmod remainder abs copysign min max clamp isnan == the std function (libm: uninterpreted,
              i.e. a congruence claim) on the operands expressed in radians / in the model's common unit.
D. closed     result types and units.
"""
from fractions import Fraction
from math import gcd

from .. import framework as F
from .. import terms as T
from .. import fpeval

# ----------------------------------------------------------------------------------------------------------------------
# independent unit model (SI / NIST definitions, not read from the Au headers)
#   name -> (dimension tag, rational part of the scale w.r.t. the coherent SI unit, exponent of pi, C++ unit type, maker)
UNITS = {
    "meters": ("L", Fraction(1), 0, "Meters", "meters"),
    "kilometers": ("L", Fraction(1000), 0, "Kilo<Meters>", "kilo(meters)"),
    "millimeters": ("L", Fraction(1, 1000), 0, "Milli<Meters>", "milli(meters)"),
    "inches": ("L", Fraction(254, 10000), 0, "Inches", "inches"),            # 25.4 mm exactly (1959)
    "feet": ("L", Fraction(12 * 254, 10000), 0, "Feet", "feet"),             # 12 in
    "yards": ("L", Fraction(36 * 254, 10000), 0, "Yards", "yards"),          # 3 ft
    "miles": ("L", Fraction(5280 * 12 * 254, 10000), 0, "Miles", "miles"),   # 5280 ft
    "radians": ("A", Fraction(1), 0, "Radians", "radians"),
    "degrees": ("A", Fraction(1, 180), 1, "Degrees", "degrees"),             # pi/180 rad
    "revolutions": ("A", Fraction(2), 1, "Revolutions", "revolutions"),      # 2 pi rad
    "milliradians": ("A", Fraction(1, 1000), 0, "Milli<Radians>", "milli(radians)"),
}
PREFIX = {"nano": -9, "micro": -6, "milli": -3, "": 0, "kilo": 3, "mega": 6, "giga": 9}
for _p, _e in PREFIX.items():
    for _base, _dim, _ty in (("seconds", "T", "Seconds"), ("hertz", "1/T", "Hertz")):
        _nm = _p + _base
        UNITS[_nm] = (_dim, Fraction(10) ** _e, 0, ("%s<%s>" % (_p.capitalize(), _ty)) if _p else _ty,
                      ("%s(%s)" % (_p, _base)) if _p else _base)

# 60-digit rational enclosure of pi (Archimedes would approve; used only for the closed 4-ulp bound on constants)
PI_LO = Fraction(314159265358979323846264338327950288419716939937510582097494, 10 ** 59)
PI_HI = PI_LO + Fraction(1, 10 ** 59)


def ratio(src, dst):
    """exact conversion factor src -> dst as (rational, pi exponent)"""
    ds, rs, ps, _, _ = UNITS[src]
    dd, rd, pd, _, _ = UNITS[dst]
    assert ds == dd, (src, dst)
    return rs / rd, ps - pd


def ratio_interval(src, dst):
    r, p = ratio(src, dst)
    if p == 0:
        return r, r
    if p > 0:
        return r * PI_LO ** p, r * PI_HI ** p
    return r / PI_HI ** (-p), r / PI_LO ** (-p)


def common_unit(a, b, *more):
    """largest unit of which every operand is an integer multiple (gcd of the rational scales); rational scales only"""
    names = (a, b) + more
    base = None
    g = None
    for n in names:
        d, r, p, _, _ = UNITS[n]
        assert p == 0
        base = base or d
        assert base == d
        g = r if g is None else Fraction(gcd(g.numerator * r.denominator, r.numerator * g.denominator),
                                          g.denominator * r.denominator)
    return g


def cxx_scaled(dim, scale):
    """C++ unit type with the given rational scale w.r.t. the coherent unit of the dimension"""
    base = {"L": "Meters", "A": "Radians", "T": "Seconds"}[dim]
    s = base + "{}"
    if scale.numerator != 1:
        s += " * mag<%d>()" % scale.numerator
    if scale.denominator != 1:
        s += " / mag<%d>()" % scale.denominator
    return "decltype(%s)" % s


def inverse_K(src, tgt):
    """K with inverse_in(tgt, src(x)) == K / x : 1 = x*src * result*tgt  (time x frequency is dimensionless)"""
    ds, rs, _, _, _ = UNITS[src]
    dt, rt, _, _, _ = UNITS[tgt]
    assert {ds, dt} == {"T", "1/T"}
    return 1 / (rs * rt)


def implicit_ok(rep, n):
    """model of the implicit-conversion policy for an integral rep and an integer factor n >= 1: the value 2147 must survive"""
    if F.ct_is_float(rep) or n == 1:
        return True
    hi = F.ct_range(rep)[1]
    return hi >= 2147 and n <= hi and hi // n >= 2147


def rtag(ct):
    return ct.replace("_t", "").replace(" ", "")


def fsfx(ct):
    return {"float": "f32", "double": "f64", "long double": "f80"}[ct]


def rounding_rep(ct):
    """type std::round/floor/ceil compute in: the floating type itself, double for every integral type"""
    return ct if F.ct_is_float(ct) else "double"


def same(ct, a, b):
    """equality of two results of C type ct: bit-for-bit; for floating results of *arithmetic* two NaNs count as equal (SMT-LIB
    FP has a single NaN, payload and sign of an arithmetic NaN are not modelled; identical terms still fold to true)"""
    if ct is not None and F.ct_is_float(ct):
        fmt = F.FMT_OF[ct]
        return T.or_(T.eq(a, b), T.and_(T.fp_isnan(fmt, a), T.fp_isnan(fmt, b)))
    return T.eq(a, b)


def same_run(ea, eb, ct):
    """two kernels agree: same trap condition and, when not trapping, the same result"""
    return T.and_(T.eq(ea.ub, eb.ub), T.or_(ea.ub, same(ct, ea.ret, eb.ret)))


def fpc(fmt, q):
    return T.const_bv(fpeval.from_fraction(fmt, Fraction(q)), T.fmt_width(fmt))


def ulp_bounds(fmt, lo, hi, ulps=4):
    """bit patterns (lo', hi') of fmt enclosing [lo - ulps*ulp, hi + ulps*ulp] (lo, hi > 0 exact rationals)"""
    p = fmt[1]
    e = 0
    while Fraction(2) ** (e + 1) <= lo:
        e += 1
    while Fraction(2) ** e > lo:
        e -= 1
    u = Fraction(2) ** (e - p + 1)
    return fpeval.from_fraction(fmt, lo - ulps * u), fpeval.from_fraction(fmt, hi + ulps * u)


MODE = {"round": "rna", "floor": "rtn", "ceil": "rtp"}


PARTS = ("integral", "big", "lo", "hi")
PART_NOTE = {
    "rtn": {"lo": "r <= y", "hi": "y < r + 1"},
    "rtp": {"lo": "r - 1 < y", "hi": "y <= r"},
    "rna": {"lo": "r - 1/2 <= y, and y == r - 1/2 only for y > 0 (tie away from zero)",
            "hi": "y <= r + 1/2, and y == r + 1/2 only for y < 0 (tie away from zero)"},
}


def bracket_part(part, mode, fmt, r, y):
    """One conjunct of 'r is the integral value required of floor/ceil/round for the finite value y', as (extra precondition,
    postcondition), stated with exact FP operations only:
      integral  trunc(r) == r
      big       |y| >= 2^(p-1) (every value of the format is an integer there): r == y
      lo, hi    |y| <  2^(p-1): the two bracket inequalities; the neighbours r+-1 and r+-1/2 of an integral |r| <= 2^(p-1) are
                computed without rounding error (r +- 1/2 at |r| = 2^(p-1) rounds toward r, so y <= fl(r+1/2) <= r+1/2 stays sound)."""
    p = fmt[1]
    one, half, zero = fpc(fmt, 1), fpc(fmt, Fraction(1, 2)), fpc(fmt, 0)
    small = T.fp_cmp("olt", fmt, T.fp_abs(fmt, y), fpc(fmt, 2 ** (p - 1)))
    if part == "integral":
        return T.TRUE, T.fp_cmp("oeq", fmt, T.fp_un("rtz", fmt, r), r)
    if part == "big":
        return T.not_(small), T.fp_cmp("oeq", fmt, r, y)
    if mode == "rtn":
        post = T.fp_cmp("ole", fmt, r, y) if part == "lo" else T.fp_cmp("olt", fmt, y, T.fp_bin("add", fmt, r, one))
    elif mode == "rtp":
        post = T.fp_cmp("olt", fmt, T.fp_bin("sub", fmt, r, one), y) if part == "lo" else T.fp_cmp("oge", fmt, r, y)
    elif part == "lo":
        lo = T.fp_bin("sub", fmt, r, half)
        post = T.and_(T.fp_cmp("ole", fmt, lo, y), T.implies(T.fp_cmp("oeq", fmt, y, lo), T.fp_cmp("ogt", fmt, y, zero)))
    else:
        hi = T.fp_bin("add", fmt, r, half)
        post = T.and_(T.fp_cmp("ole", fmt, y, hi), T.implies(T.fp_cmp("oeq", fmt, y, hi), T.fp_cmp("olt", fmt, y, zero)))
    return small, post


def part_note(part, mode):
    if part == "integral":
        return "r is integral (trunc(r) == r)"
    if part == "big":
        return "|y| >= 2^(p-1): r == y"
    return "|y| < 2^(p-1): " + PART_NOTE[mode][part]


# ----------------------------------------------------------------------------------------------------------------------
ROUND_PAIRS_QUICK = [("feet", "inches"), ("inches", "feet"), ("feet", "meters"), ("degrees", "radians"),
                     ("radians", "degrees"), ("meters", "kilometers")]
ROUND_PAIRS_THOROUGH = ROUND_PAIRS_QUICK + [("kilometers", "meters"), ("meters", "feet"), ("miles", "feet"),
                                            ("revolutions", "degrees"), ("inches", "meters"), ("revolutions", "radians"),
                                            ("yards", "miles")]
ROUND_SRC_QUICK = ["int16_t", "int32_t", "int64_t", "float", "double"]
ROUND_SRC_THOROUGH = ROUND_SRC_QUICK + ["uint8_t", "uint32_t", "uint64_t", "long double"]
OUT_QUICK = ["int32_t", "int64_t", "float", "int16_t", "double"]
OUT_THOROUGH = ["int32_t", "int64_t", "float", "int16_t", "double", "uint8_t", "uint32_t", "uint64_t", "int8_t"]

# (source unit, target unit) time <-> frequency
INV_PAIRS_QUICK = [("microseconds", "hertz"), ("nanoseconds", "kilohertz"), ("hertz", "microseconds"),
                   ("kilohertz", "nanoseconds"), ("milliseconds", "millihertz"), ("nanoseconds", "hertz"),
                   ("megahertz", "nanoseconds"), ("nanoseconds", "millihertz"), ("nanoseconds", "nanohertz"),
                   # below the 10^6 threshold: explicit rep / floating only; implicit integral form must be refused
                   ("milliseconds", "hertz"), ("seconds", "hertz"), ("microseconds", "kilohertz"), ("nanoseconds", "megahertz"),
                   ("seconds", "kilohertz")]
INV_PAIRS_THOROUGH = INV_PAIRS_QUICK + [("microseconds", "millihertz"), ("gigahertz", "nanoseconds"), ("seconds", "microhertz"),
                                        ("microhertz", "seconds"), ("microseconds", "microhertz"), ("millihertz", "microseconds"),
                                        ("kiloseconds", "hertz"), ("hertz", "seconds"), ("nanoseconds", "microhertz"),
                                        ("milliseconds", "kilohertz"), ("megaseconds", "nanohertz")]
INV_REPS_QUICK = ["int32_t", "int64_t", "double"]
INV_REPS_THOROUGH = ["int32_t", "int64_t", "double", "uint32_t", "uint64_t", "float"]
INV_EXPLICIT_QUICK = [("int32_t", "int32_t"), ("int64_t", "int32_t"), ("int32_t", "int64_t"), ("double", "int32_t"),
                      ("int64_t", "int64_t")]          # (TargetRep, R)
INV_EXPLICIT_THOROUGH = INV_EXPLICIT_QUICK + [("int32_t", "double"), ("uint32_t", "uint32_t"), ("uint64_t", "int64_t"),
                                              ("float", "int64_t"), ("double", "double"), ("int16_t", "int32_t")]

TRIG_UNITS_QUICK = ["degrees", "radians"]
TRIG_UNITS_THOROUGH = ["degrees", "radians", "revolutions", "milliradians"]
TRIG_REPS_QUICK = ["double", "float", "int32_t"]
TRIG_REPS_THOROUGH = ["double", "float", "int32_t", "int64_t", "int16_t", "uint8_t", "long double"]

MIX_PAIRS_QUICK = [("feet", "inches"), ("inches", "feet"), ("meters", "feet"), ("feet", "feet")]
MIX_PAIRS_THOROUGH = MIX_PAIRS_QUICK + [("kilometers", "meters"), ("yards", "feet"), ("miles", "meters"), ("millimeters", "inches")]
MIX_REPS_QUICK = ["double", "float", "int32_t"]
MIX_REPS_THOROUGH = ["double", "float", "int32_t", "int64_t", "int16_t", "long double"]

LIBM1 = {"sin": "sin", "cos": "cos", "tan": "tan", "arcsin": "asin", "arccos": "acos", "arctan": "atan"}


def c_common_type(a, b):
    """std::common_type of two of the arithmetic types used here (same signedness or one floating)"""
    if a == b:
        return a
    fa, fb = F.ct_is_float(a), F.ct_is_float(b)
    rank = {"float": 1, "double": 2, "long double": 3}
    if fa and fb:
        return a if rank[a] >= rank[b] else b
    if fa or fb:
        return a if fa else b
    a, b = F.promoted(a), F.promoted(b)
    if a == b:
        return a
    wa, wb = F.CTYPES[a][1], F.CTYPES[b][1]
    sa, sb = F.ct_signed(a), F.ct_signed(b)
    if sa == sb:
        return a if wa >= wb else b
    u, s = (a, b) if not sa else (b, a)
    return u if F.CTYPES[u][1] >= F.CTYPES[s][1] else s


class C15(F.Check):
    pid = "C15"
    level = "model_checking"
    chunk_size = 90
    validate_inputs = 10
    assumptions = [
        "clang 14 front end and -O1 pipeline, own LLVM-IR->SMT encoder, z3 5.1 / cvc5 1.0.3 are trusted; reference kernels "
        "(std::round/floor/ceil, static_cast, std::min/max, raw clamp expression, std::abs/copysign/isnan, libm calls) are lowered "
        "by the same compiler in the same TU and are themselves checked against SMT-level statements where one exists",
        "quantifier over stored values is solver-decided (all values / bit patterns of the rep); quantifiers over reps and unit "
        "pairs are enumerated grids (integer, reciprocal, rational and pi-bearing ratios; time/frequency prefix pairs)",
        "rounding: 'exact' is read as y := the converted-but-unrounded value the library itself computes in the type std::round "
        "works in (RoundingRep: the floating rep itself, double for integral reps), obtained from the Au conversion kernel "
        "q.in<RoundingRep>(unit); the bracket facts are proved relative to y for every finite y with exact FP operations; "
        "'y is within rounding error of the true value' is carried by a closed 4-ulp bound on the conversion constant "
        "K = conv(1) against the exact model (rational, or a 60-digit enclosure of pi), not by the solver: the ulp error of "
        "x (*) K for symbolic x is outside (DESIGN.md 3.3)",
        "explicit <OutputRep> forms: claimed as 'no float-cast trap => the cast is value preserving' and 'result == "
        "static_cast<OutputRep>(implicit-rep result), same trap condition'; inputs on which the float->integer cast is out of "
        "range are UB in C++ and outside",
        "inverse: x == 0 is raw integer division by zero (UB) and is assumed away (precondition x != 0); K is the model's exact "
        "10^k; trunc(K/x) is stated twice, as the defining remainder property 0 <= K - q*x < |x| (decided by cvc5) and as "
        "sign * (K div |x|) (decided by z3): nonlinear integer arithmetic, one route each (single_route); explicit-rep instances "
        "are generated only where K <= max(TargetRep) and K is representable in the common type; with mixed signedness the claim "
        "is restricted to x > 0 (otherwise the usual arithmetic conversions wrap: outside); floating common type with an integral "
        "target rep is not generated (float-cast UB for small x); "
        "floating reps: result == K_fp (/) x in IEEE arithmetic with K_fp := the kernel's own constant (closed 4-ulp bound vs K)",
        "compile-time refusal of implicit-rep integral inversions with K < 10^6 is a well-formedness fact outside the solver-"
        "decided claim; it is only *observed* for the enumerated probes as 'the kernel is rejected with the library's "
        "\"Dangerous inversion\" static_assert' (closed obligations refuse:*), and K >= 10^6 representable in the rep must compile",
        "libm functions are uninterpreted functions over bit patterns: the claim is the congruence 'au::f(q) == std::f(q expressed "
        "in radians / in the common unit)'; the accuracy of libm itself is outside; the correctness of the conversion to radians "
        "/ to the common unit as a conversion is C02/C04's business (here: closed 4-ulp / exact-factor check of conv(1))",
        "common units come from an independent Fraction model (gcd of rational scales); only pairs with rational ratios are used "
        "for the mixed-unit functions; clamp is claimed for operand triples whose pairwise common units coincide with the "
        "three-way common unit (the library compares v<lo and hi<v in the *pairwise* common unit)",
        "min/max/clamp on floating reps: 'equals the std function' is read on values for non-NaN operands (result bits equal, or "
        "numerically equal: which of -0.0/+0.0 is returned is not claimed; same-unit calls use Quantity's hidden friends, which "
        "prefer the other operand than std::max on ties); NaN operands are outside (std::min/max require a strict weak order)",
        "integral reps of mixed-unit functions: 'the reference on commonly scaled operands does not trap => au does not trap and "
        "returns the same value' (au may evaluate fewer conversions than the reference)",
        "SMT-LIB FP has one NaN: floating results that went through arithmetic (conversion, rounding, libm) are compared "
        "structurally (identical terms fold to true) or, failing that, up to 'both NaN'; isnan/abs/copysign on the stored value "
        "are bit-exact moves and compared bit-for-bit",
        "the bracket facts are split into four conjuncts (integral / |y| >= 2^(p-1): r == y / lower / upper with ties away from zero); "
        "they are decided for every finite y on the std::round/floor/ceil reference (per format) and, together with 'au kernel == "
        "reference(y)', cover every instance; on the au kernels themselves they are additionally decided for a subset of instances "
        "(all float sources, all feet->inches, int32 inches->feet, double feet->meters; thorough: int32/double x all quick pairs)",
        "std::abs(minimum of the promoted type) is UB (llvm.abs poison); clang 14's sanitizer does not instrument it, so translator "
        "validation at that single input is recorded, not compared",
        "x87 long double as (_ FloatingPoint 15 64), thorough tier only; its non-structural obligations are stretch",
        "QuantityPoint overloads: isnan; round/floor/ceil on same-origin point units only (thorough tier); a value read back "
        "through QuantityPoint::in (which adds the zero origin displacement, so -0.0 reads as +0.0) is compared numerically",
    ]

    def bounds(self):
        return {"stored values": "all values / bit patterns of every operand; n in [1,1000] for the inverse round trip",
                "rounding sources": self.g_round_src, "rounding unit pairs": ["%s->%s" % p for p in self.g_round_pairs],
                "inverse reps": self.g_inv_reps, "inverse pairs": ["%s->%s" % p for p in self.g_inv_pairs],
                "trig reps": self.g_trig_reps, "trig units": self.g_trig_units,
                "mixed-unit pairs": ["%s,%s" % p for p in self.g_mix_pairs], "mixed-unit reps": self.g_mix_reps,
                "unwind": 0, "inline_depth": 0}

    # ------------------------------------------------------------------------------------------------------------------
    def __init__(self, tier, seed):
        super().__init__(tier, seed)
        th = tier == "thorough"
        self.g_round_pairs = ROUND_PAIRS_THOROUGH if th else ROUND_PAIRS_QUICK
        self.g_round_src = ROUND_SRC_THOROUGH if th else ROUND_SRC_QUICK
        self.g_out = OUT_THOROUGH if th else OUT_QUICK
        self.g_inv_pairs = INV_PAIRS_THOROUGH if th else INV_PAIRS_QUICK
        self.g_inv_reps = INV_REPS_THOROUGH if th else INV_REPS_QUICK
        self.g_inv_explicit = INV_EXPLICIT_THOROUGH if th else INV_EXPLICIT_QUICK
        self.g_trig_units = TRIG_UNITS_THOROUGH if th else TRIG_UNITS_QUICK
        self.g_trig_reps = TRIG_REPS_THOROUGH if th else TRIG_REPS_QUICK
        self.g_mix_pairs = MIX_PAIRS_THOROUGH if th else MIX_PAIRS_QUICK
        self.g_mix_reps = MIX_REPS_THOROUGH if th else MIX_REPS_QUICK

    # ------------------------------------------------------------------------------------------------------------------
    def kernels(self):
        self.ks = []
        self.refs = {}          # reference kernel name -> Kernel
        self.must_compile = []  # au kernels the model calls in-domain
        self.prelude_lines = []
        self.cu_alias = {}
        self.k_round()
        self.k_inverse()
        self.k_trig()
        self.k_mixed()
        self.k_unary()
        self.k_closed()
        self.prelude = "\n".join(self.prelude_lines) + "\n"
        return self.ks

    def add(self, name, ret, args, body, key, family, au=True):
        k = F.Kernel(name, ret, args, body, key=key, family=family)
        if family == "closed_type" and hasattr(k, "native"):
            k.native = False        # compile-time facts: no native build / translator validation needed (built lazily on replay)
        self.ks.append(k)
        if au:
            self.must_compile.append(name)
        return name

    def ref(self, name, ret, args, body, family="ref"):
        """reference kernel (no Au), shared"""
        if name not in self.refs:
            k = F.Kernel(name, ret, args, body, key={"reference": name}, family=family)
            self.refs[name] = k
            self.ks.append(k)
        return name

    def cu(self, dim, scale):
        """C++ alias for the model's common unit"""
        key = (dim, scale)
        if key not in self.cu_alias:
            nm = "C15_CU%d" % len(self.cu_alias)
            self.cu_alias[key] = nm
            self.prelude_lines.append("using %s = %s;" % (nm, cxx_scaled(dim, scale)))
        return self.cu_alias[key]

    # ---- A. rounding
    def k_round(self):
        self.round_inst = []
        idx = 0
        for src in self.g_round_src:
            rr = rounding_rep(src)
            for (ua, ub) in self.g_round_pairs:
                idx += 1
                mk_a, mk_b = UNITS[ua][4], UNITS[ub][4]
                tag = "%s_%s_%s" % (rtag(src), ua, ub)
                key = {"rep": src, "from": ua, "to": ub, "rounding_rep": rr}
                q = "%s(x)" % mk_a
                xs = [(src, "x")]
                inst = {"src": src, "rr": rr, "ua": ua, "ub": ub, "tag": tag, "key": key, "fn": {}}
                inst["conv"] = self.add("c15_conv_%s" % tag, rr, xs, "return %s.template in<%s>(%s);" % (q, rr, mk_b), key, "round_conv")
                outs = [o for o in self.g_out if o != rr]
                if self.tier == "quick":
                    outs = [outs[0], outs[1 + idx % (len(outs) - 1)]]
                for fn in ("round", "floor", "ceil"):
                    d = {"out": {}}
                    k2 = dict(key, fn=fn)
                    d["in"] = self.add("c15_%s_in_%s" % (fn, tag), rr, xs, "return %s_in(%s, %s);" % (fn, mk_b, q), k2, fn + "_in")
                    d["as"] = self.add("c15_%s_as_%s" % (fn, tag), rr, xs, "return %s_as(%s, %s).in(%s);" % (fn, mk_b, q, mk_b), k2, fn + "_as")
                    d["ref"] = self.ref("c15_ref_%s_%s" % (fn, fsfx(rr)), rr, [(rr, "y")], "return std::%s(y);" % fn, "ref_" + fn)
                    for oi, o in enumerate(outs):
                        k3 = dict(k2, out=o)
                        e = {}
                        e["in"] = self.add("c15_%s_in_%s_%s" % (fn, rtag(o), tag), o, xs,
                                           "return %s_in<%s>(%s, %s);" % (fn, o, mk_b, q), k3, fn + "_in_explicit")
                        if oi == 0 or self.tier == "thorough":
                            e["as"] = self.add("c15_%s_as_%s_%s" % (fn, rtag(o), tag), o, xs,
                                               "return %s_as<%s>(%s, %s).in(%s);" % (fn, o, mk_b, q, mk_b), k3, fn + "_as_explicit")
                        e["cast"] = self.ref("c15_ref_cast_%s_%s" % (fsfx(rr), rtag(o)), o, [(rr, "r")], "return static_cast<%s>(r);" % o, "ref_cast")
                        d["out"][o] = e
                    inst["fn"][fn] = d
                self.round_inst.append(inst)
        # QuantityPoint overloads (same-origin point units): thorough only
        self.round_pt = []
        if self.tier == "thorough":
            for src in ("int32_t", "double", "float"):
                rr = rounding_rep(src)
                for (pa, pb, lab) in (("meters_pt", "kilo(meters_pt)", "m_km"), ("kilo(meters_pt)", "meters_pt", "km_m"),
                                      ("kelvins_pt", "milli(kelvins_pt)", "K_mK")):
                    tag = "%s_pt_%s" % (rtag(src), lab)
                    key = {"rep": src, "point": lab}
                    xs = [(src, "x")]
                    conv = self.add("c15_conv_%s" % tag, rr, xs, "return %s(x).template in<%s>(%s);" % (pa, rr, pb), key, "round_conv_pt")
                    for fn in ("round", "floor", "ceil"):
                        a = self.add("c15_%s_in_%s" % (fn, tag), rr, xs, "return %s_in(%s, %s(x));" % (fn, pb, pa), dict(key, fn=fn), fn + "_in_pt")
                        b = self.add("c15_%s_as_%s" % (fn, tag), rr, xs, "return %s_as(%s, %s(x)).in(%s);" % (fn, pb, pa, pb), dict(key, fn=fn), fn + "_as_pt")
                        c = self.add("c15_%s_in_i32_%s" % (fn, tag), "int32_t", xs, "return %s_in<int32_t>(%s, %s(x));" % (fn, pb, pa), dict(key, fn=fn, out="int32_t"),
                                     fn + "_in_explicit_pt")
                        r = self.ref("c15_ref_%s_%s" % (fn, fsfx(rr)), rr, [(rr, "y")], "return std::%s(y);" % fn, "ref_" + fn)
                        cast = self.ref("c15_ref_cast_%s_int32" % fsfx(rr), "int32_t", [(rr, "r")], "return static_cast<int32_t>(r);", "ref_cast")
                        self.round_pt.append((tag, dict(key, fn=fn), fn, rr, conv, a, b, c, r, cast))

    # ---- B. inverse
    def k_inverse(self):
        self.inv_inst = []
        self.inv_refuse = []
        self.inv_expl = []
        for rep in self.g_inv_reps:
            isf = F.ct_is_float(rep)
            for (us, ut) in self.g_inv_pairs:
                Kx = inverse_K(us, ut)
                ms, mt = UNITS[us][4], UNITS[ut][4]
                tag = "%s_%s_%s" % (rtag(rep), us, ut)
                key = {"rep": rep, "from": us, "to": ut, "K": str(Kx)}
                xs = [(rep, "x")]
                if not isf:
                    hi = F.ct_range(rep)[1]
                    integer = Kx.denominator == 1
                    if not (integer and Kx <= hi):
                        continue    # K not representable in the rep: ill-formed for another reason (constant not representable)
                    if Kx < 10 ** 6:
                        nm = self.add("c15_inv_refused_%s" % tag, rep, xs, "return inverse_in(%s, %s(x));" % (mt, ms), key, "inverse_refused", au=False)
                        self.inv_refuse.append((tag, key, nm))
                        continue
                inst = {"rep": rep, "us": us, "ut": ut, "K": Kx, "tag": tag, "key": key}
                inst["in"] = self.add("c15_inv_in_%s" % tag, rep, xs, "return inverse_in(%s, %s(x));" % (mt, ms), key, "inverse_in")
                inst["as"] = self.add("c15_inv_as_%s" % tag, rep, xs, "return inverse_as(%s, %s(x)).in(%s);" % (mt, ms, mt), key, "inverse_as")
                if not isf:
                    inst["rt"] = self.add("c15_inv_rt_%s" % tag, rep, [(rep, "n")],
                                          "return inverse_in(%s, inverse_as(%s, %s(n)));" % (ms, mt, ms), key, "inverse_roundtrip")
                self.inv_inst.append(inst)
        for (trep, rep) in self.g_inv_explicit:
            crep = c_common_type(trep, rep)
            for (us, ut) in self.g_inv_pairs:
                Kx = inverse_K(us, ut)
                if not F.ct_is_float(crep):
                    if Kx.denominator != 1 or Kx > F.ct_range(crep)[1] or Kx > F.ct_range(trep)[1]:
                        continue
                elif not F.ct_is_float(trep):
                    continue        # floating quotient cast to an integral target: float-cast UB for small x; not generated
                ms, mt = UNITS[us][4], UNITS[ut][4]
                tag = "%s_from_%s_%s_%s" % (rtag(trep), rtag(rep), us, ut)
                key = {"target_rep": trep, "rep": rep, "common": crep, "from": us, "to": ut, "K": str(Kx)}
                xs = [(rep, "x")]
                a = self.add("c15_invx_in_%s" % tag, trep, xs, "return inverse_in<%s>(%s, %s(x));" % (trep, mt, ms), key, "inverse_in_explicit")
                b = self.add("c15_invx_as_%s" % tag, trep, xs, "return inverse_as<%s>(%s, %s(x)).in(%s);" % (trep, mt, ms, mt), key, "inverse_as_explicit")
                self.inv_expl.append({"trep": trep, "rep": rep, "crep": crep, "K": Kx, "tag": tag, "key": key, "in": a, "as": b})

    # ---- C. trigonometry
    def k_trig(self):
        self.trig_inst = []
        self.arc_inst = []
        for rep in self.g_trig_reps:
            pr = rounding_rep(rep)       # std::sin promotes integral arguments to double
            for u in self.g_trig_units:
                mk = UNITS[u][4]
                tag = "%s_%s" % (rtag(rep), u)
                key = {"rep": rep, "unit": u}
                xs = [(rep, "x")]
                conv = self.add("c15_conv_rad_%s" % tag, pr, xs, "return %s(x).template in<%s>(radians);" % (mk, pr), key, "trig_conv")
                for fn in ("sin", "cos", "tan"):
                    a = self.add("c15_%s_%s" % (fn, tag), pr, xs, "return %s(%s(x));" % (fn, mk), dict(key, fn=fn), fn)
                    r = self.ref("c15_ref_%s_%s" % (fn, fsfx(pr)), pr, [(pr, "r")], "return std::%s(r);" % fn, "ref_libm")
                    self.trig_inst.append((tag, dict(key, fn=fn), fn, rep, pr, u, conv, a, r))
            tag = rtag(rep)
            xs = [(rep, "x")]
            for fn in ("arcsin", "arccos", "arctan"):
                a = self.add("c15_%s_%s" % (fn, tag), pr, xs, "return %s(x).in(radians);" % fn, {"rep": rep, "fn": fn}, fn)
                r = self.ref("c15_ref_%s_%s" % (LIBM1[fn], rtag(rep)), pr, xs, "return std::%s(x);" % LIBM1[fn], "ref_libm")
                self.arc_inst.append((fn + ":" + tag, {"rep": rep, "fn": fn}, fn, rep, pr, a, r))
            xy = [(rep, "y"), (rep, "x")]
            a = self.add("c15_arctan2_%s" % tag, pr, xy, "return arctan2(y, x).in(radians);", {"rep": rep, "fn": "arctan2"}, "arctan2")
            r = self.ref("c15_ref_atan2_%s" % rtag(rep), pr, xy, "return std::atan2(y, x);", "ref_libm")
            self.arc_inst.append(("arctan2:" + tag, {"rep": rep, "fn": "arctan2"}, "arctan2", rep, pr, a, r))

    # ---- C. functions of two (three) same-dimension quantities in mixed units
    def k_mixed(self):
        self.mix_inst = []
        for rep in self.g_mix_reps:
            isf = F.ct_is_float(rep)
            pr = rounding_rep(rep)      # decltype(std::fmod(R{}, R{})), decltype(std::hypot(R{}, R{})), ...
            for (u1, u2) in self.g_mix_pairs:
                dim = UNITS[u1][0]
                cs = common_unit(u1, u2)
                if not (implicit_ok(rep, int(UNITS[u1][1] / cs)) and implicit_ok(rep, int(UNITS[u2][1] / cs))):
                    self.extra_cov["mixed_instances_outside_implicit_conversion_policy_by_model"] = \
                        self.extra_cov.get("mixed_instances_outside_implicit_conversion_policy_by_model", 0) + 1
                    continue
                CU = self.cu(dim, cs)
                m1, m2 = UNITS[u1][4], UNITS[u2][4]
                tag = "%s_%s_%s" % (rtag(rep), u1, u2)
                key = {"rep": rep, "unit1": u1, "unit2": u2, "common_scale": str(cs)}
                a1, a2 = [(rep, "a")], [(rep, "b")]
                ab = [(rep, "a"), (rep, "b")]
                # conversions to the model's common unit, in the operand rep and in the promoted (libm) rep
                c1 = self.add("c15_cv1_%s" % tag, rep, a1, "return %s(a).in(%s{});" % (m1, CU), key, "mixed_conv")
                c2 = self.add("c15_cv2_%s" % tag, rep, a2, "return %s(b).in(%s{});" % (m2, CU), key, "mixed_conv")
                p1 = self.add("c15_pv1_%s" % tag, pr, a1, "return %s(a).template in<%s>(%s{});" % (m1, pr, CU), key, "mixed_conv")
                p2 = self.add("c15_pv2_%s" % tag, pr, a2, "return %s(b).template in<%s>(%s{});" % (m2, pr, CU), key, "mixed_conv")
                inst = {"rep": rep, "pr": pr, "tag": tag, "key": key, "u1": u1, "u2": u2, "cs": cs, "CU": CU,
                        "c": (c1, c2), "p": (p1, p2), "f": {}}
                ab_r, ab_p = [(rep, "a"), (rep, "b")], [(pr, "a"), (pr, "b")]
                # conversion in the operand rep, then the std function (promoting integral arguments itself)
                for fn, std in (("hypot", "hypot"), ("arctan2", "atan2")):
                    rd = ".in(%s{})" % CU if fn == "hypot" else ".in(radians)"
                    a = self.add("c15_%s_%s" % (fn, tag), pr, ab, "return %s(%s(a), %s(b))%s;" % (fn, m1, m2, rd), dict(key, fn=fn), fn + "_mixed")
                    r = self.ref("c15_ref_%s_%s" % (std, rtag(rep)), pr, ab_r, "return std::%s(a, b);" % std, "ref_libm")
                    inst["f"][fn] = (a, r, "c", pr)
                # conversion in the promoted rep R = decltype(std::fmod(R1{}, R2{})), then the std function
                for fn in ("fmod", "remainder"):
                    a = self.add("c15_%s_%s" % (fn, tag), pr, ab, "return %s(%s(a), %s(b)).in(%s{});" % (fn, m1, m2, CU), dict(key, fn=fn), fn + "_mixed")
                    r = self.ref("c15_ref_%s_%s" % (fn, fsfx(pr)), pr, ab_p, "return std::%s(a, b);" % fn, "ref_libm")
                    inst["f"][fn] = (a, r, "p", pr)
                for fn in ("min", "max"):
                    a = self.add("c15_%s_%s" % (fn, tag), rep, ab, "return %s(%s(a), %s(b)).in(%s{});" % (fn, m1, m2, CU), dict(key, fn=fn), fn + "_mixed")
                    r = self.ref("c15_ref_%s_%s" % (fn, rtag(rep)), rep, ab_r, "return std::%s(a, b);" % fn, "ref_" + fn)
                    inst["f"][fn] = (a, r, "c", rep)
                # clamp(v in u1, lo in u2, hi in u2): pairwise common units == three-way common unit
                a = self.add("c15_clamp_%s" % tag, rep, [(rep, "a"), (rep, "b"), (rep, "c")],
                             "return clamp(%s(a), %s(b), %s(c)).in(%s{});" % (m1, m2, m2, CU), dict(key, fn="clamp"), "clamp_mixed")
                r = self.ref("c15_ref_clamp_%s" % rtag(rep), rep, [(rep, "v"), (rep, "lo"), (rep, "hi")],
                             "return (v < lo) ? lo : (hi < v) ? hi : v;", "ref_clamp")
                inst["f"]["clamp"] = (a, r, "c", rep)
                # copysign(q1, q2): magnitude in its own unit, sign from the stored value of the second
                if isf:
                    a = self.add("c15_copysign_qq_%s" % tag, rep, ab, "return copysign(%s(a), %s(b)).in(%s);" % (m1, m2, m1), dict(key, fn="copysign"), "copysign_qq")
                    inst["copysign_qq"] = a
                self.mix_inst.append(inst)

    # ---- C. abs, copysign, isnan on the stored value
    def k_unary(self):
        self.un_inst = []
        reps = ["double", "float", "int32_t", "int64_t"] + (["int16_t", "long double", "int8_t", "uint32_t"] if self.tier == "thorough" else [])
        units = ["feet", "degrees"] + (["kilometers", "nanoseconds"] if self.tier == "thorough" else [])
        for rep in reps:
            isf = F.ct_is_float(rep)
            for u in units:
                mk = UNITS[u][4]
                tag = "%s_%s" % (rtag(rep), u)
                key = {"rep": rep, "unit": u}
                xs = [(rep, "x")]
                d = {"rep": rep, "tag": tag, "key": key}
                absrep = F.promoted(rep) if not isf else rep
                if rep != "uint32_t":
                    d["abs"] = self.add("c15_abs_%s" % tag, absrep, xs, "return abs(%s(x)).in(%s);" % (mk, mk), dict(key, fn="abs"), "abs")
                    d["abs_ref"] = self.ref("c15_ref_abs_%s" % rtag(rep), absrep, xs, "return std::abs(x);", "ref_abs")
                    d["absrep"] = absrep
                if isf:
                    xy = [(rep, "x"), (rep, "s")]
                    d["cs_q_s"] = self.add("c15_copysign_qs_%s" % tag, rep, xy, "return copysign(%s(x), s).in(%s);" % (mk, mk), dict(key, fn="copysign(q,s)"), "copysign_qs")
                    d["cs_s_q"] = self.add("c15_copysign_sq_%s" % tag, rep, xy, "return copysign(x, %s(s));" % mk, dict(key, fn="copysign(s,q)"), "copysign_sq")
                    d["cs_ref"] = self.ref("c15_ref_copysign_%s" % rtag(rep), rep, xy, "return std::copysign(x, s);", "ref_copysign")
                    d["isnan"] = self.add("c15_isnan_%s" % tag, "bool", xs, "return isnan(%s(x));" % mk, dict(key, fn="isnan"), "isnan")
                    d["isnan_ref"] = self.ref("c15_ref_isnan_%s" % rtag(rep), "bool", xs, "return std::isnan(x);", "ref_isnan")
                    if u == "feet":
                        d["isnan_pt"] = self.add("c15_isnan_pt_%s" % tag, "bool", xs, "return isnan(meters_pt(x));", dict(key, fn="isnan(point)", unit="meters_pt"), "isnan_pt")
                self.un_inst.append(d)

    # ---- D. closed facts: result types and units
    def k_closed(self):
        self.closed = []

        def fact(name, expr, what):
            nm = self.add("c15_fact_%s" % name, "bool", [], "return %s;" % expr, {"fact": what}, "closed_type")
            self.closed.append((name, nm, what))

        def same(a, b):
            return "std::is_same<%s, %s>::value" % (a, b)
        dd = "std::declval<%s>()"
        for rep in ["double", "float", "int32_t"] + (["int64_t", "int16_t", "long double"] if self.tier == "thorough" else []):
            pr = rounding_rep(rep)
            t = rtag(rep)
            v = dd % rep
            qd = "degrees(%s)" % v
            for fn in ("sin", "cos", "tan"):
                fact("%s_%s" % (fn, t), same("decltype(%s(%s))" % (fn, qd), pr), "%s(Quantity<Degrees,%s>) is the raw number type %s" % (fn, rep, pr))
            for fn in ("arcsin", "arccos", "arctan"):
                fact("%s_%s" % (fn, t), same("decltype(%s(%s))" % (fn, v), "Quantity<Radians, %s>" % pr), "%s(%s) is Quantity<Radians,%s>" % (fn, rep, pr))
            fact("arctan2_%s" % t, same("decltype(arctan2(%s, %s))" % (v, v), "Quantity<Radians, %s>" % pr), "arctan2(%s,%s) is Quantity<Radians,%s>" % (rep, rep, pr))
            fact("arctan2_q_%s" % t, same("decltype(arctan2(feet(%s), inches(%s)))" % (v, v), "Quantity<Radians, %s>" % pr),
                 "arctan2(Quantity,Quantity) is Quantity<Radians,%s>" % pr)
            # mixed units: unit of the result is the model's common unit, rep as the std function's
            for (u1, u2) in self.g_mix_pairs[:3]:
                cs = common_unit(u1, u2)
                if not (implicit_ok(rep, int(UNITS[u1][1] / cs)) and implicit_ok(rep, int(UNITS[u2][1] / cs))):
                    continue
                CU = self.cu(UNITS[u1][0], cs)
                m1, m2 = UNITS[u1][4], UNITS[u2][4]
                q1, q2 = "%s(%s)" % (m1, v), "%s(%s)" % (m2, v)
                for fn, rr in (("hypot", pr), ("fmod", pr), ("remainder", pr), ("min", rep), ("max", rep)):
                    e = "decltype(%s(%s, %s))" % (fn, q1, q2)
                    fact("%s_%s_%s_%s" % (fn, t, u1, u2),
                         "AreUnitsQuantityEquivalent<typename %s::Unit, %s>::value && %s" % (e, CU, same("typename %s::Rep" % e, rr)),
                         "%s(%s,%s) has the model's common unit (scale %s) and rep %s" % (fn, u1, u2, cs, rr))
                e = "decltype(clamp(%s, %s, %s))" % (q1, q2, q2)
                fact("clamp_%s_%s_%s" % (t, u1, u2),
                     "AreUnitsQuantityEquivalent<typename %s::Unit, %s>::value && %s" % (e, CU, same("typename %s::Rep" % e, rep)),
                     "clamp(%s,%s,%s) has the model's common unit and rep %s" % (u1, u2, u2, rep))
            qf = "feet(%s)" % v
            if rep not in ("int16_t",):
                fact("abs_%s" % t, same("decltype(abs(%s))" % qf, "Quantity<Feet, %s>" % rep), "abs keeps unit and rep")
            if F.ct_is_float(rep):
                fact("copysign_qs_%s" % t, same("decltype(copysign(%s, %s))" % (qf, v), "Quantity<Feet, %s>" % rep), "copysign(q, s) keeps q's unit")
                fact("copysign_sq_%s" % t, same("decltype(copysign(%s, %s))" % (v, qf), rep), "copysign(s, q) is a raw number")
                fact("copysign_qq_%s" % t, same("decltype(copysign(%s, inches(%s)))" % (qf, v), "Quantity<Feet, %s>" % rep), "copysign(q1, q2) keeps q1's unit")
                fact("isnan_%s" % t, same("decltype(isnan(%s))" % qf, "bool"), "isnan is bool")
            # rounding: implicit forms return the rounding rep, explicit forms the requested rep; *_as carry the target unit
            for fn in ("round", "floor", "ceil"):
                fact("%s_in_%s" % (fn, t), same("decltype(%s_in(inches, %s))" % (fn, qf), pr), "%s_in returns %s" % (fn, pr))
                fact("%s_as_%s" % (fn, t), same("decltype(%s_as(inches, %s))" % (fn, qf), "Quantity<Inches, %s>" % pr), "%s_as is Quantity<Inches,%s>" % (fn, pr))
                fact("%s_in_int_%s" % (fn, t), same("decltype(%s_in<int>(inches, %s))" % (fn, qf), "int"), "%s_in<int> returns int" % fn)
                fact("%s_as_int_%s" % (fn, t), same("decltype(%s_as<int>(inches, %s))" % (fn, qf), "Quantity<Inches, int>"), "%s_as<int> is Quantity<Inches,int>" % fn)
                fact("%s_as_kilo_%s" % (fn, t), same("decltype(%s_as(kilo(meters), %s))" % (fn, qf), "Quantity<Kilo<Meters>, %s>" % pr),
                     "%s_as(kilo(meters), q) is Quantity<Kilo<Meters>,%s>" % (fn, pr))
        for rep in ("int32_t", "int64_t", "double"):
            t = rtag(rep)
            q = "nano(seconds)(%s)" % (dd % rep)
            fact("inverse_in_%s" % t, same("decltype(inverse_in(kilo(hertz), %s))" % q, rep), "inverse_in returns the rep")
            fact("inverse_as_%s" % t, same("decltype(inverse_as(kilo(hertz), %s))" % q, "Quantity<Kilo<Hertz>, %s>" % rep), "inverse_as is Quantity<Kilo<Hertz>,R>")
            fact("inverse_in_x_%s" % t, same("decltype(inverse_in<float>(hertz, %s))" % q, "float"), "inverse_in<T> returns T")
            fact("inverse_as_x_%s" % t, same("decltype(inverse_as<float>(hertz, %s))" % q, "Quantity<Hertz, float>"), "inverse_as<T> is Quantity<Hertz,T>")

    # ------------------------------------------------------------------------------------------------------------------
    def obligations(self, K):
        self.obs = []
        bad_refs = [n for n in self.refs if K[n].kernel.dropped]
        for n in bad_refs:
            self.inconclusive.append("reference kernel %s does not compile: %s" % (n, K[n].kernel.dropped[:200]))
        self.failed = set()
        for n in self.must_compile:
            if K[n].kernel.dropped:
                self.failed.add(n)
                ob = F.Ob("compiles:" + n, [], None, kind="closed", key=dict(K[n].kernel.key, compile_error=K[n].kernel.dropped[:200]),
                          kernels=[n], note="an API call inside the property's domain (per the model) must compile")
                ob.status = "lowering-failed"
                self.obs.append(ob)
        self.o_round(K)
        self.o_inverse(K)
        self.o_trig(K)
        self.o_mixed(K)
        self.o_unary(K)
        self.o_closed(K)
        if getattr(self, "tie_observed", 0):
            self.notes.append("observation: for identical Quantity types min/max resolve to Quantity's hidden friends (min: b < a ? b : a, "
                              "max: b < a ? a : b), so max(feet(-0.0), feet(+0.0)) is +0.0 where std::max(-0.0, +0.0) is -0.0, and with a NaN "
                              "second operand max returns the NaN where std::max returns the first operand; mixed-unit calls go through "
                              "std::max on the common type and behave like std::max.  Values are equal; NaN operands are outside "
                              "(%d stretch witnesses observe_tie_choice:*)" % self.tie_observed)
        self.extra_cov["obligation_families"] = self.family_counts()
        return self.obs

    def family_counts(self):
        out = {}
        for ob in self.obs:
            fam = ob.name.split(":")[0]
            out[fam] = out.get(fam, 0) + 1
        return out

    def kernel_level_brackets(self, inst):
        """which rounding instances get the bracket conjuncts stated on the au kernel itself (in addition to
        'kernel == std::f(y)' + 'std::f brackets every finite y', which together already cover every instance)"""
        src, pair = inst["src"], (inst["ua"], inst["ub"])
        if inst["rr"] == "long double":
            return False
        if src == "float" or pair == ("feet", "inches"):
            return True
        if (src, pair) in (("int32_t", ("inches", "feet")), ("double", ("feet", "meters"))):
            return True
        if self.tier == "thorough":
            return src in ("int32_t", "double") and pair in ROUND_PAIRS_QUICK
        return False

    def validate_translator(self):
        bad = super().validate_translator()
        keep = []
        for name, p, msg in bad:
            k = self.K[name].kernel
            # std::abs(minimum) is UB in C++ and poison in the IR (llvm.abs(x, true)); clang 14's sanitizer does not instrument
            # the builtin, so the native run returns the wrapped value instead of trapping: not an encoder disagreement
            if k.family in ("abs", "ref_abs") and msg.startswith("encoding says UB") and len(p) == 1 and \
                    p[0] == 1 << (F.CTYPES[k.args[0][0]][1] - 1):
                self.extra_cov["abs_min_is_ub_not_trapped_by_sanitizer"] = self.extra_cov.get("abs_min_is_ub_not_trapped_by_sanitizer", 0) + 1
                continue
            keep.append((name, p, msg))
        return keep

    def ok(self, K, *names):
        return all(n in K and not K[n].kernel.dropped for n in names)

    def ob(self, name, vars_, fn, kernels, key, note, routes=None, kind="claimed", timeout=None, expect="unsat"):
        o = F.Ob(name, vars_, fn, kind=kind, expect=expect, routes=routes, key=key, kernels=kernels, timeout=timeout, note=note)
        self.obs.append(o)
        return o

    def const_check(self, name, K, conv, ct_in, rr, lo, hi, key, note, exact=None):
        """closed: the constant the conversion kernel applies (its value at x = 1) is within 4 ulp of the model's exact factor"""
        fmt = F.FMT_OF[rr]
        wd = T.fmt_width(fmt)
        if F.ct_is_float(ct_in):
            one = fpc(F.FMT_OF[ct_in], 1)
        else:
            one = T.const_bv(1, F.CTYPES[ct_in][1])
        lo_b, hi_b = ulp_bounds(fmt, lo, hi)

        def fn(K, conv=conv, one=one, fmt=fmt, wd=wd, lo_b=lo_b, hi_b=hi_b):
            e = K[conv](one)
            return T.TRUE, T.and_(T.not_(e.ub), T.fp_cmp("oge", fmt, e.ret, T.const_bv(lo_b, wd)),
                                  T.fp_cmp("ole", fmt, e.ret, T.const_bv(hi_b, wd)))
        self.ob(name, [], fn, [conv], key, note, kind="closed")

    # ---- A
    def o_round(self, K):
        lemma_done = set()
        for inst in self.round_inst:
            src, rr, tag, key = inst["src"], inst["rr"], inst["tag"], inst["key"]
            fmt = F.FMT_OF[rr]
            xs = [("x", F.ct_sort(src))]
            conv = inst["conv"]
            if not self.ok(K, conv):
                continue
            f80 = rr == "long double"
            lo, hi = ratio_interval(inst["ua"], inst["ub"])
            self.const_check("round_const:" + tag, K, conv, src, rr, lo, hi, key,
                             "conv(1) (the constant applied before rounding) is within 4 ulp of the model's exact ratio")
            for fn_name, d in inst["fn"].items():
                mode = MODE[fn_name]
                k2 = dict(key, fn=fn_name)
                if not self.ok(K, d["in"], d["ref"]):
                    continue

                def f_eq(K, x, a=d["in"], r=d["ref"], conv=conv, mode=mode, fmt=fmt, rr=rr):
                    y = K[conv](x)
                    e = K[a](x)
                    s = K[r](y.ret)
                    return T.TRUE, T.and_(same(rr, e.ret, s.ret), same(rr, e.ret, T.fp_un(mode, fmt, y.ret)), T.eq(e.ub, T.or_(y.ub, s.ub)))
                self.ob("round_eq_std:%s_%s" % (fn_name, tag), xs, f_eq, [d["in"], d["ref"], conv], k2,
                        "%s_in(u, q) == std::%s(q.in<RoundingRep>(u)) == roundToIntegral(%s, y): same bits, same trap condition" % (fn_name, fn_name, mode),
                        routes=F.FP_ROUTES)
                if self.ok(K, d["as"]):
                    def f_as(K, x, a=d["in"], b=d["as"], rr=rr):
                        return T.TRUE, same_run(K[a](x), K[b](x), rr)
                    self.ob("round_as_eq_in:%s_%s" % (fn_name, tag), xs, f_as, [d["in"], d["as"]], k2,
                            "%s_as(u, q).in(u) == %s_in(u, q)" % (fn_name, fn_name), routes=F.FP_ROUTES)
                # bracket facts relative to y, on the au kernel itself (one small QF_FP query per conjunct)
                if self.kernel_level_brackets(inst):
                    division = lo == hi and lo.numerator == 1 and lo.denominator != 1     # Au applies 1/N to floats as a division
                    routes = ["cvc5-bv", "z3-bv"] if division else F.FP_ROUTES
                    for part in PARTS:
                        if part == "big" and not F.ct_is_float(src) and (1 << (F.CTYPES[src][1] - (1 if F.ct_signed(src) else 0))) * hi < 2 ** (fmt[1] - 1):
                            # |y| >= 2^(p-1) is unreachable from this integral rep (model: max|x| * ratio < 2^(p-1)): the conjunct would be vacuous
                            self.extra_cov["round_big_conjuncts_not_emitted_unreachable_by_model"] = \
                                self.extra_cov.get("round_big_conjuncts_not_emitted_unreachable_by_model", 0) + 1
                            continue

                        def f_br(K, x, a=d["in"], conv=conv, mode=mode, fmt=fmt, part=part):
                            y = K[conv](x)
                            e = K[a](x)
                            pre, post = bracket_part(part, mode, fmt, e.ret, y.ret)
                            return T.and_(T.fp_isfinite(fmt, y.ret), T.not_(y.ub), pre), T.and_(T.not_(e.ub), post)
                        self.ob("round_bracket_%s:%s_%s" % (part, fn_name, tag), xs, f_br, [d["in"], conv], dict(k2, part=part),
                                "y := q.in<RoundingRep>(u) finite, r := %s_in(u, q): %s" % (fn_name, part_note(part, mode)),
                                routes=routes, kind="stretch" if f80 else "claimed", timeout=60)
                # the reference itself: for all finite y (one lemma per format, mode and conjunct)
                if (d["ref"],) not in lemma_done:
                    lemma_done.add((d["ref"],))
                    for part in PARTS:
                        def f_lem(K, y, r=d["ref"], mode=mode, fmt=fmt, part=part):
                            s = K[r](y)
                            pre, post = bracket_part(part, mode, fmt, s.ret, y)
                            return T.and_(T.fp_isfinite(fmt, y), pre), T.and_(T.not_(s.ub), post)
                        self.ob("round_ref_bracket_%s:%s_%s" % (part, fn_name, fsfx(rr)), [("y", T.BV(T.fmt_width(fmt)))], f_lem, [d["ref"]],
                                {"fn": fn_name, "format": fsfx(rr), "part": part},
                                "for all finite y, r := std::%s(y): %s" % (fn_name, part_note(part, mode)),
                                routes=["cvc5-bv", "z3-bv"] if not f80 else ["z3-bv"], kind="stretch" if f80 else "claimed", timeout=60)
                for o, e in d["out"].items():
                    k3 = dict(k2, out=o)
                    if not self.ok(K, e["in"], e["cast"]):
                        continue

                    def f_x(K, x, a=d["in"], b=e["in"], c=e["cast"], o=o):
                        ea, eb = K[a](x), K[b](x)
                        ec = K[c](ea.ret)
                        return T.TRUE, T.and_(T.eq(eb.ub, T.or_(ea.ub, ec.ub)), T.or_(eb.ub, same(o, eb.ret, ec.ret)))
                    self.ob("round_explicit_eq_cast:%s_%s_%s" % (fn_name, rtag(o), tag), xs, f_x, [d["in"], e["in"], e["cast"]], k3,
                            "%s_in<%s>(u, q) == static_cast<%s>(%s_in(u, q)): same trap condition, same value" % (fn_name, o, o, fn_name),
                            routes=F.FP_ROUTES)
                    if "as" in e and self.ok(K, e["as"]):
                        def f_xa(K, x, a=e["in"], b=e["as"], o=o):
                            return T.TRUE, same_run(K[a](x), K[b](x), o)
                        self.ob("round_explicit_as_eq_in:%s_%s_%s" % (fn_name, rtag(o), tag), xs, f_xa, [e["in"], e["as"]], k3,
                                "%s_as<%s>(u, q).in(u) == %s_in<%s>(u, q)" % (fn_name, o, fn_name, o), routes=F.FP_ROUTES)
                    if (e["cast"],) not in lemma_done:
                        lemma_done.add((e["cast"],))
                        self.cast_lemma(K, e["cast"], rr, o)
        for (tag, key, fn_name, rr, conv, a, b, c, r, cast) in self.round_pt:
            if not self.ok(K, conv, a, b, c, r, cast):
                continue
            fmt = F.FMT_OF[rr]
            src = key["rep"]
            xs = [("x", F.ct_sort(src))]
            mode = MODE[fn_name]

            def f_pt(K, x, a=a, b=b, c=c, r=r, cast=cast, conv=conv, mode=mode, fmt=fmt, rr=rr):
                y = K[conv](x)
                ea, eb, ec = K[a](x), K[b](x), K[c](x)
                s = K[r](y.ret)
                cc = K[cast](ea.ret)
                # QuantityPoint::in(unit) adds the (zero) origin displacement: -0.0 reads back as +0.0 and a NaN payload may change,
                # so the value read from the *_as result is compared numerically (or both NaN), not bit-for-bit
                same_as = T.or_(T.eq(eb.ret, ea.ret), T.fp_cmp("oeq", fmt, eb.ret, ea.ret), T.and_(T.fp_isnan(fmt, eb.ret), T.fp_isnan(fmt, ea.ret)))
                return T.TRUE, T.and_(same(rr, ea.ret, s.ret), same(rr, ea.ret, T.fp_un(mode, fmt, y.ret)), T.eq(ea.ub, y.ub),
                                      same_as, T.eq(eb.ub, ea.ub),
                                      T.eq(ec.ub, T.or_(ea.ub, cc.ub)), T.or_(ec.ub, T.eq(ec.ret, cc.ret)))
            self.ob("round_point_eq_std:%s_%s" % (fn_name, tag), xs, f_pt, [a, b, c, r, cast, conv], key,
                    "QuantityPoint overloads: %s_in == std::%s(p.in<RoundingRep>(u)), _as == _in, <int32_t> == static_cast" % (fn_name, fn_name),
                    routes=F.FP_ROUTES)

    def cast_lemma(self, K, cast, rr, o):
        """reference static_cast<O>(r) for integral r: no float-cast trap => value preserving"""
        fmt = F.FMT_OF[rr]
        wd = T.fmt_width(fmt)
        key = {"from": rr, "to": o}
        if F.ct_is_float(o):
            fo = F.FMT_OF[o]

            def fn(K, r, cast=cast, fmt=fmt, fo=fo, o=o):
                c = K[cast](r)
                return T.TRUE, T.and_(T.not_(c.ub), same(o, c.ret, T.fp_cvt(fmt, fo, r)))
            self.ob("round_ref_cast:%s_%s" % (fsfx(rr), rtag(o)), [("r", T.BV(wd))], fn, [cast], key,
                    "static_cast<%s>(%s r) is the IEEE format conversion (never a trap)" % (o, rr), routes=F.FP_ROUTES)
            return
        signed = F.ct_signed(o)

        def fn(K, r, cast=cast, fmt=fmt, signed=signed):
            c = K[cast](r)
            integral = T.fp_cmp("oeq", fmt, T.fp_un("rtz", fmt, r), r)
            return T.and_(integral, T.not_(c.ub)), T.fp_cmp("oeq", fmt, T.fp_from_int(signed, fmt, c.ret), r)
        f80 = rr == "long double"
        self.ob("round_ref_cast:%s_%s" % (fsfx(rr), rtag(o)), [("r", T.BV(wd))], fn, [cast], key,
                "integral r, no float-cast trap => (%s)static_cast<%s>(r) == r (the cast is exact)" % (rr, o), routes=F.FP_ROUTES,
                kind="stretch" if f80 else "claimed", timeout=60)

    # ---- B
    def o_inverse(self, K):
        for tag, key, nm in self.inv_refuse:
            d = K[nm].kernel.dropped if nm in K else None
            refused = bool(d) and "Dangerous inversion" in d

            def fn(K, refused=refused):
                return T.TRUE, T.const_bool(refused)
            self.ob("refuse:" + tag, [], fn, [nm], dict(key, observed=(d or "compiles")[:160]),
                    "integral inversion with K < 10^6: the implicit-rep form is rejected by the 'Dangerous inversion' static_assert "
                    "(observed through the domain-drop pass)", kind="closed")
        self.extra_cov["inverse_refusal_probes"] = len(self.inv_refuse)
        for inst in self.inv_inst:
            rep, Kx, tag, key = inst["rep"], inst["K"], inst["tag"], inst["key"]
            if not self.ok(K, inst["in"]):
                continue
            w = F.CTYPES[rep][1]
            xs = [("x", T.BV(w))]
            if F.ct_is_float(rep):
                fmt = F.FMT_OF[rep]
                one = fpc(fmt, 1)

                def f_fp(K, x, a=inst["in"], fmt=fmt, one=one, rep=rep):
                    kc = K[a](one).ret
                    e = K[a](x)
                    return T.TRUE, T.and_(T.not_(e.ub), same(rep, e.ret, T.fp_bin("div", fmt, kc, x)))
                self.ob("inverse_fp:" + tag, xs, f_fp, [inst["in"]], key,
                        "inverse_in(u, q) == K_fp (/) x for every bit pattern x, K_fp := the kernel's value at x = 1", routes=F.FP_ROUTES)
                self.const_check("inverse_const:" + tag, K, inst["in"], rep, rep, Kx, Kx, key,
                                 "K_fp = inverse_in(u, q(1)) is within 4 ulp of the model's exact K")
            else:
                signed = F.ct_signed(rep)
                Kc = int(Kx)

                self.trunc_obs("inverse_trunc", tag, xs, inst["in"], rep, rep, rep, Kc, w, key)

                def w_zero(K, a=inst["in"], w=w):
                    return T.TRUE, K[a](T.const_bv(0, w)).ub
                self.ob("inverse_zero_traps:" + tag, [], w_zero, [inst["in"]], key, "x == 0 is integer division by zero (assumed away above)",
                        kind="closed")
                if "rt" in inst and self.ok(K, inst["rt"]):
                    def f_rt(K, n, a=inst["rt"], w=w, signed=signed):
                        e = K[a](n)
                        lt = "sle" if signed else "ule"
                        pre = T.and_(T.bvcmp(lt, T.const_bv(1, w), n), T.bvcmp(lt, n, T.const_bv(1000, w)))
                        return pre, T.and_(T.not_(e.ub), T.eq(e.ret, n))
                    self.ob("inverse_roundtrip:" + tag, [("n", T.BV(w))], f_rt, [inst["rt"]], key,
                            "1 <= n <= 1000: inverse_in(a, inverse_as(b, a(n))) == n, no trap (K = %d >= 10^6)" % Kc,
                            routes=["z3-bv", "z3-int", "cvc5-bv", "cvc5-int"], timeout=30)
            if self.ok(K, inst["as"]):
                def f_as(K, x, a=inst["in"], b=inst["as"], rep=rep):
                    return T.TRUE, same_run(K[a](x), K[b](x), rep)
                self.ob("inverse_as_eq_in:" + tag, xs, f_as, [inst["in"], inst["as"]], key, "inverse_as(u, q).in(u) == inverse_in(u, q)",
                        routes=F.FP_ROUTES if F.ct_is_float(rep) else F.CMP_ROUTES)
        for inst in self.inv_expl:
            trep, rep, crep, Kx, tag, key = inst["trep"], inst["rep"], inst["crep"], inst["K"], inst["tag"], inst["key"]
            if not self.ok(K, inst["in"]):
                continue
            w = F.CTYPES[rep][1]
            xs = [("x", T.BV(w))]
            if F.ct_is_float(crep):
                fc, ft = F.FMT_OF[crep], F.FMT_OF[trep]
                if F.ct_is_float(rep):
                    one = fpc(F.FMT_OF[rep], 1)
                else:
                    one = T.const_bv(1, w)

                def f_fx(K, x, a=inst["in"], fc=fc, ft=ft, one=one, rep=rep, crep=crep, trep=trep):
                    e = K[a](x)
                    k1 = K[a](one).ret              # == (TargetRep)(K_c / 1)
                    if F.ct_is_float(rep):
                        xc = T.fp_cvt(F.FMT_OF[rep], fc, x)
                    else:
                        xc = T.fp_from_int(F.ct_signed(rep), fc, x)
                    # K_c in the common type: recovered exactly from k1 only when TargetRep == Common; otherwise use the model's K
                    return T.TRUE, T.and_(T.not_(e.ub), same(trep, e.ret, T.fp_cvt(fc, ft, T.fp_bin("div", fc, T.fp_cvt(ft, fc, k1), xc))))
                exactK = fpeval.to_fraction(ft, fpeval.from_fraction(ft, Kx)) == Kx
                self.ob("inverse_explicit_fp:" + tag, xs, f_fx, [inst["in"]], key,
                        "inverse_in<T>(u, q) == (T)(K_c (/) (Common)x), K_c from the kernel's value at x = 1", routes=F.FP_ROUTES,
                        kind="claimed" if (trep == crep or exactK) else "stretch")
                self.const_check("inverse_const:" + tag, K, inst["in"], rep, trep, Kx, Kx, key, "kernel value at x = 1 is within 4 ulp of the model's K")
            else:
                Kc = int(Kx)

                self.trunc_obs("inverse_explicit_trunc", tag, xs, inst["in"], rep, trep, crep, Kc, w, key)
            if self.ok(K, inst["as"]):
                def f_xas(K, x, a=inst["in"], b=inst["as"], trep=trep):
                    return T.TRUE, same_run(K[a](x), K[b](x), trep)
                self.ob("inverse_explicit_as_eq_in:" + tag, xs, f_xas, [inst["in"], inst["as"]], key, "inverse_as<T>(u, q).in(u) == inverse_in<T>(u, q)",
                        routes=F.FP_ROUTES if (F.ct_is_float(rep) or F.ct_is_float(trep)) else F.CMP_ROUTES)

    def trunc_obs(self, fam, tag, xs, a, rep, trep, crep, Kc, w, key):
        """result == trunc(K/x) for x != 0, in two independent formulations (nonlinear integer arithmetic; the two solvers have
        complementary strengths here: measured cvc5 0.1 s / z3 timeout on the first, z3 0.1 s / cvc5 timeout on the second)"""
        def dom(x):
            """x != 0; mixed signedness (explicit-rep forms only): x must keep its value in the common type and trunc(K/x) must be
            representable in the target rep, i.e. x > 0 when either is unsigned (otherwise the C++ conversions wrap: outside)"""
            pre = T.ne(x, T.const_bv(0, w))
            if F.ct_signed(rep) and not (F.ct_signed(crep) and F.ct_signed(trep)):
                pre = T.and_(pre, T.ilt(T.const_int(0), F.ival(rep, x)))
            return pre

        def f_rem(K, x, a=a, rep=rep, trep=trep, Kc=Kc, w=w):
            e = K[a](x)
            X, Q = F.ival(rep, x), F.ival(trep, e.ret)
            rem = T.isub(T.const_int(Kc), T.imul(Q, X))      # K > 0: truncation toward zero <=> 0 <= K - q*x < |x|
            return dom(x), T.and_(T.not_(e.ub), T.ile(T.const_int(0), rem), T.ilt(rem, T.iabs(X)))
        self.ob("%s_rem:%s" % (fam, tag), xs, f_rem, [a], key,
                "x != 0: no trap and the result q satisfies 0 <= K - q*x < |x| with the model's K = %d (defining property of trunc(K/x))" % Kc,
                routes=["cvc5-int"], timeout=30)

        def f_div(K, x, a=a, rep=rep, trep=trep, Kc=Kc, w=w):
            e = K[a](x)
            X, Q = F.ival(rep, x), F.ival(trep, e.ret)
            return dom(x), T.and_(T.not_(e.ub), T.eq(Q, T.itrunc_div(T.const_int(Kc), X)))
        self.ob("%s_div:%s" % (fam, tag), xs, f_div, [a], key,
                "x != 0: no trap and result == sign * (K div |x|) with the model's K = %d" % Kc, routes=["z3-int"], timeout=30)

    # ---- C trig
    def o_trig(self, K):
        seen_const = set()
        seen_ref = set()
        for (tag, key, fn_name, rep, pr, u, conv, a, r) in self.trig_inst:
            if not self.ok(K, conv, a, r):
                continue
            xs = [("x", F.ct_sort(rep))]
            fmt = F.FMT_OF[pr]

            def f(K, x, conv=conv, a=a, r=r, pr=pr):
                y = K[conv](x)
                e = K[a](x)
                s = K[r](y.ret)
                return T.TRUE, T.and_(same(pr, e.ret, s.ret), T.eq(e.ub, T.or_(y.ub, s.ub)))
            self.ob("trig_eq_std:%s_%s" % (fn_name, tag), xs, f, [a, r, conv], key,
                    "%s(q) == std::%s(q expressed in radians, in the promoted type)" % (fn_name, fn_name), routes=F.FP_ROUTES)
            if conv not in seen_const:
                seen_const.add(conv)
                lo, hi = ratio_interval(u, "radians")
                self.const_check("trig_const:" + tag, K, conv, rep, pr, lo, hi, {"rep": rep, "unit": u},
                                 "q(1).in<Promoted>(radians) is within 4 ulp of the model's exact factor (pi from a 60-digit enclosure)")
            if r not in seen_ref:
                seen_ref.add(r)
                self.ref_is_uf(K, r, fn_name, [pr], pr)
        for (name, key, fn_name, rep, pr, a, r) in self.arc_inst:
            if not self.ok(K, a, r):
                continue
            nargs = 2 if fn_name == "arctan2" else 1
            vs = [(n, F.ct_sort(rep)) for n in ("y", "x")[:nargs]] if nargs == 2 else [("x", F.ct_sort(rep))]

            def f(K, *v, a=a, r=r, pr=pr):
                return T.TRUE, same_run(K[a](*v), K[r](*v), pr)
            self.ob("arc_eq_std:" + name, vs, f, [a, r], key, "%s(x).in(radians) == std::%s(x)" % (fn_name, LIBM1.get(fn_name, "atan2")),
                    routes=F.FP_ROUTES)
            if r not in seen_ref:
                seen_ref.add(r)
                self.ref_is_uf(K, r, LIBM1.get(fn_name, "atan2"), [rep] * nargs, pr)

    def ref_is_uf(self, K, r, std, arg_cts, pr):
        """the libm reference kernel is the uninterpreted function of its (promoted) arguments"""
        fmt = F.FMT_OF[pr]
        std = LIBM1.get(std, std)

        def f(K, *v, r=r, std=std, arg_cts=arg_cts, pr=pr, fmt=fmt):
            args = []
            for ct, t in zip(arg_cts, v):
                if F.ct_is_float(ct):
                    args.append(T.fp_cvt(F.FMT_OF[ct], fmt, t))
                else:
                    args.append(T.fp_from_int(F.ct_signed(ct), fmt, t))
            s = K[r](*v)
            return T.TRUE, T.and_(T.not_(s.ub), same(pr, s.ret, T.uf("libm_%s_%s" % (std, fsfx(pr)), T.BV(T.fmt_width(fmt)), args)))
        self.ob("ref_is_libm:" + r, [("a%d" % i, F.ct_sort(ct)) for i, ct in enumerate(arg_cts)], f, [r], {"reference": r},
                "the reference kernel is one call of libm %s on the promoted arguments (uninterpreted function)" % std, routes=F.FP_ROUTES)

    # ---- C mixed
    def o_mixed(self, K):
        seen_ref = set()
        for inst in self.mix_inst:
            rep, pr, tag, key = inst["rep"], inst["pr"], inst["tag"], inst["key"]
            isf = F.ct_is_float(rep)
            so = F.ct_sort(rep)
            c1, c2 = inst["c"]
            p1, p2 = inst["p"]
            if not self.ok(K, c1, c2, p1, p2):
                continue
            # exact factors of the conversions to the model's common unit
            for nm, u, ct_out in ((c1, inst["u1"], rep), (c2, inst["u2"], rep), (p1, inst["u1"], pr), (p2, inst["u2"], pr)):
                fac = UNITS[u][1] / inst["cs"]
                assert fac.denominator == 1
                if F.ct_is_float(ct_out):
                    self.const_check("mixed_const:%s_%s" % (nm, tag), K, nm, rep, ct_out, fac, fac, dict(key, unit=u),
                                     "conversion of 1 %s to the model's common unit is the exact integer factor %d (within 4 ulp)" % (u, fac))
                else:
                    def fci(K, nm=nm, fac=int(fac), ct_out=ct_out, rep=rep):
                        e = K[nm](T.const_bv(1, F.CTYPES[rep][1]))
                        return T.TRUE, T.and_(T.not_(e.ub), T.eq(e.ret, T.const_bv(fac, F.CTYPES[ct_out][1])))
                    self.ob("mixed_const:%s_%s" % (nm, tag), [], fci, [nm], dict(key, unit=u),
                            "conversion of 1 %s to the model's common unit is exactly %d" % (u, fac), kind="closed")
            for fn_name, (a, r, which, ret_ct) in inst["f"].items():
                if not self.ok(K, a, r):
                    continue
                k2 = dict(key, fn=fn_name)
                if fn_name == "clamp":
                    vs = [("a", so), ("b", so), ("c", so)]
                    cvs = (c1, c2, c2)
                else:
                    vs = [("a", so), ("b", so)]
                    cvs = (c1, c2) if which == "c" else (p1, p2)

                order = fn_name in ("min", "max", "clamp")

                def f(K, *v, a=a, r=r, cvs=cvs, isf=isf, ret_ct=ret_ct, order=order):
                    e = K[a](*v)
                    cs = [K[c](t) for c, t in zip(cvs, v)]
                    s = K[r](*[c.ret for c in cs])
                    rub = T.or_(s.ub, *[c.ub for c in cs])
                    eqv = same(ret_ct, e.ret, s.ret)      # operands went through a conversion (arithmetic): NaN bits not modelled
                    if isf and order:
                        # min/max/clamp select one of the operands: 'equal to the std function' is read on *values*: which of two
                        # equivalent operands (-0.0 / +0.0) is returned is not claimed, and NaN operands are outside (std::min/max
                        # require a strict weak order).  Same-unit calls resolve to Quantity's hidden friends ('min prefers a, max
                        # prefers b'), which differ from std::max exactly there.
                        fmt = F.FMT_OF[ret_ct]
                        pre = T.not_(T.or_(*[T.fp_isnan(fmt, c.ret) for c in cs]))
                        return pre, T.and_(T.eq(e.ub, rub), T.or_(rub, eqv, T.fp_cmp("oeq", fmt, e.ret, s.ret)))
                    if isf:
                        return T.TRUE, T.and_(T.eq(e.ub, rub), T.or_(rub, eqv))
                    return T.not_(rub), T.and_(T.not_(e.ub), eqv)
                self.ob("mixed_eq_std:%s_%s" % (fn_name, tag), vs, f, [a, r] + list(dict.fromkeys(cvs)), k2,
                        "%s on mixed units == %s on the operands converted to the model's common unit"
                        % (fn_name, "the raw expression (v<lo)?lo:(hi<v)?hi:v" if fn_name == "clamp" else "std::" + fn_name)
                        + ("" if isf else " (whenever the reference does not trap)"),
                        routes=F.FP_ROUTES if isf else F.INT_ROUTES)
                if isf and fn_name == "max" and inst["u1"] == inst["u2"]:     # (the friend min coincides with std::min)
                    def fo(K, x, y, a=a, r=r, ret_ct=ret_ct):
                        fmt = F.FMT_OF[ret_ct]
                        e, s = K[a](x, y), K[r](x, y)
                        return T.not_(T.or_(T.fp_isnan(fmt, x), T.fp_isnan(fmt, y))), T.ne(e.ret, s.ret)
                    self.ob("observe_tie_choice:%s_%s" % (fn_name, tag), vs, fo, [a, r], k2,
                            "observation (not a claim): same-unit %s returns the other one of two equivalent operands than std::%s "
                            "(-0.0 / +0.0)" % (fn_name, fn_name), routes=F.FP_ROUTES, kind="stretch", expect="sat")
                    self.tie_observed = getattr(self, "tie_observed", 0) + 1
                if r not in seen_ref:
                    seen_ref.add(r)
                    if fn_name in ("min", "max", "clamp"):
                        self.ref_order(K, r, fn_name, rep)
                    else:
                        std = {"arctan2": "atan2"}.get(fn_name, fn_name)
                        self.ref_is_uf(K, r, std, [rep, rep] if which == "c" else [pr, pr], pr)
            if "copysign_qq" in inst and self.ok(K, inst["copysign_qq"]):
                fmt = F.FMT_OF[rep]

                def fcs(K, x, s, a=inst["copysign_qq"], fmt=fmt):
                    e = K[a](x, s)
                    return T.TRUE, T.and_(T.not_(e.ub), T.eq(e.ret, T.fp_copysign(fmt, x, s)))
                self.ob("copysign_qq:" + tag, [("x", so), ("s", so)], fcs, [inst["copysign_qq"]], key,
                        "copysign(q1, q2).in(unit of q1) is the stored magnitude with the sign bit of q2's stored value", routes=F.FP_ROUTES)

    def ref_order(self, K, r, fn_name, rep):
        """std::min / std::max / raw clamp reference == its defining comparison on exact values"""
        so = F.ct_sort(rep)
        isf = F.ct_is_float(rep)
        fmt = F.FMT_OF[rep] if isf else None

        def lt(a, b):
            if isf:
                return T.fp_cmp("olt", fmt, a, b)
            return T.ilt(F.ival(rep, a), F.ival(rep, b))
        if fn_name == "clamp":
            def f(K, v, lo, hi, r=r):
                s = K[r](v, lo, hi)
                return T.TRUE, T.and_(T.not_(s.ub), T.eq(s.ret, T.ite(lt(v, lo), lo, T.ite(lt(hi, v), hi, v))))
            vs = [("v", so), ("lo", so), ("hi", so)]
            note = "reference clamp: (v < lo) ? lo : (hi < v) ? hi : v, operands returned bit-for-bit"
        else:
            def f(K, a, b, r=r, fn_name=fn_name):
                s = K[r](a, b)
                want = T.ite(lt(b, a), b, a) if fn_name == "min" else T.ite(lt(a, b), b, a)
                return T.TRUE, T.and_(T.not_(s.ub), T.eq(s.ret, want))
            vs = [("a", so), ("b", so)]
            note = "std::%s(a, b) == %s, operands returned bit-for-bit" % (fn_name, "(b < a) ? b : a" if fn_name == "min" else "(a < b) ? b : a")
        self.ob("ref_order:" + r, vs, f, [r], {"reference": r}, note, routes=F.FP_ROUTES if isf else F.CMP_ROUTES)

    # ---- C unary
    def o_unary(self, K):
        for d in self.un_inst:
            rep, tag, key = d["rep"], d["tag"], d["key"]
            isf = F.ct_is_float(rep)
            so = F.ct_sort(rep)
            xs = [("x", so)]
            if "abs" in d and self.ok(K, d["abs"], d["abs_ref"]):
                absrep = d["absrep"]

                def fa(K, x, a=d["abs"], r=d["abs_ref"], isf=isf, rep=rep, absrep=absrep):
                    e, s = K[a](x), K[r](x)
                    post = same_run(e, s, None)
                    if isf:
                        post = T.and_(post, T.not_(e.ub), T.eq(e.ret, T.fp_abs(F.FMT_OF[rep], x)))
                    else:
                        lo = F.ct_range(absrep)[0]
                        X = F.ival(rep, x)
                        isneg = T.ilt(X, T.const_int(0))
                        trap = T.eq(X, T.const_int(lo)) if F.ct_signed(rep) else T.FALSE
                        post = T.and_(post, T.eq(e.ub, trap), T.or_(trap, T.eq(F.ival(absrep, e.ret), T.ite(isneg, T.ineg(X), X))))
                    return T.TRUE, post
                self.ob("abs:" + tag, xs, fa, [d["abs"], d["abs_ref"]], dict(key, fn="abs"),
                        "abs(q).in(unit) == std::abs(stored value) == |x| (sign bit cleared; integral: traps exactly at the minimum of the promoted type)",
                        routes=F.FP_ROUTES if isf else F.INT_ROUTES)
            if isf:
                fmt = F.FMT_OF[rep]
                for which in ("cs_q_s", "cs_s_q"):
                    if not self.ok(K, d[which], d["cs_ref"]):
                        continue

                    def fc(K, x, s, a=d[which], r=d["cs_ref"], fmt=fmt):
                        e, t = K[a](x, s), K[r](x, s)
                        return T.TRUE, T.and_(T.not_(e.ub), T.eq(e.ret, t.ret), T.eq(e.ret, T.fp_copysign(fmt, x, s)))
                    self.ob("copysign_%s:%s" % (which[3:], tag), [("x", so), ("s", so)], fc, [d[which], d["cs_ref"]], dict(key, fn=which),
                            "copysign with a Quantity %s == std::copysign on the stored values == magnitude bits of x with the sign bit of s"
                            % ("magnitude" if which == "cs_q_s" else "sign"), routes=F.FP_ROUTES)
                for which in ("isnan", "isnan_pt"):
                    if which not in d or not self.ok(K, d[which], d["isnan_ref"]):
                        continue

                    def fi(K, x, a=d[which], r=d["isnan_ref"], fmt=fmt):
                        e, t = K[a](x), K[r](x)
                        return T.TRUE, T.and_(T.not_(e.ub), T.eq(e.ret, t.ret), T.eq(e.ret, T.fp_isnan(fmt, x)))
                    self.ob("%s:%s" % (which, tag), xs, fi, [d[which], d["isnan_ref"]], dict(key, fn=which),
                            "isnan(q) == std::isnan(stored value) == (exponent all ones and fraction non-zero)", routes=F.FP_ROUTES)

    # ---- D
    def o_closed(self, K):
        for name, nm, what in self.closed:
            if not self.ok(K, nm):
                continue

            def f(K, nm=nm):
                e = K[nm]()
                return T.TRUE, T.and_(e.ret, T.not_(e.ub))
            self.ob("type:" + name, [], f, [nm], {"fact": what}, what, kind="closed")


CHECK = C15
