"""C20 - Behaviour is independent of packaging, language standard and compiler (partial: clang only; DESIGN.md C20)."""
import copy
import importlib
import os
import re as _re
import subprocess

from .. import framework as F
from .. import terms as T

DONORS_Q = ["C03", "C04", "C05", "C08", "C13", "C19", "C14", "C15", "C17"]
DONORS_T = DONORS_Q + ["C06", "C09", "C16", "C07", "C10", "C11"]
PER_DONOR_Q = 80
PER_DONOR_T = 400


def make_single_file(dest, args, repo):
    tool = os.path.join(repo, "tools", "bin", "make-single-file")
    if not os.path.exists(tool):
        tool = "/repo/tools/bin/make-single-file"       # scratch copies of au/ only: use the tool, run it on the copy
    p = subprocess.run(["python3", tool, "--version-id", "auverif"] + args, cwd=repo, stdout=subprocess.PIPE, stderr=subprocess.PIPE,
                       universal_newlines=True)
    if p.returncode != 0:
        raise F.Inconclusive("make-single-file failed: " + p.stderr[-800:])
    os.makedirs(dest, exist_ok=True)
    with open(os.path.join(dest, "au.hh"), "w") as f:
        f.write(p.stdout)
    return dest


LINK_PROBE_A = r"""
%(inc)s
#include <cstdio>
#include <iomanip>
#include <limits>
#include <sstream>
#include <string>
using namespace au;
int probe_b(char *buf, int n);
// binding a reference ODR-uses a static data member: under C++14 that needs its out-of-class definition
template <class T> static const T &odr(const T &x) { return x; }
int main() {
    volatile int i = 0;
    std::ostringstream o;
    o << &unit_label(Meters{})[i] << '|' << &unit_label(Kilo<Meters>{})[i] << '|' << &unit_label(Meters{} * mag<3>())[i] << '|'
      << &unit_label(Meters{} / mag<7>())[i] << '|' << &unit_label(squared(Meters{}) / Seconds{})[i] << '|'
      << &unit_label(CommonUnitT<decltype(Meters{} / mag<1250>()), decltype(Feet{} / mag<381>())>{})[i] << '|'
      << &unit_label(CommonPointUnitT<Celsius, Kelvins>{})[i] << '|' << &unit_label(AssociatedUnitT<decltype(SPEED_OF_LIGHT)>{})[i] << '|'
      << &mag_label(mag<5>() / mag<7>())[i] << '|' << &unit_label(Mebi<Bytes>{} * Fahrenheit{})[i] << '|'
      << odr(std::numeric_limits<QuantityI32<Meters>>::digits) << '|' << odr(std::numeric_limits<QuantityD<Feet>>::max_exponent) << '|'
      << odr(std::numeric_limits<QuantityD<Feet>>::is_signed) << '|' << odr(detail::FirstPrimes::values)[3 + i] << '|'
      << (meters(1) + feet(1)) << '|' << (celsius_pt(20) - kelvins_pt(290)) << '|' << meters_pt(3.5) << '|' << SPEED_OF_LIGHT.as<int>(meters / second) << '|'
      << (int8_t{65} * meters(int8_t{1})) << '|' << as_quantity(std::chrono::milliseconds(5)) << '|';
    // pending stream state (field width, fill, adjustment, float format): what the pieces of a quantity / point consume must not depend on the compiler
    o << std::setw(12) << meters_pt(3.5) << '|' << std::setw(10) << meters(2) << '|' << std::left << std::setw(10) << std::setfill('.') << celsius_pt(-40.5)
      << '|' << std::right << std::setw(9) << std::setfill('*') << feet(7) << '|' << std::fixed << std::setprecision(2) << std::setw(14) << kelvins_pt(2.5);
    // free functions found by (qualified) name lookup inside math.hh: which overloads are visible must not depend on the order in which a
    // packaging emits the unit headers
    o << std::setprecision(17) << std::defaultfloat << '|' << sin(degrees(360.0)) << '|' << cos(degrees(270.0)) << '|' << tan(degrees(1000.0))
      << '|' << sin(revolutions(1.25)) << '|' << cos(radians(4.0)) << '|' << arcsin(0.5).in(degrees) << '|' << round_in(feet, meters(2.0))
      << '|' << fmod(degrees(725.0), revolutions(1.0)).in(degrees) << '|' << inverse_as(micro(seconds), hertz(8.0));
    char buf[256];
    int n = probe_b(buf, 256);
    std::printf("%%s|%%.*s\n", o.str().c_str(), n, buf);
    return 0;
}
"""
LINK_PROBE_B = r"""
%(inc)s
#include <cstdio>
using namespace au;
// a second translation unit that includes the same header(s) and uses the same entities: multiple-definition / ODR problems show at link time
int probe_b(char *buf, int n) {
    volatile int i = 0;
    return std::snprintf(buf, n, "%%s %%s %%d", &unit_label(Meters{})[i], &unit_label(CommonUnitT<decltype(Meters{} / mag<1250>()), decltype(Feet{} / mag<381>())>{})[i],
                         (int)(feet(3) + inches(2)).in(inches));
}
"""


def link_probe(workdir, cfg, cxx, std, inc_dirs, includes):
    """compile two translation units at -O0, link them, run: returns (accepted, output or error text)"""
    d = os.path.join(workdir, "link_" + cfg)
    os.makedirs(d, exist_ok=True)
    for nm, src in (("a", LINK_PROBE_A), ("b", LINK_PROBE_B)):
        with open(os.path.join(d, nm + ".cc"), "w") as f:
            f.write(src % {"inc": includes})
    exe = os.path.join(d, "probe")
    cmd = [cxx, "-std=" + std, "-O0", "-w"] + ["-I" + x for x in inc_dirs] + [os.path.join(d, "a.cc"), os.path.join(d, "b.cc"), "-o", exe]
    try:
        p = subprocess.run(cmd, stdout=subprocess.PIPE, stderr=subprocess.PIPE, universal_newlines=True, timeout=600)
        if p.returncode != 0:
            errs = [l for l in p.stderr.splitlines() if "error" in l or "undefined reference" in l or "multiple definition" in l]
            return False, " ; ".join(errs[:3])[:600] or p.stderr[-400:]
        r = subprocess.run([exe], stdout=subprocess.PIPE, stderr=subprocess.PIPE, universal_newlines=True, timeout=60)
        if r.returncode != 0:
            return False, "probe exited with %d: %s" % (r.returncode, r.stderr[-200:])
        return True, r.stdout.strip()
    except subprocess.TimeoutExpired:
        return False, "timed out"


class C20(F.Check):
    pid = "C20"
    level = "translation_validation"
    validate_inputs = 6
    assumptions = [
        "clang 14 only: gcc produces no LLVM IR to encode; the gcc axis is seen only through the per-run differential execution of every kernel built by g++ -O2 against the encoding on "
        "sampled inputs (translator validation), which is not a solver claim",
        "kernels are re-used from the other checks (seeded subset) and lowered in five configurations: c++14 multi-header (baseline), c++17, c++20, single-file header (all units/constants, with I/O) "
        "and single-file --noio, the single-file builds with NO other Au path on the include line; thorough adds a seeded random subset of units containing those the kernels use, and a double inclusion",
        "each (kernel, configuration) pair is proved equivalent to the baseline for ALL inputs (same result bits, same trap condition); identical encodings fold before the solver",
        "compiler parity is additionally observed on closed facts (magnitude values incl. roots and pi in float/double/long double, a label size, policy booleans): the constant in "
        "clang's IR must equal the value the g++ build returns; this needs no free variable and no sampling",
        "'every public header compiles on its own' and 'the single-file header can be included twice / with no other Au file' are compiler verdicts: observed as lowering-stage facts on the current tree "
        "(a failure is reported as a lowering-stage VIOLATION), not solver results; the same holds for the link probes (two translation units that ODR-use labels and numeric_limits "
        "members and stream quantities, built at -O0 by g++ and clang++ at c++14/17/20 against the multi-header tree and the single-file header: all must link, run and print the same text)",
    ]

    def bounds(self):
        return {"configurations": ["c++14 multi (baseline)", "c++17", "c++20", "single-file", "single-file --noio"] +
                (["single-file random unit subset", "single-file included twice"] if self.tier == "thorough" else []),
                "donor checks": DONORS_Q if self.tier == "quick" else DONORS_T, "inputs": "all values of each kernel's arguments"}

    def kernels(self):
        donors = DONORS_Q if self.tier == "quick" else DONORS_T
        per = PER_DONOR_Q if self.tier == "quick" else PER_DONOR_T
        repo = F.REPO
        sdir = os.path.join(self.workdir, "single_io")
        ndir = os.path.join(self.workdir, "single_noio")
        make_single_file(sdir, ["--all-units", "--all-constants"], repo)
        make_single_file(ndir, ["--all-units", "--all-constants", "--noio"], repo)
        single_inc = '#include "au.hh"'
        variants = [
            ("std17", "c++17", None),
            ("std20", "c++20", None),
            ("single", "c++14", {"id": "single", "includes": single_inc, "inc_dirs": [sdir]}),
            ("noio", "c++14", {"id": "noio", "includes": single_inc, "inc_dirs": [ndir]}),
        ]
        meters_only_variants = []
        if self.tier == "thorough":
            units = sorted(f[:-3] for f in os.listdir(os.path.join(F.INC, "au", "units")) if f.endswith(".hh") and not f.endswith("_fwd.hh"))
            pick = sorted(set(["meters"] + self.rng.sample(units, 9)))
            subdir = os.path.join(self.workdir, "single_subset")
            make_single_file(subdir, ["--units"] + pick + ["--constants", "speed_of_light"], repo)
            meters_only_variants.append(("subset", "c++14", {"id": "subset", "includes": single_inc, "inc_dirs": [subdir]}))
            # identifiers declared by the unit / constant headers that are NOT in the subset: a kernel mentioning one cannot use this variant
            self.subset_forbidden = set()
            for sub in ("units", "constants"):
                hd = os.path.join(F.INC, "au", sub)
                for f in os.listdir(hd):
                    if not f.endswith(".hh") or f.endswith("_fwd.hh") or (sub == "units" and f[:-3] in pick) or (sub == "constants" and f[:-3] == "speed_of_light"):
                        continue
                    txt = open(os.path.join(hd, f)).read()
                    self.subset_forbidden |= set(_re.findall(r"struct (\w+)", txt)) | set(_re.findall(r"constexpr (?:auto|\w+<[^>]*>) (\w+)\s*[={]", txt))
            variants.append(("twice", "c++14", {"id": "twice", "includes": single_inc + "\n" + single_inc, "inc_dirs": [sdir]}))
        # link probes: two translation units using labels, numeric_limits members, streaming (ODR-uses of static data members), compiled at -O0,
        # linked and run under both compilers, every -std, multi-header tree and single-file header
        multi_inc = "\n".join('#include "%s"' % h for h in ("au/au.hh", "au/io.hh", "au/units/meters.hh", "au/units/feet.hh", "au/units/inches.hh", "au/units/seconds.hh",
                                                             "au/units/celsius.hh", "au/units/kelvins.hh", "au/units/fahrenheit.hh", "au/units/bytes.hh", "au/units/degrees.hh", "au/units/radians.hh",
                                                             "au/units/revolutions.hh", "au/units/hertz.hh",
                                                             "au/constants/speed_of_light.hh")) + "\n#include <chrono>"
        jobs = []
        for cxx, cname in ((F.CLANG, "clang"), (F.GXX, "gcc")):
            for std in ("c++14", "c++17", "c++20"):
                jobs.append(("%s_%s_multi" % (cname, std.replace("+", "x")), cxx, std, [F.INC], multi_inc))
                if self.tier == "thorough" or (cname, std) in (("clang", "c++14"), ("gcc", "c++14"), ("gcc", "c++20")):
                    jobs.append(("%s_%s_single" % (cname, std.replace("+", "x")), cxx, std, [sdir], single_inc + "\n#include <chrono>"))
        import concurrent.futures as cf
        with cf.ThreadPoolExecutor(min(len(jobs), F.NCPU)) as ex:
            res = list(ex.map(lambda j: link_probe(self.workdir, *j), jobs))
        self.link_results = [(j[0], ok, out) for j, (ok, out) in zip(jobs, res)]
        ks = []
        self.pairs = []
        for d in donors:
            mod = importlib.import_module("auverif.props." + d)
            donor = mod.CHECK(self.tier if d not in ("C05",) else "quick", self.seed)
            try:
                # reference kernels (raw operators, pure std::chrono, libm) contain no Au code: their standard-dependence is the
                # standard library's own (e.g. libstdc++ duration <= on NaN counts differs between C++17 and C++20) and is not donated
                def is_reference(k):
                    f = k.family.lower()
                    return f.startswith("raw_") or f.startswith("ref_") or f.endswith("_ref") or "reference" in f
                dk = [k for k in donor.kernels() if k.native and (k.std or donor.std) == "c++14" and not is_reference(k)]
                dpre = donor.prelude
                dinc = donor.includes
                dopts = dict(donor.encode_opts or {})
                dopts.setdefault("inline_depth", 12)
                dopts.setdefault("unwind", 12)
            finally:
                donor.cleanup()
            self.rng.shuffle(dk)

            def bucket(k):
                # family x kind (signed / unsigned / floating, sub-int or not) of every C type named in the kernel's key
                cls = []
                for v in (k.key or {}).values():
                    if isinstance(v, str) and v in F.CTYPES:
                        kind, w, _ = F.CTYPES[v]
                        cls.append(kind + ("n" if w < 32 else "w"))
                return (k.family, tuple(cls))
            buckets = {}
            for k in dk:
                buckets.setdefault(bucket(k), []).append(k)
            chosen = []
            rnd = 0
            while len(chosen) < per and any(len(v) > rnd for v in buckets.values()):      # round-robin: every (family, type-kind) bucket first
                for b in sorted(buckets, key=str):
                    if len(buckets[b]) > rnd and len(chosen) < per:
                        chosen.append(buckets[b][rnd])
                rnd += 1
            for k in chosen:
                base = copy.copy(k)
                base.enc_opts = dopts
                base.name = "%s__base" % k.name
                base.prelude = dpre
                base.key = dict(k.key or {}, donor=d, config="c++14 multi-header")
                base.family = "%s/%s" % (d, k.family)
                ks.append(base)
                vs = list(variants)
                if meters_only_variants and not dpre and not (set(_re.findall(r"\w+", k.body)) & self.subset_forbidden):
                    vs += meters_only_variants
                for vid, std, var in vs:
                    if var is not None and dpre and "au::" in dpre and False:
                        continue
                    v = copy.copy(k)
                    v.enc_opts = dopts
                    v.name = "%s__%s" % (k.name, vid)
                    v.std = std
                    v.variant = var
                    v.prelude = dpre
                    v.key = dict(k.key or {}, donor=d, config=vid)
                    v.family = "%s/%s" % (d, k.family)
                    ks.append(v)
                    self.pairs.append((base, v, vid, d))
        # programs valid under every standard whose meaning changes with the standard library: relational comparison of
        # std::pair / std::tuple / std::array of quantities uses the element's operator< before C++20 and operator<=> from C++20
        # The raw rep has the same standard-dependence (std::pair<double,int> >= ... differs on NaN between C++17 and C++20), so the claim
        # is: in EVERY configuration the Au program equals the same program on the raw rep (Au adds no dependence of its own).
        self.own_pairs = []
        own_pre = "#include <utility>\n#include <tuple>\n"
        for r in ("double", "float", "int32_t", "int64_t"):
            for nm, au_body, raw_body in (
                    ("pair_lt", "return std::make_pair(meters(x), 1) < std::make_pair(meters(y), 0);",
                     "return std::make_pair(x, 1) < std::make_pair(y, 0);"),
                    ("pair_ge", "return std::make_pair(meters(x), 0) >= std::make_pair(meters(y), 0);",
                     "return std::make_pair(x, 0) >= std::make_pair(y, 0);"),
                    ("tuple_gt", "return std::make_tuple(meters(x), 0) > std::make_tuple(meters(y), 0);",
                     "return std::make_tuple(x, 0) > std::make_tuple(y, 0);"),
                    ("pair_pt_le", "return std::make_pair(1, meters_pt(x)) <= std::make_pair(1, meters_pt(y));",
                     "return std::make_pair(1, x) <= std::make_pair(1, y);")):
                for vid, std, var in [("base", "c++14", None)] + variants:
                    pair = []
                    for side, body in (("au", au_body), ("raw", raw_body)):
                        k = F.Kernel("c20_%s_%s_%s__%s" % (nm, side, r.replace("_t", ""), vid), "bool", [(r, "x"), (r, "y")], body,
                                     key={"rep": r, "what": nm, "config": vid}, family="std_container_compare", std=std)
                        k.variant = var
                        k.prelude = own_pre
                        ks.append(k)
                        pair.append(k)
                    self.own_pairs.append((pair[0], pair[1], vid))
        # compiler parity on closed facts: the constant clang bakes into the IR must equal what the g++ build of the same line returns
        # (no free variable: a finite fact, evaluated by both compilers' constant evaluators)
        self.parity = []
        mags = ["root<2>(mag<2>())", "root<2>(mag<1000>())", "root<3>(mag<2>())", "root<5>(mag<7>())", "root<2>(mag<13>())", "Magnitude<Pi>{}",
                "pow<2>(Magnitude<Pi>{})", "root<2>(Magnitude<Pi>{})", "Magnitude<Pi>{} / mag<180>()", "mag<1>() / mag<3>()",
                "pow<-30>(mag<10>())", "pow<30>(mag<10>())", "root<2>(mag<3>()) / mag<7>()", "mag<45359237>() / pow<8>(mag<10>())"]
        for mi, mg in enumerate(mags):
            for t in ("float", "double", "long double"):
                k = F.Kernel("c20_gccparity_%d_%s" % (mi, t.replace(" ", "")), t, [], "return get_value<%s>(%s);" % (t, mg),
                             key={"magnitude": mg, "T": t}, family="gcc_clang_parity")
                k.prelude = ""
                ks.append(k)
                self.parity.append(k)
        for i, body in enumerate(["return sizeof(unit_label(Meters{} * mag<1000>() / root<2>(Seconds{})));",
                                  "return (uint64_t)representable_in<float>(pow<39>(mag<10>())) * 2 + (uint64_t)representable_in<double>(pow<308>(mag<10>()));",
                                  "return (uint64_t)std::is_convertible<Quantity<Kilo<Meters>, int32_t>, Quantity<Meters, int32_t>>::value;"]):
            k = F.Kernel("c20_gccparity_misc_%d" % i, "uint64_t", [], body, key={"expr": body}, family="gcc_clang_parity")
            k.prelude = ""
            ks.append(k)
            self.parity.append(k)
        # every public header compiles on its own (lowering-stage facts)
        self.alone = []
        hdrs = []
        root = os.path.join(F.INC, "au")
        for dp, dn, fn in os.walk(root):
            if "test" in dp.split(os.sep):
                continue
            for f in sorted(fn):
                if f.endswith(".hh") and not f.endswith("_test.hh") and f not in ("testing.hh", "fwd_test_lib.hh", "chrono_policy_validation.hh"):
                    hdrs.append(os.path.relpath(os.path.join(dp, f), F.INC))
        hdrs.sort()
        if self.tier == "quick":
            hdrs = [h for i, h in enumerate(hdrs) if "units/" not in h and "constants/" not in h or i % 6 == 0]
        for i, h in enumerate(hdrs):
            k = F.Kernel("c20_alone_%d" % i, "bool", [], "return true;", key={"header": h}, family="header_alone", native=False)
            k.variant = {"id": "alone%d" % i, "includes": '#include "%s"\n#include "%s"' % (h, h), "inc_dirs": [F.INC]}
            k.prelude = ""
            ks.append(k)
            self.alone.append(k)
        self.programs = len(self.pairs)
        return ks

    def make_chunks(self, kernels):
        # 'header alone' TUs must not get the standard prelude (using namespace au etc.): build them with a bare head
        chunks = super().make_chunks(kernels)
        for ch in chunks:
            if ch.kernels and ch.kernels[0].family == "header_alone":
                ch.bare = True
        return chunks

    def obligations(self, K):
        obs = []
        for base, v, vid, d in self.pairs:
            kb, kv = K[base.name].kernel, K[v.name].kernel
            key = dict(v.key)
            if kb.dropped and kv.dropped:
                continue
            if kb.dropped != kv.dropped and (kb.dropped is None or kv.dropped is None):
                # accepted in one configuration, rejected in the other
                which = v.name if kv.dropped else base.name
                ob = F.Ob("accept_parity:%s" % v.name, [], None, kind="closed",
                          key=dict(key, compile_error=(kv.dropped or kb.dropped)[:200], rejected_in=("variant" if kv.dropped else "baseline")),
                          kernels=[base.name, v.name], note="kernel compiles in one configuration and not in the other")
                ob.status = "lowering-failed"
                obs.append(ob)
                continue
            xs = [("a%d" % i, F.ct_sort(ct)) for i, (ct, _) in enumerate(base.args)]

            def fn(K, *args, bn=base.name, vn=v.name, ret=base.ret):
                a, b = K[bn](*args), K[vn](*args)
                if a.ret is None or b.ret is None:      # a kernel that traps on every path: equivalent iff the other one does too
                    return T.not_(T.or_(a.unwind, b.unwind)), T.const_bool(a.ret is None and b.ret is None)
                same = T.eq(a.ret, b.ret)
                if F.ct_is_float(ret):
                    fmt = F.FMT_OF[ret]
                    same = T.or_(same, T.and_(T.fp_isnan(fmt, a.ret), T.fp_isnan(fmt, b.ret)))
                # paths beyond the unwinding / inlining bound are outside the claim (and counted): never a violation
                return T.not_(T.or_(a.unwind, b.unwind)), T.and_(T.eq(a.ub, b.ub), T.or_(a.ub, same))
            fp = any(F.ct_is_float(ct) for ct, _ in base.args) or F.ct_is_float(base.ret)
            ob = F.Ob("equiv:%s" % v.name, xs, fn, key=key, kernels=[base.name, v.name],
                      routes=F.FP_ROUTES if fp else ["z3-bv", "cvc5-bvint", "z3-int"],
                      note="same result bits and same trap condition as the c++14 multi-header baseline, for all inputs")
            obs.append(ob)
        base_out = next((out for cfg, ok, out in self.link_results if ok), None)
        for cfg, ok, out in self.link_results:
            def lfn(K, ok=ok, out=out, base_out=base_out):
                return T.TRUE, T.const_bool(bool(ok) and out == base_out)
            obs.append(F.Ob("link_probe:" + cfg, [], lfn, kind="closed",
                            key={"configuration": cfg, "accepted": ok, "output": out[:300], "expected_output": (base_out or "")[:300]},
                            note="a two-translation-unit program that ODR-uses labels / numeric_limits members and streams quantities compiles at -O0, links, "
                                 "runs, and prints the same text in every compiler / -std / packaging configuration (compiler+linker verdict, observed)"))
        for ka, kr, vid in self.own_pairs:
            if K[ka.name].kernel.dropped or K[kr.name].kernel.dropped:
                if bool(K[ka.name].kernel.dropped) != bool(K[kr.name].kernel.dropped):
                    ob = F.Ob("container_compare:%s" % ka.name, [], None, kind="closed",
                              key=dict(ka.key, compile_error=(K[ka.name].kernel.dropped or K[kr.name].kernel.dropped)[:200]), kernels=[ka.name, kr.name])
                    ob.status = "lowering-failed"
                    obs.append(ob)
                continue
            xs = [("x", F.ct_sort(ka.args[0][0])), ("y", F.ct_sort(ka.args[1][0]))]

            def fnc(K, x, y, an=ka.name, rn=kr.name):
                a, b = K[an](x, y), K[rn](x, y)
                return T.TRUE, T.and_(T.eq(a.ub, b.ub), T.or_(a.ub, T.eq(a.ret, b.ret)))
            fp = F.ct_is_float(ka.args[0][0])
            obs.append(F.Ob("container_compare:%s" % ka.name, xs, fnc, key=ka.key, kernels=[ka.name, kr.name],
                            routes=F.FP_ROUTES if fp else F.CMP_ROUTES,
                            note="relational comparison of std::pair/tuple holding quantities equals the same comparison on the raw rep, in this configuration "
                                 "(pre-C++20 the library uses the element's <, from C++20 its <=>)"))
        for k in self.parity:
            if K[k.name].kernel.dropped:
                self.notes.append("parity kernel dropped: %s" % K[k.name].kernel.dropped[:120])
                continue

            def pfn(K, name=k.name, kern=k):
                h = K[name]
                if isinstance(h, F.NativeHandle):
                    h()
                    c = h.calls[-1]
                    return T.TRUE, T.const_bool(c.get("value_clang_san") == c.get("value_gxx"))
                e = h()
                if not T.is_const(e.ret):
                    raise F.irparse.IRUnsupported("parity kernel did not fold to a constant")
                nh = self.native_handle(name)
                if nh.rg is None:
                    raise F.irparse.IRUnsupported("no g++ build for this kernel")
                st, v = nh.rg.call(kern, [])
                return T.TRUE, T.const_bool(st == "ok" and v == e.ret.attr)
            obs.append(F.Ob("gcc_clang_parity:" + k.name, [], pfn, kind="closed", key=k.key, kernels=[k.name],
                            note="closed fact: value baked into clang's IR equals the value returned by the g++ -O2 build of the same line"))
        for k in self.alone:
            if K[k.name].kernel.dropped:
                ob = F.Ob("header_alone:%s" % k.key["header"], [], None, kind="closed",
                          key=dict(k.key, compile_error=K[k.name].kernel.dropped[:200]), kernels=[k.name],
                          note="public header must compile on its own (included twice)")
                ob.status = "lowering-failed"
                obs.append(ob)
            else:
                def fn(K, name=k.name):
                    return T.TRUE, K[name]().ret
                obs.append(F.Ob("header_alone:%s" % k.key["header"], [], fn, kind="closed", key=k.key, kernels=[k.name],
                                note="lowering-stage fact: header compiles on its own, included twice"))
        return obs


CHECK = C20
