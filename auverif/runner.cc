// Native kernel runner: dlopen a shared object of kernels (built with uniform byte-buffer shims) and
// serve "name hexinput" requests on stdin, one per line; prints "ok hexoutput".  A sanitizer trap kills
// this process (SIGILL); the parent attributes the death to the in-flight request and restarts.
#include <dlfcn.h>
#include <cstdio>
#include <cstring>
#include <string>
#include <map>
#include <iostream>

typedef void (*shim_t)(const unsigned char*, unsigned char*);

static int hexval(char c) { return c <= '9' ? c - '0' : (c | 32) - 'a' + 10; }

int main(int argc, char** argv) {
    if (argc < 2) return 2;
    void* h = dlopen(argv[1], RTLD_NOW);
    if (!h) { fprintf(stderr, "dlopen: %s\n", dlerror()); return 2; }
    std::map<std::string, shim_t> cache;
    std::string name, hex;
    while (std::cin >> name >> hex) {
        shim_t f;
        auto it = cache.find(name);
        if (it == cache.end()) {
            f = (shim_t)dlsym(h, (name + "__shim").c_str());
            cache[name] = f;
        } else f = it->second;
        if (!f) { printf("nosym\n"); fflush(stdout); continue; }
        unsigned char in[256] = {0}, out[32] = {0};
        if (hex == "-") hex = "";
        for (size_t i = 0; i + 1 < hex.size() && i / 2 < sizeof(in); i += 2)
            in[i / 2] = (unsigned char)(hexval(hex[i]) * 16 + hexval(hex[i + 1]));
        f(in, out);
        printf("ok ");
        for (int i = 0; i < 16; i++) printf("%02x", out[i]);
        printf("\n");
        fflush(stdout);
    }
    return 0;
}
