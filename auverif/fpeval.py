"""Concrete IEEE evaluation on bit patterns (float, double, x87 extended) through numpy.

x86_fp80 values are carried in the 79-bit SMT layout (sign, 15 exponent bits, 63 fraction bits);
the explicit integer bit is reconstructed as (exponent != 0), so pseudo-denormals / unnormals are
outside what can be represented (as stated in DESIGN.md section 1).
"""
import numpy as np

F32, F64, F80 = (8, 24), (11, 53), (15, 64)
_err = dict(all="ignore")


def to_np(fmt, bits):
    if fmt == F32:
        return np.frombuffer(int(bits).to_bytes(4, "little"), dtype=np.float32)[0]
    if fmt == F64:
        return np.frombuffer(int(bits).to_bytes(8, "little"), dtype=np.float64)[0]
    if fmt == F80:
        sign = (bits >> 78) & 1
        exp = (bits >> 63) & 0x7FFF
        frac = bits & ((1 << 63) - 1)
        intbit = 1 if exp != 0 else 0
        raw = (sign << 79) | (exp << 64) | (intbit << 63) | frac
        return np.frombuffer(int(raw).to_bytes(10, "little") + b"\0" * 6, dtype=np.longdouble)[0]
    raise ValueError(fmt)


def from_np(fmt, v):
    if fmt == F32:
        return int.from_bytes(np.float32(v).tobytes(), "little")
    if fmt == F64:
        return int.from_bytes(np.float64(v).tobytes(), "little")
    if fmt == F80:
        raw = int.from_bytes(np.longdouble(v).tobytes()[:10], "little")
        sign = (raw >> 79) & 1
        exp = (raw >> 64) & 0x7FFF
        frac = raw & ((1 << 63) - 1)
        return (sign << 78) | (exp << 63) | frac
    raise ValueError(fmt)


def raw80_to_79(raw):
    sign = (raw >> 79) & 1
    exp = (raw >> 64) & 0x7FFF
    frac = raw & ((1 << 63) - 1)
    return (sign << 78) | (exp << 63) | frac


def is_nan(fmt, bits):
    eb, sb = fmt
    e = (bits >> (sb - 1)) & ((1 << eb) - 1)
    f = bits & ((1 << (sb - 1)) - 1)
    return e == (1 << eb) - 1 and f != 0


def binop(op, fmt, a, b):
    x, y = to_np(fmt, a), to_np(fmt, b)
    with np.errstate(**_err):
        if op == "add":
            r = x + y
        elif op == "sub":
            r = x - y
        elif op == "mul":
            r = x * y
        elif op == "div":
            r = x / y
        elif op == "rem":
            r = np.fmod(x, y)
        else:
            raise ValueError(op)
    return from_np(fmt, r)


def _rna(x):
    t = np.trunc(x)
    d = np.abs(x - t)
    half = type(x)(0.5)
    if d >= half:
        return t + np.copysign(type(x)(1), x)
    return t


def unop(op, fmt, a):
    x = to_np(fmt, a)
    with np.errstate(**_err):
        if op == "sqrt":
            r = np.sqrt(x)
        elif op == "rtz":
            r = np.trunc(x)
        elif op == "rtn":
            r = np.floor(x)
        elif op == "rtp":
            r = np.ceil(x)
        elif op == "rne":
            r = np.rint(x)
        elif op == "rna":
            if np.isnan(x) or np.isinf(x):
                r = x
            else:
                r = np.copysign(_rna(x), x)
        else:
            raise ValueError(op)
    return from_np(fmt, r)


def cmp(pred, fmt, a, b):
    x, y = to_np(fmt, a), to_np(fmt, b)
    un = bool(np.isnan(x) or np.isnan(y))
    base = pred[1:]
    if pred == "ord":
        return not un
    if pred == "uno":
        return un
    with np.errstate(**_err):
        r = {"eq": x == y, "gt": x > y, "ge": x >= y, "lt": x < y, "le": x <= y, "ne": x != y}[base]
    r = bool(r)
    if pred[0] == "o":
        return (not un) and r
    return un or r


_np_ty = {F32: np.float32, F64: np.float64, F80: np.longdouble}


def cvt(f1, f2, a):
    x = to_np(f1, a)
    with np.errstate(**_err):
        r = _np_ty[f2](x)
    return from_np(f2, r)


def from_int(signed, fmt, v, w):
    if signed and (v >> (w - 1)):
        v -= 1 << w
    if w > 64:
        return None
    with np.errstate(**_err):
        if -(1 << 63) <= v < (1 << 63):
            r = _np_ty[fmt](np.int64(v))
        else:
            r = _np_ty[fmt](np.uint64(v))
    return from_np(fmt, r)


def to_int(signed, fmt, a, w):
    x = to_np(fmt, a)
    if np.isnan(x) or np.isinf(x):
        return None
    t = np.trunc(x)
    # exact integer value of t
    if fmt == F80:
        iv = int(t)
    else:
        iv = int(t)
    lo, hi = (-(1 << (w - 1)), (1 << (w - 1)) - 1) if signed else (0, (1 << w) - 1)
    if iv < lo or iv > hi:
        return None
    return iv & ((1 << w) - 1)


def to_fraction(fmt, bits):
    """Exact rational value of a finite pattern (None for inf/nan)."""
    from fractions import Fraction
    eb, sb = fmt
    sign = (bits >> (eb + sb - 1)) & 1
    e = (bits >> (sb - 1)) & ((1 << eb) - 1)
    f = bits & ((1 << (sb - 1)) - 1)
    bias = (1 << (eb - 1)) - 1
    if e == (1 << eb) - 1:
        return None
    if e == 0:
        v = Fraction(f, 1 << (sb - 1)) * Fraction(2) ** (1 - bias)
    else:
        v = (1 + Fraction(f, 1 << (sb - 1))) * Fraction(2) ** (e - bias)
    return -v if sign else v


def from_fraction(fmt, q):
    """Round-to-nearest-even encoding of an exact rational (for oracle constants)."""
    from fractions import Fraction
    eb, sb = fmt
    q = Fraction(q)
    sign = 1 if q < 0 else 0
    q = abs(q)
    bias = (1 << (eb - 1)) - 1
    if q == 0:
        return sign << (eb + sb - 1)
    # find exponent e with 2^e <= q < 2^(e+1)
    e = q.numerator.bit_length() - q.denominator.bit_length()
    if Fraction(2) ** e > q:
        e -= 1
    if Fraction(2) ** (e + 1) <= q:
        e += 1
    emin = 1 - bias
    if e < emin:
        e = emin
    scaled = q / Fraction(2) ** (e - (sb - 1))   # integer significand (with hidden bit) + fraction
    n = scaled.numerator // scaled.denominator
    rem = scaled - n
    if rem > Fraction(1, 2) or (rem == Fraction(1, 2) and (n & 1)):
        n += 1
    if n >= (1 << sb):
        n >>= 1
        e += 1
    if n < (1 << (sb - 1)):     # subnormal
        be = 0
        frac = n
    else:
        be = e + bias
        frac = n - (1 << (sb - 1))
    if be >= (1 << eb) - 1:
        return (sign << (eb + sb - 1)) | (((1 << eb) - 1) << (sb - 1))
    return (sign << (eb + sb - 1)) | (be << (sb - 1)) | frac
