"""Shared machinery: kernel TUs from /repo's working tree -> LLVM IR -> encodings -> obligations ->
solvers -> native replay -> evidence.  See DESIGN.md sections 2-4."""
import concurrent.futures as cf
import hashlib
import json
import os
import random
import re
import shutil
import subprocess
import sys
import tempfile
import time

from . import terms as T
from . import irparse, encode, smt, solve, fpeval

VERIF = os.path.dirname(os.path.dirname(os.path.abspath(__file__)))
REPO = os.environ.get("AU_REPO", "/repo")
INC = os.path.join(REPO, "au", "code")
NCPU = min(16, os.cpu_count() or 4)

CLANG = "clang++-14"
GXX = "g++"
LOWER_FLAGS = ["-O1", "-fno-vectorize", "-fno-slp-vectorize", "-fno-unroll-loops", "-fno-exceptions",
               "-mllvm", "-inline-threshold=100000", "-fno-sanitize=vptr,function,pointer-overflow", "-fsanitize-trap=all",
               "-Wno-everything", "-Werror=c++11-narrowing", "-fconstexpr-steps=30000000"]
COMPILE_TIMEOUT = 300
SAN_UB = "-fsanitize=undefined"
SAN_WRAP = "-fsanitize=undefined,unsigned-integer-overflow"

CTYPES = {
    "int8_t": ("s", 8, 1), "uint8_t": ("u", 8, 1), "int16_t": ("s", 16, 2), "uint16_t": ("u", 16, 2),
    "int32_t": ("s", 32, 4), "uint32_t": ("u", 32, 4), "int64_t": ("s", 64, 8), "uint64_t": ("u", 64, 8),
    "int": ("s", 32, 4), "unsigned": ("u", 32, 4), "long": ("s", 64, 8), "unsigned long": ("u", 64, 8),
    "bool": ("b", 1, 1), "float": ("f", 32, 4), "double": ("f", 64, 8), "long double": ("f", 79, 16),
    "char": ("s", 8, 1), "size_t": ("u", 64, 8), "uintmax_t": ("u", 64, 8), "intmax_t": ("s", 64, 8),
    "long long": ("s", 64, 8), "unsigned long long": ("u", 64, 8),
}
# integral types that are distinct C++ types of the same width as a fixed-width typedef on LP64 (int64_t is long): type-identity
# dispatch (is_same with intmax_t etc.) can treat them differently from int64_t/uint64_t
TWIN_INT_REPS = ["long long", "unsigned long long"]
INT_REPS = ["int8_t", "uint8_t", "int16_t", "uint16_t", "int32_t", "uint32_t", "int64_t", "uint64_t"]
FLOAT_REPS = ["float", "double", "long double"]
ALL_REPS = INT_REPS + FLOAT_REPS
FMT_OF = {"float": T.FMT["float"], "double": T.FMT["double"], "long double": T.FMT["x86_fp80"]}


def ct_sort(ct):
    k, w, _ = CTYPES[ct]
    return T.BOOL if k == "b" else T.BV(w)


def ct_signed(ct):
    return CTYPES[ct][0] == "s"


def ct_is_float(ct):
    return CTYPES[ct][0] == "f"


def ct_range(ct):
    k, w, _ = CTYPES[ct]
    if k == "s":
        return -(1 << (w - 1)), (1 << (w - 1)) - 1
    if k == "u":
        return 0, (1 << w) - 1
    raise ValueError(ct)


def promoted(ct):
    """C++ integer promotion of the arithmetic type on x86-64."""
    k, w, _ = CTYPES[ct]
    if k in "su" and w < 32:
        return "int32_t"
    return ct


def ival(ct, t):
    """mathematical integer value of a BV term interpreted as C type ct"""
    return T.sval(t) if ct_signed(ct) else T.uval(t)


def pack(ct, v):
    k, w, size = CTYPES[ct]
    if k == "b":
        return bytes([1 if v else 0])
    if k == "f" and w == 79:
        sign = (v >> 78) & 1
        exp = (v >> 63) & 0x7FFF
        frac = v & ((1 << 63) - 1)
        raw = (sign << 79) | (exp << 64) | ((1 if exp else 0) << 63) | frac
        return raw.to_bytes(10, "little") + b"\0" * 6
    return int(v & ((1 << w) - 1)).to_bytes(size, "little")


def unpack(ct, b):
    k, w, size = CTYPES[ct]
    if k == "b":
        return bool(b[0] & 1) if b[0] in (0, 1) else ("badbool", b[0])
    if k == "f" and w == 79:
        return fpeval.raw80_to_79(int.from_bytes(b[:10], "little"))
    return int.from_bytes(b[:size], "little")


class Kernel:
    def __init__(self, name, ret, args, body, key=None, mode="ub", family=None, std=None, native=True):
        self.std = std
        self.native = native          # False: closed compile-time facts; no native build / translator validation
        self.prelude = None           # optional per-kernel prelude override (used when kernels of several checks are mixed)
        self.variant = None           # optional {"id":..., "includes":..., "inc_dirs":[...]} build configuration (C20)
        self.name = name
        self.ret = ret
        self.args = list(args)        # [(ctype, argname)]
        self.body = body              # C++ statements, single line
        self.key = key or {}
        self.mode = mode              # 'ub' | 'wrap'
        self.family = family or name
        self.dropped = None

    def line(self):
        a = ", ".join("%s %s" % (t, n) for t, n in self.args)
        return 'EXPORT %s %s(%s){ %s }' % (self.ret, self.name, a, self.body)

    def shim(self):
        s = ['extern "C" void %s__shim(const unsigned char* in, unsigned char* out){' % self.name]
        for i, (t, n) in enumerate(self.args):
            s.append("%s a%d; std::memcpy(&a%d, in+%d, sizeof a%d);" % (t, i, i, 16 * i, i))
        call = "%s(%s)" % (self.name, ", ".join("a%d" % i for i in range(len(self.args))))
        s.append("%s r = %s; std::memcpy(out, &r, sizeof r); }" % (self.ret, call))
        return " ".join(s)


def std_includes():
    units = sorted(f for f in os.listdir(os.path.join(INC, "au", "units"))
                   if f.endswith(".hh") and not f.endswith("_fwd.hh"))
    consts = sorted(f for f in os.listdir(os.path.join(INC, "au", "constants"))
                    if f.endswith(".hh") and not f.endswith("_fwd.hh"))
    inc = ['#include "au/au.hh"']
    inc += ['#include "au/units/%s"' % u for u in units]
    inc += ['#include "au/constants/%s"' % c for c in consts]
    return "\n".join(inc)


PRELUDE_HEAD = """#include <cstdint>
#include <cstring>
#include <cmath>
#include <chrono>
#include <limits>
#include <type_traits>
%(includes)s
using namespace au;
#define EXPORT extern "C" __attribute__((noinline))
"""


class Chunk:
    """One translation unit."""

    def __init__(self, idx, kernels, prelude, includes, workdir, std="c++14", mode="ub", inc_dirs=None):
        self.idx = idx
        self.kernels = kernels
        self.prelude = prelude
        self.includes = includes
        self.dir = workdir
        self.std = std
        self.mode = mode
        self.inc_dirs = inc_dirs or [INC]
        self.src = os.path.join(workdir, "k%d.cc" % idx)
        self.ll = os.path.join(workdir, "k%d.ll" % idx)
        self.module = None
        self.log = []
        self.compile_s = 0.0
        self.runners = {}

    def write(self):
        if getattr(self, "bare", False):
            head = self.includes + '\n#define EXPORT extern "C" __attribute__((noinline))\n'
        else:
            head = PRELUDE_HEAD % {"includes": self.includes} + self.prelude + "\n"
        lines = head.split("\n")
        self.line_of = {}
        for k in self.kernels:
            if k.dropped:
                lines.append("// dropped %s: %s" % (k.name, k.dropped.replace("\n", " ")[:200]))
            else:
                lines.append(k.line())
                self.line_of[len(lines)] = k
        lines.append("#ifdef AUV_NATIVE")
        for k in self.kernels:
            if not k.dropped:
                lines.append(k.shim())
        lines.append("#endif")
        with open(self.src, "w") as f:
            f.write("\n".join(lines) + "\n")

    def incflags(self):
        out = []
        for d in self.inc_dirs:
            out += ["-I", d]
        return out

    def lower(self):
        """write, compile to IR; drop out-of-domain kernels to a fixpoint."""
        t0 = time.time()
        san = SAN_WRAP if self.mode == "wrap" else SAN_UB
        for _ in range(48):
            self.write()
            cmd = [CLANG, "-std=" + self.std, san] + LOWER_FLAGS + ["-ferror-limit=0"] + self.incflags() + \
                  ["-S", "-emit-llvm", self.src, "-o", self.ll]
            try:
                p = subprocess.run(cmd, stdout=subprocess.PIPE, stderr=subprocess.PIPE, universal_newlines=True,
                                   timeout=COMPILE_TIMEOUT)
            except subprocess.TimeoutExpired:
                self.fatal = "compiler did not finish within %d s (constexpr evaluation?)" % COMPILE_TIMEOUT
                self.compile_s = time.time() - t0
                return False
            if p.returncode == 0:
                break
            # map diagnostics to kernels
            dropped = self.map_diagnostics(p.stderr)
            if not dropped:
                self.fatal = p.stderr[-3000:]
                self.compile_s = time.time() - t0
                return False
        else:
            self.fatal = "domain-drop did not reach a fixpoint"
            return False
        self.fatal = None
        self.compile_s = time.time() - t0
        txt = open(self.ll).read()
        self.module = parse_module_tolerant(txt)
        return True

    def map_diagnostics(self, err):
        base = os.path.basename(self.src)
        groups = []
        cur = None
        for line in err.splitlines():
            m = re.match(r"(.*?):(\d+):(\d+): (fatal error|error|note|warning): (.*)$", line)
            if not m:
                continue
            fn, ln, _, kind, msg = m.groups()
            if kind in ("error", "fatal error"):
                cur = {"msg": msg, "lines": []}
                groups.append(cur)
            if cur is not None and os.path.basename(fn) == base:
                cur["lines"].append(int(ln))
        n = 0
        for g in groups:
            hit = None
            for ln in g["lines"]:
                if ln in self.line_of:
                    hit = self.line_of[ln]
                    break
            if hit is not None and not hit.dropped:
                hit.dropped = "does not compile: " + g["msg"]
                n += 1
        return n

    # ---- native builds
    def build_native(self, kind):
        """kind: 'gxx' (g++ -O2, values), 'san' (clang -O1 + sanitizer traps for this chunk's mode)."""
        so = os.path.join(self.dir, "k%d_%s.so" % (self.idx, kind))
        if kind == "gxx":
            cmd = [GXX, "-std=" + self.std.replace("c++", "gnu++").replace("gnu++", "c++"), "-O2", "-w", "-fconstexpr-ops-limit=2000000000", "-fconstexpr-loop-limit=100000000", "-fPIC", "-shared",
                   "-fno-exceptions", "-DAUV_NATIVE"] + self.incflags() + [self.src, "-o", so]
        else:
            san = SAN_WRAP if self.mode == "wrap" else SAN_UB
            cmd = [CLANG, "-std=" + self.std, "-O1", "-Wno-everything", "-Werror=c++11-narrowing", "-fconstexpr-steps=30000000", "-fPIC", "-shared", "-fno-exceptions", san,
                   "-fno-sanitize=vptr,function,pointer-overflow", "-fsanitize-trap=all", "-DAUV_NATIVE"] + \
                  self.incflags() + [self.src, "-o", so]
        t0 = time.time()
        try:
            p = subprocess.run(cmd, stdout=subprocess.PIPE, stderr=subprocess.PIPE, universal_newlines=True,
                               timeout=COMPILE_TIMEOUT)
        except subprocess.TimeoutExpired:
            return None, "native build timed out"
        if p.returncode != 0:
            return None, p.stderr[-2000:]
        return so, time.time() - t0


def parse_module_tolerant(txt):
    """Parse function by function so that one unsupported body only rejects that kernel."""
    mod = irparse.Module()
    # split into top-level pieces
    pieces = []
    cur = None
    header = []
    for line in txt.splitlines():
        if line.startswith("define"):
            cur = [line]
        elif cur is not None:
            cur.append(line)
            if line == "}":
                pieces.append(cur)
                cur = None
        else:
            header.append(line)
    hm = irparse.parse_module("\n".join(header))
    mod.globals = hm.globals
    mod.declares = hm.declares
    for p in pieces:
        try:
            m1 = irparse.parse_module("\n".join(p))
            mod.functions.update(m1.functions)
        except (irparse.IRUnsupported, Exception) as e:   # noqa
            m = re.search(r"@([\w.$\"]+)\(", p[0])
            f = irparse.Function(m.group(1) if m else "?", None, [])
            f.error = "IR parse: %s" % e
            mod.functions[f.name] = f
    return mod


RUNNER_BIN = os.path.join(VERIF, "build", "runner")


def ensure_runner():
    if os.path.exists(RUNNER_BIN):
        return
    os.makedirs(os.path.dirname(RUNNER_BIN), exist_ok=True)
    tmp = RUNNER_BIN + ".%d" % os.getpid()
    subprocess.check_call([GXX, "-O1", "-o", tmp, os.path.join(VERIF, "auverif", "runner.cc"), "-ldl"])
    os.replace(tmp, RUNNER_BIN)


class Runner:
    """Pipe to a native runner process; detects sanitizer traps as process death."""

    def __init__(self, so):
        self.so = so
        self.p = None

    def start(self):
        self.p = subprocess.Popen([RUNNER_BIN, self.so], stdin=subprocess.PIPE, stdout=subprocess.PIPE,
                                  stderr=subprocess.DEVNULL, universal_newlines=True, bufsize=1)

    def call(self, kernel, argvals):
        if self.p is None or self.p.poll() is not None:
            self.start()
        buf = b""
        for (ct, _), v in zip(kernel.args, argvals):
            b = pack(ct, v)
            buf += b + b"\0" * (16 - len(b))
        try:
            self.p.stdin.write("%s %s\n" % (kernel.name, buf.hex() or "-"))
            self.p.stdin.flush()
            line = self.p.stdout.readline()
        except BrokenPipeError:
            line = ""
        if not line:
            self.p.wait()
            rc = self.p.returncode
            self.p = None
            return ("trap", rc)
        if line.startswith("ok "):
            return ("ok", unpack(kernel.ret, bytes.fromhex(line[3:].strip())))
        return ("error", line.strip())

    def close(self):
        if self.p is not None and self.p.poll() is None:
            try:
                self.p.stdin.close()
                self.p.wait(timeout=5)
            except Exception:   # noqa
                self.p.kill()
        self.p = None


class SymHandle:
    """Symbolic kernel: call with argument terms -> Enc (cached per argument tuple)."""

    def __init__(self, kernel, chunk, opts):
        self.kernel = kernel
        self.chunk = chunk
        self.opts = opts
        self.cache = {}
        self.error = None

    @property
    def ok(self):
        return self.kernel.dropped is None and self.error is None

    def __call__(self, *args, **kw):
        if self.kernel.dropped:
            raise irparse.IRUnsupported("kernel %s was dropped: %s" % (self.kernel.name, self.kernel.dropped[:160]))
        key = tuple(a.uid for a in args) + tuple(sorted((k, tuple(sorted(v.items())) if isinstance(v, dict) else v)
                                                        for k, v in kw.items() if not callable(v)))
        if key in self.cache:
            return self.cache[key]
        o = dict(self.opts)
        o.update(kw)
        e = encode.encode_kernel(self.chunk.module, self.kernel.name, list(args), **o)
        # i1 returns are Bool terms already; bool C type maps to zeroext i1
        self.cache[key] = e
        return e


class NativeHandle:
    """Concrete kernel: call with constant terms -> Enc-like object from native execution."""

    def __init__(self, kernel, runner_san, runner_gxx):
        self.kernel = kernel
        self.rs = runner_san
        self.rg = runner_gxx
        self.calls = []

    ok = True

    def __call__(self, *args, **kw):
        vals = [a.attr for a in args]
        st, v = self.rs.call(self.kernel, vals)
        rec = {"kernel": self.kernel.name, "inputs": vals, "san": st}
        if st == "trap":
            rec["ub"] = True
            self.calls.append(rec)
            so = ct_sort(self.kernel.ret)
            dummy = T.FALSE if so == T.BOOL else T.const_bv(0, so[1])
            return encode.Enc(dummy, T.TRUE, T.FALSE, {})
        st2, v2 = self.rg.call(self.kernel, vals) if self.rg else (st, v)
        rec["value_clang_san"] = v
        rec["value_gxx"] = v2
        self.calls.append(rec)
        so = ct_sort(self.kernel.ret)
        t = T.const_bool(bool(v)) if so == T.BOOL else T.const_bv(v, so[1])
        return encode.Enc(t, T.FALSE, T.FALSE, {})


class Ob:
    """Obligation: for all vars: pre => post  (decided as unsat of pre & !post), or a witness (sat expected)."""

    def __init__(self, name, vars, fn, kind="claimed", expect="unsat", routes=None, key=None, kernels=(),
                 timeout=None, note=""):
        self.name = name
        self.vars = vars          # [(name, sort)]
        self.fn = fn              # fn(K, *var_terms) -> (pre, post)   [witness: post is the thing to satisfy]
        self.kind = kind          # claimed | stretch | closed
        self.expect = expect
        self.routes = routes
        self.key = key or {}
        self.kernels = list(kernels)
        self.timeout = timeout
        self.note = note
        # results
        self.status = None
        self.route = None
        self.secs = 0.0
        self.attempts = []
        self.trivial = False
        self.model = None
        self.detail = ""


INT_ROUTES = ["z3-int", "cvc5-bvint", "cvc5-int", "z3-bv"]
CMP_ROUTES = ["z3-bv", "cvc5-bv", "z3-int"]
FP_ROUTES = ["z3-bv", "cvc5-bv"]


class Violation(Exception):
    pass


class Inconclusive(Exception):
    pass


def boundary_inputs(ct, rng, extra=()):
    k, w, _ = CTYPES[ct]
    out = []
    if k == "b":
        return [0, 1]
    if k in "su":
        lo, hi = ct_range(ct)
        cand = [0, 1, 2, 3, 7, 10, 100, 127, 128, 255, 256, 1000, 2147, 2148, 32767, 32768, 65535, 65536,
                hi, hi - 1, hi // 2, hi // 2 + 1, lo, lo + 1, -1, -2, -3, -10, -128, -129, -1000, -2147]
        for p in (15, 16, 31, 32, 62, 63):
            cand += [(1 << p) - 1, 1 << p, (1 << p) + 1, -(1 << p), -(1 << p) - 1]
        cand += list(extra)
        for c in cand:
            if lo <= c <= hi:
                out.append(c & ((1 << w) - 1))
        for _ in range(6):
            bits = rng.randrange(1, w + 1)
            out.append(rng.getrandbits(bits) & ((1 << w) - 1))
            out.append((-rng.getrandbits(bits)) & ((1 << w) - 1) if k == "s" else rng.getrandbits(w))
        return list(dict.fromkeys(out))
    fmt = FMT_OF[ct]
    from fractions import Fraction
    vals = [0, 1, -1, 2, 3, Fraction(1, 2), Fraction(1, 3), Fraction(5, 2), Fraction(-7, 2), 1000, 2147, 127, 128, 255, 256,
            32767, 32768, 65535, 65536, 2 ** 31 - 1, 2 ** 31, 2 ** 31 + 1, 2 ** 32, 2 ** 63, 2 ** 64,
            -2 ** 31, -2 ** 31 - 1, -2 ** 63, Fraction(1, 10), 1e10, 1e20, 1e30, Fraction(3, 1000)]
    vals += list(extra)
    for v in vals:
        b = fpeval.from_fraction(fmt, Fraction(v))
        out += [b, T._BV_FOLD["bvadd"](b, 1, 128), max(b - 1, 0)]
    eb, sb = fmt
    wd = eb + sb
    inf = ((1 << eb) - 1) << (sb - 1)
    out += [inf, inf | (1 << (wd - 1)), inf | 1, inf | (1 << (sb - 2)), 1 << (wd - 1), 1, inf - 1,
            (inf - 1) | (1 << (wd - 1)), 1 << (sb - 1)]
    for _ in range(8):
        out.append(rng.getrandbits(wd))
    out = [o & ((1 << wd) - 1) for o in out]
    return list(dict.fromkeys(out))


class Check:
    """Base class for a property check. Subclasses define pid, level, and override kernels()/obligations()."""
    pid = None
    level = "model_checking"
    title = ""
    assumptions = []
    rule = ""
    includes = None         # None -> std_includes()
    std = "c++14"
    chunk_size = 120
    encode_opts = {}
    validate_inputs = 14    # per kernel cap of boundary inputs in translator validation
    quick_timeout = 20
    thorough_timeout = 60

    def __init__(self, tier, seed):
        self.tier = tier
        self.seed = seed
        self.rng = random.Random(seed)
        self.t0 = time.time()
        self.workdir = tempfile.mkdtemp(prefix="auverif_%s_" % self.pid)
        self.prelude = ""
        self.chunks = []
        self.K = {}
        self.obs = []
        self.stats = {"kernels_generated": 0, "kernels_dropped_by_domain": 0, "kernels_rejected_by_encoder": 0,
                      "compile_s": 0.0, "native_build_s": 0.0, "solver_s": {}, "validated_points": 0,
                      "validated_kernels": 0}
        self.findings_hit = []
        self.violations = []
        self.inconclusive = []
        self.notes = []
        self.extra_cov = {}

    # ---- to be provided by subclasses
    def kernels(self):
        return []

    def obligations(self, K):
        return []

    def known_predicates(self):
        """finding id -> function(ob, var_terms) -> Bool term describing the known failing inputs"""
        return {}

    # ---- pipeline
    def cleanup(self):
        for c in self.chunks:
            for r in c.runners.values():
                r.close()
        shutil.rmtree(self.workdir, ignore_errors=True)

    def make_chunks(self, kernels):
        includes = self.includes if self.includes is not None else std_includes()
        by_mode = {}
        variants = {}
        preludes = {}
        for k in kernels:
            vid = k.variant["id"] if k.variant else ""
            if k.variant:
                variants[vid] = k.variant
            pre = self.prelude if k.prelude is None else k.prelude
            ph = hashlib.sha1(pre.encode()).hexdigest()[:8]
            preludes[ph] = pre
            by_mode.setdefault((k.mode, k.std or self.std, k.native, vid, ph), []).append(k)
        chunks = []
        for (mode, std, native, vid, ph), ks in sorted(by_mode.items()):
            n = max(1, min(len(ks), (len(ks) + self.chunk_size - 1) // self.chunk_size))
            n = max(n, min(NCPU, len(ks) // 24)) if len(ks) >= 48 else n
            per = (len(ks) + n - 1) // n
            var = variants.get(vid)
            for i in range(0, len(ks), per):
                ch = Chunk(len(self.chunks) + len(chunks), ks[i:i + per], preludes[ph],
                           var["includes"] if var else includes, self.workdir, std=std, mode=mode,
                           inc_dirs=var.get("inc_dirs") if var else None)
                ch.native = native
                chunks.append(ch)
        return chunks

    def lower_all(self, kernels, native=True):
        self.stats["kernels_generated"] += len(kernels)
        chunks = self.make_chunks(kernels)
        t0 = time.time()
        with cf.ThreadPoolExecutor(NCPU) as ex:
            oks = list(ex.map(lambda c: c.lower(), chunks))
        self.stats["compile_s"] += time.time() - t0
        for c, ok in zip(chunks, oks):
            if not ok:
                raise Inconclusive("kernel TU does not compile (not attributable to a single kernel):\n" + (c.fatal or ""))
        if native:
            ensure_runner()
            t0 = time.time()
            jobs = [(c, kind) for c in chunks if getattr(c, "native", True) for kind in ("san", "gxx")]
            with cf.ThreadPoolExecutor(NCPU) as ex:
                res = list(ex.map(lambda j: j[0].build_native(j[1]), jobs))
            for (c, kind), (so, info) in zip(jobs, res):
                if so is None:
                    if kind == "gxx":
                        # g++ may reject what clang accepts (or vice versa); value comparison then uses clang only
                        self.notes.append("g++ native build failed for chunk %d: %s" % (c.idx, str(info)[-300:]))
                        continue
                    raise Inconclusive("native sanitized build failed: %s" % info)
                c.runners[kind] = Runner(so)
            self.stats["native_build_s"] += time.time() - t0
        for c in chunks:
            for k in c.kernels:
                if k.dropped:
                    self.stats["kernels_dropped_by_domain"] += 1
                h = SymHandle(k, c, getattr(k, "enc_opts", None) or self.encode_opts)
                self.K[k.name] = h
        self.chunks += chunks
        return chunks

    def native_handle(self, name):
        h = self.K[name]
        c = h.chunk
        if "san" not in c.runners:
            ensure_runner()
            for kind in ("san", "gxx"):
                so, info = c.build_native(kind)
                if so is not None:
                    c.runners[kind] = Runner(so)
                elif kind == "san":
                    raise Inconclusive("native sanitized build failed: %s" % info)
        return NativeHandle(h.kernel, c.runners["san"], c.runners.get("gxx"))

    # ---- translator validation
    def validate_translator(self):
        """Evaluate each kernel's encoding on concrete inputs and compare with native execution."""
        bad = []
        npoints = 0
        nk = 0
        for name, h in self.K.items():
            k = h.kernel
            if k.dropped or not k.args and False:
                continue
            if "san" not in h.chunk.runners:
                continue
            try:
                vs = [T.var("v!%s!%d" % (k.name, i), ct_sort(ct)) for i, (ct, _) in enumerate(k.args)]
                enc = h(*vs)
            except irparse.IRUnsupported as e:
                h.error = str(e)
                continue
            except Exception as e:   # noqa
                h.error = "encoder exception: %r" % (e,)
                continue
            per_arg = [boundary_inputs(ct, self.rng, self.validation_extra(k))[:] for ct, _ in k.args]
            points = []
            if not k.args:
                points = [[]]
            else:
                n = self.validate_inputs
                for i in range(n):
                    points.append([self.rng.choice(pa) if i >= 4 else pa[min(i, len(pa) - 1)] for pa in per_arg])
                # make sure the first few boundary values of each arg are seen
                for j, pa in enumerate(per_arg):
                    for v in pa[:8]:
                        p = [self.rng.choice(q) for q in per_arg]
                        p[j] = v
                        points.append(p)
                points = points[: max(self.validate_inputs, 8 * len(per_arg))]
            nh = self.native_handle(name)
            nk += 1
            for p in points:
                env = {"v!%s!%d" % (k.name, i): (bool(v) if ct_sort(k.args[i][0]) == T.BOOL else v)
                       for i, v in enumerate(p)}
                try:
                    unw = smt.evaluate(enc.unwind, env)
                    if unw:
                        continue
                    ub = smt.evaluate(enc.ub, env)
                    val = smt.evaluate(enc.ret, env) if enc.ret is not None else None
                except KeyError as e:
                    if "beyond!" in str(e) or "freeze!" in str(e):
                        continue
                    bad.append((name, p, "evaluator exception %r" % (e,)))
                    break
                except Exception as e:   # noqa
                    bad.append((name, p, "evaluator exception %r" % (e,)))
                    break
                if unw:
                    continue
                st, nv = nh.rs.call(k, p)
                npoints += 1
                if ub is None:
                    continue
                if ub:
                    if st != "trap":
                        # Only sanitizer trap blocks are guaranteed to trap natively.  UB that exists only at IR level
                        # (poison from llvm.abs(INT_MIN), nsw/nuw flags the optimiser attached, ...) is not instrumented.
                        trapped = False
                        for cond, why in enc.ub_items:
                            if ("trap" in why or "unreachable" in why) and smt.evaluate(cond, env):
                                trapped = True
                                break
                        if trapped:
                            bad.append((name, p, "encoding reaches a sanitizer trap block, native sanitized run returned %r" % (nv,)))
                        else:
                            self.stats["uninstrumented_ub_points"] = self.stats.get("uninstrumented_ub_points", 0) + 1
                    continue
                if st == "trap":
                    bad.append((name, p, "native sanitized run trapped, encoding says no UB"))
                    continue
                if val is None:
                    continue
                if not same_value(k.ret, val, nv):
                    bad.append((name, p, "value mismatch: encoding %r native(clang) %r" % (val, nv)))
                    continue
                if nh.rg is not None:
                    st2, gv = nh.rg.call(k, p)
                    if st2 == "ok" and not same_value(k.ret, val, gv):
                        bad.append((name, p, "value mismatch: encoding %r native(g++) %r" % (val, gv)))
        self.stats["validated_points"] += npoints
        self.stats["validated_kernels"] += nk
        return bad

    def validation_extra(self, k):
        return ()

    # ---- obligations
    def run_obligations(self, obs):
        timeout = self.quick_timeout if self.tier == "quick" else self.thorough_timeout

        # term construction is not thread-safe (shared hash-cons table): build sequentially, solve in parallel
        prepared = []
        for ob in obs:
            prepared.append(ob)
        # Build assertion terms sequentially
        built = []
        for ob in prepared:
            if ob.status is not None or ob.fn is None:
                continue
            try:
                vs = [T.var(n, s) for n, s in ob.vars]
                pre, post = ob.fn(self.K, *vs)
                ob._vars = vs
                asr = T.and_(pre, post) if ob.expect == "sat" else T.and_(pre, T.not_(post))
                ob._asr = asr
                if T.is_const(asr):
                    ob.trivial = True
                    ob.status = "sat" if asr.attr else "unsat"
                    ob.route = "simplified"
                    ob.model = [0] * len(ob.vars) if asr.attr else None   # constant-true assertion: every assignment is a model
                    continue
                routes = ob.routes or INT_ROUTES
                texts = {}
                for r in routes:
                    em = solve.ROUTES[r][0]
                    if em in texts:
                        continue
                    try:
                        texts[em] = smt.emit(em, [asr], vs)
                    except smt.EmitUnsupported:
                        texts[em] = None
                ob._texts = texts
                built.append(ob)
            except irparse.IRUnsupported as e:
                ob.status = "rejected"
                ob.detail = str(e)
            except smt.EmitUnsupported as e:
                ob.status = "rejected"
                ob.detail = "emit: " + str(e)
            except Exception as e:   # noqa  (an obligation builder that cannot cope with this tree's IR: undecided, not fatal)
                ob.status = "rejected"
                ob.detail = "obligation builder raised %s: %s" % (type(e).__name__, str(e)[:300])

        def solve_one(ob):
            routes = ob.routes or INT_ROUTES
            to = ob.timeout or timeout
            r = solve.solve(None, ob._vars, routes, to, self.workdir, texts=ob._texts)
            ob.status, ob.route, ob.secs, ob.attempts, ob.model = r.status, r.route, r.secs, r.attempts, r.model
            if self.tier == "thorough" and ob.kind == "claimed" and ob.expect == "unsat" and r.status == "unsat":
                others = [x for x in routes if x != r.route and ob._texts.get(solve.ROUTES[x][0])][:1]
                if others:
                    # second opinion under a short cap: an unanswered second route is recorded, it does not block
                    r2 = solve.solve(None, ob._vars, others, min(to, 12), self.workdir, texts=ob._texts)
                    ob.attempts += r2.attempts
                    ob.secs += r2.secs
                    ob.second = r2.status
                    if r2.status == "sat":
                        ob.status = "disagree"
            ob._texts = None
            return ob

        with cf.ThreadPoolExecutor(NCPU) as ex:
            list(ex.map(solve_one, built))
        # second chance for obligations that ran out of (wall-clock) time while 16 solvers shared a possibly loaded machine:
        # re-ask them a few at a time with four times the budget; anything still undecided stays undecided
        late = [ob for ob in built if ob.status not in ("unsat", "sat", "rejected", "disagree") and ob.kind != "stretch" and getattr(ob, "_vars", None) is not None]
        if late:
            for ob in late:
                try:
                    routes = ob.routes or INT_ROUTES
                    ob._texts = {}
                    for r in routes:
                        em = solve.ROUTES[r][0]
                        if em not in ob._texts:
                            try:
                                ob._texts[em] = smt.emit(em, [ob._asr], ob._vars)
                            except smt.EmitUnsupported:
                                ob._texts[em] = None
                except Exception:   # noqa
                    ob._texts = None

            def solve_late(ob):
                if not ob._texts:
                    return ob
                first = list(ob.attempts)
                to = (ob.timeout or timeout) * 4
                r = solve.solve(None, ob._vars, ob.routes or INT_ROUTES, to, self.workdir, texts=ob._texts)
                ob.status, ob.route, ob.secs, ob.model = r.status, r.route, ob.secs + r.secs, r.model
                ob.attempts = first + r.attempts
                ob._texts = None
                return ob
            with cf.ThreadPoolExecutor(4) as ex:
                list(ex.map(solve_late, late))
            self.extra_cov["obligations_decided_on_second_attempt"] = sum(1 for ob in late if ob.status in ("unsat", "sat"))
        for ob in obs:
            for route, st, secs in ob.attempts:
                d = self.stats["solver_s"].setdefault(route, [0, 0.0])
                d[0] += 1
                d[1] += secs
        return obs

    # ---- replay of a sat model against the native build
    def witness_candidates(self, ob, limit=400):
        """candidate input tuples (python ints per obligation variable) for the native witness search: boundary values per variable width,
        plus angle-like and large floating values"""
        import itertools
        per = []
        for (n, so) in ob.vars:
            if so == T.BOOL:
                per.append([0, 1])
                continue
            w = so[1]
            ct = {8: "int8_t", 16: "int16_t", 32: "int32_t", 64: "int64_t"}.get(w)
            vals = []
            if ct:
                vals += boundary_inputs(ct, self.rng)[:40]
            fct = {32: "float", 64: "double", 79: "long double"}.get(w)
            if fct:
                from fractions import Fraction
                vals += boundary_inputs(fct, self.rng, extra=(360, 270, 540, -540, 180, 181, 90, 720, Fraction(10 ** 15 + 90), 1e6 + 0.5, -1e9))[:120]
            per.append(list(dict.fromkeys(vals)) or [0])
        out = []
        if len(per) == 1:
            out = [[v] for v in per[0]]
        else:
            for i in range(max(len(p_) for p_ in per)):
                out.append([p_[i % len(p_)] for p_ in per])
            for combo in itertools.islice(itertools.product(*[p_[:12] for p_ in per]), limit):
                out.append(list(combo))
        return out[:limit]

    def replay(self, ob, model):
        vs = []
        for (n, s), v in zip(ob.vars, model):
            vs.append(T.const_bool(bool(v)) if s == T.BOOL else
                      (T.const_int(v) if s == T.INT else T.const_bv(v, s[1])))
        handles = {}

        class NK(dict):
            def __missing__(d, name):
                h = self.native_handle(name)
                d[name] = h
                return h
        nk = NK()
        pre, post = ob.fn(nk, *vs)
        calls = []
        for h in nk.values():
            calls += h.calls
        if not T.is_const(pre):
            pv = smt.evaluate(pre, {})
        else:
            pv = pre.attr
        if not T.is_const(post):
            qv = smt.evaluate(post, {})
        else:
            qv = post.attr
        return pv, qv, calls


def same_value(ct, a, b):
    if isinstance(b, tuple):
        return False
    if ct_is_float(ct):
        fmt = FMT_OF[ct]
        if fpeval.is_nan(fmt, a) and fpeval.is_nan(fmt, b):
            return True
    if ct == "bool":
        return bool(a) == bool(b)
    return a == b
