"""Symbolic execution of one parsed LLVM function into terms.

Result of encode_function: Enc(ret, ub, unwind, stats) where
  ret     term for the returned value (i1 -> Bool, iN -> BV N, float/double/x86_fp80 -> BV 32/64/79)
  ub      Bool term: some undefined behaviour is executed (a sanitizer trap block is reached, an IR-level
          UB condition holds: division by zero, INT_MIN / -1, poison reaching a branch/ret/divisor,
          'unreachable' reached)
  unwind  Bool term: the unwinding / inlining bound was exceeded (must be unsat for a bounded claim)
Poison (nsw/nuw/exact violations, over-wide shifts, out-of-range fptosi/fptoui) is tracked per value
and becomes UB only where LLVM makes it UB.
"""
import re
from . import terms as T
from .irparse import IRUnsupported

FP_TYPES = {"float": T.FMT["float"], "double": T.FMT["double"], "x86_fp80": T.FMT["x86_fp80"]}


def ty_sort(ty):
    if ty == "i1":
        return T.BOOL
    m = re.match(r"i(\d+)$", ty)
    if m:
        return T.BV(int(m.group(1)))
    if ty in FP_TYPES:
        return T.BV(T.fmt_width(FP_TYPES[ty]))
    raise IRUnsupported("type " + ty)


def parse_fp_const(ty, s):
    import struct
    fmt = FP_TYPES[ty]
    if s.startswith("0xK"):
        raw = int(s[3:], 16)
        from .fpeval import raw80_to_79
        return T.const_bv(raw80_to_79(raw), 79)
    if s.startswith("0x"):
        if s[2] in "LMHR":
            raise IRUnsupported("fp const " + s)
        bits = int(s[2:], 16)
    else:
        bits = struct.unpack("<Q", struct.pack("<d", float(s)))[0]
    if ty == "double":
        return T.const_bv(bits, 64)
    if ty == "float":
        d = struct.unpack("<d", struct.pack("<Q", bits))[0]
        f = struct.unpack("<I", struct.pack("<f", d))[0]
        return T.const_bv(f, 32)
    if ty == "x86_fp80":
        from . import fpeval
        return T.const_bv(fpeval.cvt(fpeval.F64, fpeval.F80, bits), 79)
    raise IRUnsupported("fp const type " + ty)


class Val:
    __slots__ = ("t", "p")

    def __init__(self, t, p=T.FALSE):
        self.t = t
        self.p = p


class Agg:
    """struct value: list of Val"""
    __slots__ = ("fields",)

    def __init__(self, fields):
        self.fields = fields


class Ptr:
    """pointer = (object name, element-index term, elem type)"""
    __slots__ = ("obj", "idx", "ety")

    def __init__(self, obj, idx, ety):
        self.obj = obj
        self.idx = idx
        self.ety = ety


class Enc:
    def __init__(self, ret, ub, unwind, stats, ub_items=None):
        self.ret = ret
        self.ub = ub
        self.unwind = unwind
        self.stats = stats
        self.ub_items = ub_items or []


LIBM_UF = {
    "sin", "cos", "tan", "asin", "acos", "atan", "atan2", "fmod", "remainder", "hypot", "cbrt", "exp",
    "log", "pow", "sqrt",
}

_round_intr = {"trunc": "rtz", "floor": "rtn", "ceil": "rtp", "round": "rna", "rint": "rne",
               "nearbyint": "rne", "roundeven": "rne"}


class Encoder:
    def __init__(self, module, unwind=1, inline_depth=4, call_hook=None, width_map=None, extern_hook=None):
        self.extern_hook = extern_hook   # stub for calls to functions that are only declared (I/O, ...): (enc, callee, args, guard) -> value or None
        self.mod = module
        self.unwind = unwind
        self.inline_depth = inline_depth
        self.call_hook = call_hook
        self.width_map = width_map  # e.g. {64: 6} re-interpretation of iN types
        self.ub_items = []
        self.unwind_items = []
        self.fresh = 0
        self.ops = set()
        self.callees = set()
        self.ninstr = 0

    # ---- type helpers
    def sort(self, ty):
        if self.width_map:
            m = re.match(r"i(\d+)$", ty)
            if m and int(m.group(1)) in self.width_map:
                return T.BV(self.width_map[int(m.group(1))])
        return ty_sort(ty)

    def const(self, ty, s, env):
        s = s.strip()
        if s.startswith("%"):
            if s not in env:
                raise IRUnsupported("use of unknown value " + s)
            return env[s]
        if ty == "i1":
            if s in ("true", "1"):
                return Val(T.TRUE)
            if s in ("false", "0"):
                return Val(T.FALSE)
            if s in ("undef", "poison"):
                return Val(T.FALSE, T.TRUE if s == "poison" else T.FALSE)
        so = None
        if re.match(r"i\d+$", ty):
            so = self.sort(ty)
            if re.match(r"-?\d+$", s):
                v = int(s)
                if self.width_map:
                    w0 = int(ty[1:])
                    if w0 in self.width_map:
                        # all-ones (max) and sign constants are re-interpreted at the reduced width
                        if v == -1 or v == (1 << w0) - 1:
                            v = -1
                        elif abs(v) >= (1 << (so[1] - 1)) and v not in (0, 1):
                            raise IRUnsupported("constant %s does not fit reduced width" % s)
                return Val(T.const_bv(v, so[1]))
            if s == "poison":
                return Val(T.const_bv(0, so[1]), T.TRUE)
            if s == "undef":
                # an arbitrary value (e.g. the contents of an object that was never initialised): a fresh unconstrained variable per use
                self.fresh += 1
                return Val(T.var("undef!%d" % self.fresh, T.BV(so[1])))
            if s == "zeroinitializer":
                return Val(T.const_bv(0, so[1]))
        if ty in FP_TYPES:
            if s in ("undef", "poison"):
                return Val(T.const_bv(0, T.fmt_width(FP_TYPES[ty])), T.TRUE if s == "poison" else T.FALSE)
            return Val(parse_fp_const(ty, s))
        if ty.startswith("{") and s.startswith("{"):
            from .irparse import split_top, parse_typed_operand
            fields = []
            for part in split_top(s.strip()[1:-1]):
                ft, fv = parse_typed_operand(part)
                fields.append(self.const(ft, fv, env))
            return Agg(fields)
        if ty.startswith("{"):
            if s in ("undef", "poison", "zeroinitializer"):
                ftys = [x.strip() for x in ty.strip("{} ").split(",")]
                return Agg([self.const(ft, "0" if s == "zeroinitializer" else s, env) if not ft in FP_TYPES
                            else self.const(ft, "0.0" if s == "zeroinitializer" else s, env) for ft in ftys])
        if ty.endswith("*") or ty == "ptr":
            return self.const_ptr(ty, s, env)
        raise IRUnsupported("operand %s %s" % (ty, s))

    def const_ptr(self, ty, s, env):
        if s.startswith("@"):
            return Ptr(s, T.const_bv(0, 64), None)
        m = re.match(r"getelementptr inbounds \((.*)\)$", s)
        if m:
            from .irparse import split_top, parse_typed_operand
            parts = split_top(m.group(1))
            pty, pv = parse_typed_operand(parts[1])
            idx = [parse_typed_operand(p) for p in parts[2:]]
            base = self.const_ptr(pty, pv, env)
            return self.gep(parts[0].strip(), base, [self.const(t_, v_, env) for t_, v_ in idx])
        if s == "null":
            raise IRUnsupported("null pointer")
        raise IRUnsupported("pointer operand " + s)

    def gep(self, base_ty, base, idx_vals):
        # supports [N x T]* with (0, i) and T* with (i)
        m = re.match(r"\[(\d+) x (.*)\]$", base_ty)
        if m and len(idx_vals) == 2:
            if not (T.is_const(idx_vals[0].t) and idx_vals[0].t.attr == 0):
                raise IRUnsupported("gep first index non-zero")
            i = idx_vals[1].t
            return Ptr(base.obj, T.bvop("bvadd", base.idx, T.zext(i, 64) if T.width(i) < 64 else i), m.group(2))
        if len(idx_vals) == 1 and not base_ty.startswith("[") and not base_ty.startswith("{") \
                and not base_ty.startswith("%"):
            i = idx_vals[0].t
            i = T.sext(i, 64) if T.width(i) < 64 else i
            return Ptr(base.obj, T.bvop("bvadd", base.idx, i), base_ty)
        # named single-field struct wrapping one array (au::detail::StringConstant<N> { char[N+1] }): %T* @g with (0, 0, i)
        if base_ty.startswith("%") and len(idx_vals) == 3 and isinstance(base.obj, str) and base.obj in self.mod.globals \
                and all(T.is_const(v.t) and v.t.attr == 0 for v in idx_vals[:2]) and T.is_const(base.idx) and base.idx.attr == 0 \
                and _STRUCT_WRAPPED_ARRAY.search(self.mod.globals[base.obj]):
            data = parse_global_init(self.mod.globals[base.obj])
            if data is not None:
                i = idx_vals[2].t
                return Ptr(base.obj, T.zext(i, 64) if T.width(i) < 64 else i, data[0])
        raise IRUnsupported("gep shape " + base_ty)

    # ---- UB bookkeeping
    def add_ub(self, guard, cond, why):
        c = T.and_(guard, cond)
        if c is not T.FALSE:
            self.ub_items.append((c, why))

    # ---- main entry
    def encode(self, fname, args, depth=0):
        f = self.mod.functions.get(fname)
        if f is None:
            raise IRUnsupported("no such function " + fname)
        if getattr(f, "error", None):
            raise IRUnsupported(f.error)
        if len(args) != len(f.params):
            raise IRUnsupported("arity")
        env0 = {}
        for (pty, pname), a in zip(f.params, args):
            env0[pname] = a if isinstance(a, (Val, Agg, Ptr)) else Val(a)
        return self.run(f, env0, T.TRUE, depth)

    def run(self, f, env0, guard0, depth):
        # DFS for back edges and reverse post order
        succ = {}
        for lab in f.order:
            term = f.blocks[lab][-1]
            if term.op == "br":
                succ[lab] = [term.args[0]]
            elif term.op == "condbr":
                succ[lab] = [term.args[1], term.args[2]]
            elif term.op == "switch":
                succ[lab] = [term.args[1]] + [l for _, l in term.args[2]]
            else:
                succ[lab] = []
        color = {}
        back = set()
        post = []
        stack = [(f.entry, iter(succ[f.entry]))]
        color[f.entry] = 1
        while stack:
            n, it = stack[-1]
            adv = False
            for s in it:
                c = color.get(s, 0)
                if c == 0:
                    color[s] = 1
                    stack.append((s, iter(succ[s])))
                    adv = True
                    break
                elif c == 1:
                    back.add((n, s))
            if not adv:
                color[n] = 2
                post.append(n)
                stack.pop()
        rpo = list(reversed(post))
        K = self.unwind if back else 0
        # incoming[(label,k)] = list of (guard, env, pred_label)
        incoming = {(f.entry, 0): [(guard0, env0, None)]}
        rets = []
        for k in range(K + 1):
            for lab in rpo:
                inc = incoming.pop((lab, k), None)
                if not inc:
                    continue
                guard = T.or_(*[g for g, _, _ in inc])
                if guard is T.FALSE:
                    continue
                env = self.merge(f, lab, inc)
                for ins in f.blocks[lab]:
                    self.ninstr += 1
                    self.ops.add(ins.op)
                    if ins.op == "phi":
                        continue
                    if ins.op == "br":
                        self.edge(incoming, back, K, lab, ins.args[0], k, guard, env)
                    elif ins.op == "condbr":
                        c = self.const("i1", ins.args[0], env)
                        self.add_ub(guard, c.p, "branch on poison")
                        if ins.args[1] == ins.args[2]:
                            self.edge(incoming, back, K, lab, ins.args[1], k, guard, env)
                        else:
                            self.edge(incoming, back, K, lab, ins.args[1], k, T.and_(guard, c.t), env)
                            self.edge(incoming, back, K, lab, ins.args[2], k, T.and_(guard, T.not_(c.t)), env)
                    elif ins.op == "switch":
                        v = self.const(ins.ty, ins.args[0], env)
                        self.add_ub(guard, v.p, "switch on poison")
                        w = T.width(v.t)
                        taken = []
                        for cv, cl in ins.args[2]:
                            c = T.eq(v.t, T.const_bv(int(cv), w))
                            taken.append(c)
                            self.edge(incoming, back, K, lab, cl, k, T.and_(guard, c), env)
                        self.edge(incoming, back, K, lab, ins.args[1], k,
                                  T.and_(guard, T.not_(T.or_(*taken))), env)
                    elif ins.op == "ret":
                        if ins.ty == "void":
                            rets.append((guard, None))
                        else:
                            v = self.const(ins.ty, ins.args[0], env)
                            if isinstance(v, Val):
                                self.add_ub(guard, v.p, "return of poison")
                            rets.append((guard, v))
                    elif ins.op == "unreachable":
                        self.add_ub(guard, T.TRUE, "unreachable/trap")
                    else:
                        self.step(ins, env, guard, depth)
        # any leftover incoming at level K+1 are unwinding failures (handled in edge())
        ret = None
        if rets and rets[0][1] is not None:
            ret = rets[-1][1]
            for g, v in reversed(rets[:-1]):
                ret = self.ite_val(g, v, ret)
        return ret

    def ite_val(self, g, a, b):
        if isinstance(a, Agg):
            return Agg([self.ite_val(g, x, y) for x, y in zip(a.fields, b.fields)])
        if isinstance(a, Ptr):
            if a.obj != b.obj:
                raise IRUnsupported("pointer merge of different objects")
            return Ptr(a.obj, T.ite(g, a.idx, b.idx), a.ety)
        return Val(T.ite(g, a.t, b.t), T.ite(g, a.p, b.p))

    def edge(self, incoming, back, K, src, dst, k, guard, env):
        if guard is T.FALSE:
            return
        k2 = k + 1 if (src, dst) in back else k
        if k2 > K:
            self.unwind_items.append(guard)
            return
        incoming.setdefault((dst, k2), []).append((guard, env, src))

    def merge(self, f, lab, inc):
        # apply phis per incoming edge, then merge environments
        phis = [i for i in f.blocks[lab] if i.op == "phi"]
        envs = []
        for g, env, pred in inc:
            if phis:
                e2 = dict(env)
                for ph in phis:
                    val = None
                    for v, l in ph.args:
                        if l == pred:
                            val = self.const(ph.ty, v, env)
                            break
                    if val is None:
                        raise IRUnsupported("phi without incoming for " + str(pred))
                    e2[ph.res] = val
                envs.append((g, e2))
            else:
                envs.append((g, env))
        if len(envs) == 1:
            return dict(envs[0][1])
        out = {}
        keys = set(envs[0][1].keys())
        for _, e in envs[1:]:
            keys &= set(e.keys())
        for kx in keys:
            vals = [e[kx] for _, e in envs]
            first = vals[0]
            if all(v is first for v in vals):
                out[kx] = first
                continue
            if kx.startswith("mem:"):
                # cell-wise merge of the alloca's contents under the edge guards
                idxs = set(vals[0]["cells"].keys())
                for v in vals[1:]:
                    idxs &= set(v["cells"].keys())
                cells = {}
                for i in idxs:
                    cv = [v["cells"][i] for v in vals]
                    acc = cv[-1]
                    if not all(c is cv[0] for c in cv):
                        for (g, _), c in zip(reversed(envs[:-1]), reversed(cv[:-1])):
                            acc = self.ite_val(g, c, acc)
                    cells[i] = acc
                out[kx] = {"n": first["n"], "ety": first["ety"], "cells": cells}
                continue
            acc = vals[-1]
            for (g, _), v in zip(reversed(envs[:-1]), reversed(vals[:-1])):
                acc = self.ite_val(g, v, acc)
            out[kx] = acc
        return out

    # ---- single instruction
    def step(self, ins, env, guard, depth):
        op = ins.op
        if op in ("add", "sub", "mul", "udiv", "sdiv", "urem", "srem", "and", "or", "xor", "shl", "lshr", "ashr"):
            a = self.const(ins.ty, ins.args[0], env)
            sh = ins.args[1].strip()
            m = re.match(r"i(\d+)$", ins.ty)
            if (self.width_map and op in ("shl", "lshr", "ashr") and m and int(m.group(1)) in self.width_map
                    and re.match(r"\d+$", sh) and int(sh) == int(m.group(1)) - 1):
                # a shift by (width - 1) isolates / replicates the sign bit: re-interpreted as (reduced width - 1)
                b = Val(T.const_bv(self.width_map[int(m.group(1))] - 1, self.width_map[int(m.group(1))]))
            else:
                b = self.const(ins.ty, ins.args[1], env)
            env[ins.res] = self.int_binop(op, ins, a, b, guard)
            return
        if op in ("fadd", "fsub", "fmul", "fdiv"):
            fmt = FP_TYPES[ins.ty]
            a = self.const(ins.ty, ins.args[0], env)
            b = self.const(ins.ty, ins.args[1], env)
            env[ins.res] = Val(T.fp_bin(op[1:], fmt, a.t, b.t), T.or_(a.p, b.p))
            return
        if op == "frem":
            raise IRUnsupported("frem")
        if op == "fneg":
            a = self.const(ins.ty, ins.args[0], env)
            env[ins.res] = Val(T.fp_neg(FP_TYPES[ins.ty], a.t), a.p)
            return
        if op == "icmp":
            a = self.const(ins.ty, ins.args[0], env)
            b = self.const(ins.ty, ins.args[1], env)
            p = ins.extra
            if a.t.sort == T.BOOL:
                if p == "eq":
                    r = T.eq(a.t, b.t)
                elif p == "ne":
                    r = T.ne(a.t, b.t)
                else:
                    aa, bb = T.bool_to_bv(a.t), T.bool_to_bv(b.t)
                    r = T.bvcmp(p, aa, bb)
            elif p == "eq":
                r = T.eq(a.t, b.t)
            elif p == "ne":
                r = T.ne(a.t, b.t)
            else:
                r = T.bvcmp(p, a.t, b.t)
            env[ins.res] = Val(r, T.or_(a.p, b.p))
            return
        if op == "fcmp":
            a = self.const(ins.ty, ins.args[0], env)
            b = self.const(ins.ty, ins.args[1], env)
            env[ins.res] = Val(T.fp_cmp(ins.extra, FP_TYPES[ins.ty], a.t, b.t), T.or_(a.p, b.p))
            return
        if op == "select":
            c = self.const("i1", ins.args[0], env)
            a = self.const(ins.ty, ins.args[1], env)
            b = self.const(ins.ty, ins.args[2], env)
            if isinstance(a, Val):
                env[ins.res] = Val(T.ite(c.t, a.t, b.t), T.or_(c.p, T.ite(c.t, a.p, b.p)))
            else:
                env[ins.res] = self.ite_val(c.t, a, b)
            return
        if op == "freeze":
            a = self.const(ins.ty, ins.args[0], env)
            if a.p is T.FALSE:
                env[ins.res] = a
            else:
                self.fresh += 1
                fv = T.var("freeze!%d" % self.fresh, a.t.sort)
                env[ins.res] = Val(T.ite(a.p, fv, a.t))
            return
        if op in ("zext", "sext", "trunc"):
            a = self.const(ins.extra, ins.args[0], env)
            so = self.sort(ins.ty)
            if a.t.sort == T.BOOL:
                if op == "zext":
                    r = T.ite(a.t, T.const_bv(1, so[1]), T.const_bv(0, so[1]))
                elif op == "sext":
                    r = T.ite(a.t, T.const_bv(-1, so[1]), T.const_bv(0, so[1]))
                else:
                    r = a.t
            elif so == T.BOOL:
                r = T.eq(T.extract(a.t, 0, 0), T.const_bv(1, 1))
            elif so[1] == T.width(a.t):
                r = a.t                      # widths coincide after width re-interpretation
            elif op == "zext":
                if so[1] < T.width(a.t):
                    raise IRUnsupported("zext to a narrower re-interpreted width")
                r = T.zext(a.t, so[1])
            elif op == "sext":
                if so[1] < T.width(a.t):
                    raise IRUnsupported("sext to a narrower re-interpreted width")
                r = T.sext(a.t, so[1])
            else:
                r = T.trunc(a.t, so[1]) if so[1] < T.width(a.t) else T.zext(a.t, so[1])
            env[ins.res] = Val(r, a.p)
            return
        if op in ("fpext", "fptrunc"):
            a = self.const(ins.extra, ins.args[0], env)
            env[ins.res] = Val(T.fp_cvt(FP_TYPES[ins.extra], FP_TYPES[ins.ty], a.t), a.p)
            return
        if op in ("sitofp", "uitofp"):
            a = self.const(ins.extra, ins.args[0], env)
            at = a.t
            if at.sort == T.BOOL:
                at = T.bool_to_bv(at, 1)
                if op == "sitofp":
                    at = T.sext(at, 8)
                else:
                    at = T.zext(at, 8)
            env[ins.res] = Val(T.fp_from_int(op == "sitofp", FP_TYPES[ins.ty], at), a.p)
            return
        if op in ("fptosi", "fptoui"):
            a = self.const(ins.extra, ins.args[0], env)
            fmt = FP_TYPES[ins.extra]
            so = self.sort(ins.ty)
            w = 1 if so == T.BOOL else so[1]
            signed = op == "fptosi"
            r = T.fp_to_int(signed, fmt, a.t, max(w, 2) if so == T.BOOL else w)
            oor = fp_to_int_out_of_range(signed, fmt, a.t, w)
            if so == T.BOOL:
                r = T.eq(T.extract(r, 0, 0), T.const_bv(1, 1))
            env[ins.res] = Val(r, T.or_(a.p, oor))
            return
        if op == "bitcast":
            if ins.extra == ins.ty:
                env[ins.res] = self.const(ins.ty, ins.args[0], env)
                return
            src, dst = ins.extra, ins.ty
            if (src in ("float", "double") and re.match(r"i(32|64)$", dst)) or \
                    (dst in ("float", "double") and re.match(r"i(32|64)$", src)):
                env[ins.res] = self.const(src, ins.args[0], env)
                return
            if src.endswith("*") and dst.endswith("*"):
                p = self.const(src, ins.args[0], env)
                env[ins.res] = p
                return
            raise IRUnsupported("bitcast %s -> %s" % (src, dst))
        if op == "extractvalue":
            a = self.const(ins.ty, ins.args[0], env)
            v = a
            for i in ins.extra:
                v = v.fields[i]
            env[ins.res] = v
            return
        if op == "insertvalue":
            a = self.const(ins.ty, ins.args[0], env)
            idxs, ety = ins.extra
            ev = self.const(ety, ins.args[1], env)
            if len(idxs) != 1:
                raise IRUnsupported("nested insertvalue")
            fields = list(a.fields)
            fields[idxs[0]] = ev
            env[ins.res] = Agg(fields)
            return
        if op == "call":
            self.call(ins, env, guard, depth)
            return
        if op == "getelementptr":
            base = self.const("ptr", ins.args[0], env) if not ins.args[0].startswith("%") else env[ins.args[0]]
            idx = [self.const(t_, v_, env) for t_, v_ in ins.args[1:]]
            env[ins.res] = self.gep(ins.ty, base, idx)
            return
        if op == "load":
            p = self.const(ins.extra, ins.args[0], env)
            env[ins.res] = self.load(ins.ty, p, guard, env)
            return
        if op == "alloca":
            m = re.match(r"\[(\d+) x (.*)\]$", ins.ty)
            self.fresh += 1
            name = "alloca!%d" % self.fresh
            n = int(m.group(1)) if m else 1
            ety = m.group(2) if m else ins.ty
            env["mem:" + name] = {"n": n, "ety": ety, "cells": {}}
            env[ins.res] = Ptr(name, T.const_bv(0, 64), ety)
            return
        if op == "store":
            p = self.const(ins.extra, ins.args[1], env)
            v = self.const(ins.ty, ins.args[0], env)
            self.store(p, v, guard, env)
            return
        raise IRUnsupported("opcode " + op)

    # memory: allocas are modelled as a dict of constant-index cells (symbolic index -> ite over cells)
    def store(self, p, v, guard, env):
        mem = env.get("mem:" + p.obj)
        if mem is None:
            raise IRUnsupported("store to non-alloca " + p.obj)
        if not T.is_const(p.idx):
            if len(mem["cells"]) != mem["n"]:
                raise IRUnsupported("store at symbolic index into a partially initialised alloca")
            self.add_ub(guard, T.not_(T.bvcmp("ult", p.idx, T.const_bv(mem["n"], 64))), "store out of bounds")
            mem = dict(mem)
            mem["cells"] = {i: self.ite_val(T.eq(p.idx, T.const_bv(i, 64)), v, c) for i, c in mem["cells"].items()}
            env["mem:" + p.obj] = mem
            return
        i = p.idx.attr
        if i >= mem["n"]:
            self.add_ub(guard, T.TRUE, "store out of bounds")
            return
        mem = dict(mem)
        cells = dict(mem["cells"])
        old = cells.get(i)
        # stores are unconditional within the current block; env merging handles control flow only for
        # SSA values, so we require straight-line stores (guard must be the block's guard; fine)
        cells[i] = v
        mem["cells"] = cells
        env["mem:" + p.obj] = mem

    def load(self, ty, p, guard, env):
        mem = env.get("mem:" + p.obj)
        if mem is not None:
            if T.is_const(p.idx):
                c = mem["cells"].get(p.idx.attr)
                if c is None:
                    raise IRUnsupported("load of uninitialised cell")
                return c
            cells = sorted(mem["cells"].items())
            if len(cells) != mem["n"]:
                raise IRUnsupported("symbolic load from partially initialised alloca")
            self.add_ub(guard, T.not_(T.bvcmp("ult", p.idx, T.const_bv(mem["n"], 64))), "load out of bounds")
            acc = cells[-1][1]
            for i, c in reversed(cells[:-1]):
                acc = self.ite_val(T.eq(p.idx, T.const_bv(i, 64)), c, acc)
            return acc
        g = self.mod.globals.get(p.obj)
        if g is None:
            raise IRUnsupported("load from unknown object " + p.obj)
        data = parse_global_init(g)
        if data is None:
            raise IRUnsupported("global initializer " + g[:60])
        ety, vals = data
        if ety != ty:
            raise IRUnsupported("load type %s from global of %s" % (ty, ety))
        so = self.sort(ety)
        if T.is_const(p.idx):
            if p.idx.attr >= len(vals):
                self.add_ub(guard, T.TRUE, "load out of bounds")
                return Val(T.const_bv(0, so[1]))
            return Val(T.const_bv(vals[p.idx.attr], so[1]))
        self.add_ub(guard, T.not_(T.bvcmp("ult", p.idx, T.const_bv(len(vals), 64))), "load out of bounds")
        acc = T.const_bv(vals[-1], so[1])
        for i in range(len(vals) - 2, -1, -1):
            acc = T.ite(T.eq(p.idx, T.const_bv(i, 64)), T.const_bv(vals[i], so[1]), acc)
        return Val(acc)

    def int_binop(self, op, ins, a, b, guard):
        p = T.or_(a.p, b.p)
        if a.t.sort == T.BOOL:
            if op in ("and", "mul"):
                return Val(T.and_(a.t, b.t), p)
            if op == "or":
                return Val(T.or_(a.t, b.t), p)
            if op in ("xor", "add", "sub"):
                return Val(T.xor_(a.t, b.t), p)
            raise IRUnsupported("i1 " + op)
        w = T.width(a.t)
        x, y = a.t, b.t
        if op in ("add", "sub", "mul"):
            r = T.bvop("bv" + op, x, y)
            if "nsw" in ins.flags:
                p = T.or_(p, ovf("s" + op, x, y))
            if "nuw" in ins.flags:
                p = T.or_(p, ovf("u" + op, x, y))
            return Val(r, p)
        if op in ("udiv", "urem", "sdiv", "srem"):
            self.add_ub(guard, b.p, "division by poison")
            self.add_ub(guard, T.eq(y, T.const_bv(0, w)), "division by zero")
            if op[0] == "s":
                self.add_ub(guard, T.and_(T.eq(x, T.const_bv(1 << (w - 1), w)), T.eq(y, T.const_bv(-1, w))),
                            "INT_MIN / -1")
            r = T.bvop("bv" + op, x, y)
            if "exact" in ins.flags:
                rem = T.bvop("bvurem" if op == "udiv" else "bvsrem", x, y)
                p = T.or_(p, T.ne(rem, T.const_bv(0, w)))
            return Val(r, p)
        if op in ("and", "or", "xor"):
            return Val(T.bvop("bv" + op, x, y), p)
        if op in ("shl", "lshr", "ashr"):
            r = T.bvop("bv" + op, x, y)
            p = T.or_(p, T.not_(T.bvcmp("ult", y, T.const_bv(w, w))))
            if op == "shl":
                if "nuw" in ins.flags:
                    p = T.or_(p, T.ne(T.bvop("bvlshr", r, y), x))
                if "nsw" in ins.flags:
                    p = T.or_(p, T.ne(T.bvop("bvashr", r, y), x))
            elif "exact" in ins.flags:
                p = T.or_(p, T.ne(T.bvop("bvshl", r, y), x))
            return Val(r, p)
        raise IRUnsupported(op)

    def call(self, ins, env, guard, depth):
        callee = ins.extra[1:].strip('"')
        self.callees.add(callee)
        args = [self.const(t_, v_, env) for t_, v_ in ins.args]
        m = re.match(r"llvm\.([su])(add|sub|mul)\.with\.overflow\.i(\d+)$", callee)
        if m:
            a, b = args
            kind = m.group(1) + m.group(2)
            r = T.bvop("bv" + m.group(2), a.t, b.t)
            o = ovf(kind, a.t, b.t)
            p = T.or_(a.p, b.p)
            env[ins.res] = Agg([Val(r, p), Val(o, p)])
            return
        if callee == "llvm.ubsantrap":
            self.add_ub(guard, T.TRUE, "ubsantrap(%s)" % ins.args[0][1])
            return
        if callee in ("llvm.trap", "abort", "__assert_fail"):
            self.add_ub(guard, T.TRUE, callee)
            return
        if callee.startswith("llvm.assume"):
            c = args[0]
            self.add_ub(guard, T.or_(c.p, T.not_(c.t)), "assume violated")
            return
        if callee.startswith("llvm.expect"):
            env[ins.res] = args[0]
            return
        if callee.startswith("llvm.memset"):
            ptr, val, ln = args[0], args[1], args[2]
            mem = env.get("mem:" + ptr.obj) if isinstance(ptr, Ptr) else None
            if mem is None or not (T.is_const(ptr.idx) and T.is_const(ln.t)) or not re.match(r"i8$", mem["ety"]):
                raise IRUnsupported("memset shape")
            mem = dict(mem)
            cells = dict(mem["cells"])
            for i in range(ptr.idx.attr, ptr.idx.attr + ln.t.attr):
                if i >= mem["n"]:
                    self.add_ub(guard, T.TRUE, "memset out of bounds")
                    break
                cells[i] = Val(val.t, val.p)
            mem["cells"] = cells
            env["mem:" + ptr.obj] = mem
            return
        if callee.startswith("llvm.lifetime") or callee.startswith("llvm.dbg") or \
                callee.startswith("llvm.experimental.noalias"):
            return
        m = re.match(r"llvm\.(trunc|floor|ceil|round|rint|nearbyint|roundeven|fabs|copysign|sqrt)\.f(32|64|80)$", callee)
        if m:
            fmt = {"32": T.FMT["float"], "64": T.FMT["double"], "80": T.FMT["x86_fp80"]}[m.group(2)]
            nm = m.group(1)
            a = args[0]
            if nm in _round_intr:
                env[ins.res] = Val(T.fp_un(_round_intr[nm], fmt, a.t), a.p)
            elif nm == "fabs":
                env[ins.res] = Val(T.fp_abs(fmt, a.t), a.p)
            elif nm == "copysign":
                env[ins.res] = Val(T.fp_copysign(fmt, a.t, args[1].t), T.or_(a.p, args[1].p))
            elif nm == "sqrt":
                env[ins.res] = Val(T.fp_un("sqrt", fmt, a.t), a.p)
            return
        m = re.match(r"llvm\.abs\.i(\d+)$", callee)
        if m:
            a, flag = args
            w = T.width(a.t)
            neg = T.bvcmp("slt", a.t, T.const_bv(0, w))
            r = T.ite(neg, T.bvneg(a.t), a.t)
            p = a.p
            if T.is_const(flag.t) and flag.t.attr:
                p = T.or_(p, T.eq(a.t, T.const_bv(1 << (w - 1), w)))
            env[ins.res] = Val(r, p)
            return
        m = re.match(r"llvm\.([su])(min|max)\.i(\d+)$", callee)
        if m:
            a, b = args
            s, mm = m.group(1), m.group(2)
            lt = T.bvcmp(s + "lt", a.t, b.t)
            r = T.ite(lt, a.t, b.t) if mm == "min" else T.ite(lt, b.t, a.t)
            env[ins.res] = Val(r, T.or_(a.p, b.p))
            return
        m = re.match(r"llvm\.(minnum|maxnum)\.f(32|64|80)$", callee)
        if m:
            raise IRUnsupported("minnum/maxnum")
        if callee in self.mod.functions:
            if self.call_hook is not None:
                r = self.call_hook(self, callee, args, guard)
                if r is not None:
                    env[ins.res] = r
                    return
            if depth >= self.inline_depth:
                self.unwind_items.append(guard)
                # value beyond the bound is irrelevant; give a fresh symbol
                if ins.res:
                    self.fresh += 1
                    env[ins.res] = Val(T.var("beyond!%d" % self.fresh, self.sort(ins.ty)))
                return
            f = self.mod.functions[callee]
            for (t_, v_), a in zip(ins.args, args):
                if isinstance(a, Val):
                    self.add_ub(guard, a.p, "poison passed to call")
            env0 = {pname: a for (pty, pname), a in zip(f.params, args)}
            r = self.run(f, env0, guard, depth + 1)
            if ins.res:
                if r is None:
                    raise IRUnsupported("void callee used as value")
                env[ins.res] = r
            return
        if self.extern_hook is not None:
            r = self.extern_hook(self, callee, args, guard)
            if r is not None:
                if ins.res:
                    env[ins.res] = r
                return
        base = callee.rstrip("fl") if callee not in LIBM_UF else callee
        for cand in (callee, callee[:-1]):
            if cand in LIBM_UF and ins.ty in FP_TYPES:
                so = self.sort(ins.ty)
                suffix = {"float": "f32", "double": "f64", "x86_fp80": "f80"}[ins.ty]
                env[ins.res] = Val(T.uf("libm_%s_%s" % (cand, suffix), so, [a.t for a in args]),
                                   T.or_(*[a.p for a in args]) if args else T.FALSE)
                return
        raise IRUnsupported("call to " + callee)


def ovf(kind, a, b):
    """Overflow flag term for kind in sadd ssub smul uadd usub umul."""
    if T.is_const(a) and T.is_const(b):
        w = T.width(a)
        x, y = a.attr, b.attr
        if kind[0] == "s":
            x, y = T._sgn(x, w), T._sgn(y, w)
            lo, hi = -(1 << (w - 1)), (1 << (w - 1)) - 1
        else:
            lo, hi = 0, (1 << w) - 1
        r = {"add": x + y, "sub": x - y, "mul": x * y}[kind[1:]]
        return T.const_bool(not (lo <= r <= hi))
    return T.mk("ovf", (a, b), T.BOOL, kind)


def fp_to_int_out_of_range(signed, fmt, a, w):
    """Poison condition of fptosi/fptoui: NaN, inf, or trunc(a) outside the destination range.
    Expressed with FP comparisons against exactly representable bounds:
      signed:   a <= -2^(w-1) - 1  is out (i.e. a < -2^(w-1) - 0 after truncation: a <= -(2^(w-1)+1))
                in range iff  -2^(w-1) - 1 < a < 2^(w-1)
      unsigned: in range iff  -1 < a < 2^w
    """
    from . import fpeval
    from fractions import Fraction
    eb, sb = fmt
    if signed:
        lo = -(1 << (w - 1)) - 1
        hi = 1 << (w - 1)
    else:
        lo = -1
        hi = 1 << w
    # 'a > lo' where lo may not be representable: a > lo  <=>  a >= succ-representable.  Use the
    # largest representable value <= lo (lo_r): a > lo <=> a > lo_r when lo_r == lo, else a > lo_r
    # still equivalent because no representable value lies in (lo_r, lo].
    lo_bits = fpeval.from_fraction(fmt, Fraction(lo))
    lo_val = fpeval.to_fraction(fmt, lo_bits)
    if lo_val is None or lo_val > lo:
        # rounded up (towards zero for negative lo): pick next representable below
        lo_bits = _next_down(fmt, lo_bits) if lo_val is not None else lo_bits
    hi_bits = fpeval.from_fraction(fmt, Fraction(hi))
    hi_val = fpeval.to_fraction(fmt, hi_bits)
    terms_in = []
    wd = T.fmt_width(fmt)
    if fpeval.to_fraction(fmt, lo_bits) is None:
        # -inf: every finite value is above
        terms_in.append(T.fp_isfinite(fmt, a))
    else:
        terms_in.append(T.fp_cmp("ogt", fmt, a, T.const_bv(lo_bits, wd)))
    if hi_val is None:
        terms_in.append(T.fp_isfinite(fmt, a))
        terms_in.append(T.not_(T.fp_isnan(fmt, a)))
    else:
        assert hi_val == hi
        terms_in.append(T.fp_cmp("olt", fmt, a, T.const_bv(hi_bits, wd)))
    return T.not_(T.and_(*terms_in))


def _next_down(fmt, bits):
    """next representable value toward -infinity for a finite pattern"""
    eb, sb = fmt
    w = eb + sb
    sign = bits >> (w - 1)
    mag = bits & ((1 << (w - 1)) - 1)
    if sign:
        return bits + 1
    if mag == 0:
        return (1 << (w - 1)) | 1
    return bits - 1


_STRUCT_WRAPPED_ARRAY = re.compile(r'constant\s+%(?:"[^"]*"|[\w.$]+)\s+\{\s*(\[\d+ x i\d+\]\s+(?:c".*"|zeroinitializer|\[.*\]))\s*\}(,\s*(comdat|align).*)?$')


def parse_global_init(text):
    """'... constant [4 x i8] c"abc\\00"' or '[3 x i64] [i64 1, i64 2, i64 3]' -> (elem_ty, [ints])"""
    ms = _STRUCT_WRAPPED_ARRAY.search(text)
    if ms:      # constant %"struct" { [N x i8] c"..." }  ->  constant [N x i8] c"..."
        text = "constant " + ms.group(1)
    m = re.search(r"constant\s+\[(\d+) x (i\d+)\]\s+(.*?)(,\s*(comdat|align).*)?$", text)
    if not m:
        m2 = re.search(r"constant\s+(i\d+)\s+(-?\d+)", text)
        if m2:
            return m2.group(1), [int(m2.group(2))]
        return None
    n, ety, init = int(m.group(1)), m.group(2), m.group(3).strip()
    if init.startswith('c"'):
        s = init[2:init.rindex('"')]
        out = []
        i = 0
        while i < len(s):
            if s[i] == "\\":
                out.append(int(s[i + 1:i + 3], 16))
                i += 3
            else:
                out.append(ord(s[i]))
                i += 1
        return ety, out
    if init.startswith("zeroinitializer"):
        return ety, [0] * n
    if init.startswith("["):
        vals = re.findall(r"i\d+\s+(-?\d+)", init)
        return ety, [int(v) for v in vals]
    return None


def encode_kernel(module, fname, arg_terms, unwind=1, inline_depth=4, call_hook=None, width_map=None, extern_hook=None):
    e = Encoder(module, unwind=unwind, inline_depth=inline_depth, call_hook=call_hook, width_map=width_map, extern_hook=extern_hook)
    f = module.functions[fname]
    r = e.encode(fname, [a if isinstance(a, (Val, Ptr, Agg)) else Val(a) for a in arg_terms])
    ub = T.or_(*[c for c, _ in e.ub_items]) if e.ub_items else T.FALSE
    unw = T.or_(*e.unwind_items) if e.unwind_items else T.FALSE
    stats = {"instructions": e.ninstr, "ops": sorted(e.ops), "callees": sorted(e.callees)}
    ret = None
    if r is not None:
        if isinstance(r, Val):
            ret = r.t
        else:
            raise IRUnsupported("aggregate return")
    return Enc(ret, ub, unw, stats, e.ub_items)
