"""Independent exact model of the library's units (DESIGN.md section 3.1).

Every number below is written from the SI brochure / NIST SP 811 definitions of the unit, *not* read from Au's
headers (the headers were only consulted for the C++ spellings: type name, quantity maker, singular name, symbol).
A unit is (dimension vector over nine base dimensions with Fraction exponents, magnitude relative to the coherent
SI unit of that dimension, origin in kelvins for the two offset temperature scales).  Magnitudes are kept as
{prime: Fraction exponent} plus a Fraction exponent of pi, so roots and irrational factors stay exact.
"""
from fractions import Fraction
from math import gcd

DIMS = ("Length", "Mass", "Time", "Current", "Temperature", "Angle", "Information", "AmountOfSubstance",
        "LuminousIntensity")
ND = len(DIMS)

# pi to 60+ significant digits (public constant), as a rational enclosure [PI_LO, PI_HI] of width 1e-64
_PI_DIGITS = "3141592653589793238462643383279502884197169399375105820974944592"   # 64 digits, truncated
PI_LO = Fraction(int(_PI_DIGITS), 10 ** (len(_PI_DIGITS) - 1))
PI_HI = PI_LO + Fraction(1, 10 ** (len(_PI_DIGITS) - 1))


def factorize(n):
    assert n >= 1
    out = {}
    p = 2
    while p * p <= n:
        while n % p == 0:
            out[p] = out.get(p, 0) + 1
            n //= p
        p += 1 if p == 2 else 2
    if n > 1:
        out[n] = out.get(n, 0) + 1
    return out


def iroot_floor(n, k):
    """floor(n ** (1/k)) for integers n >= 0, k >= 1"""
    if n < 2 or k == 1:
        return n
    x = 1 << ((n.bit_length() + k - 1) // k)
    while True:
        y = ((k - 1) * x + n // x ** (k - 1)) // k
        if y >= x:
            break
        x = y
    while x ** k > n:
        x -= 1
    while (x + 1) ** k <= n:
        x += 1
    return x


class Mag:
    """positive real number  prod p^e_p * pi^e_pi  with rational exponents"""
    __slots__ = ("primes", "pi")

    def __init__(self, primes=None, pi=0):
        self.primes = {p: Fraction(e) for p, e in (primes or {}).items() if e != 0}
        self.pi = Fraction(pi)

    @staticmethod
    def of(q):
        q = Fraction(q)
        assert q > 0
        pr = {}
        for p, e in factorize(q.numerator).items():
            pr[p] = pr.get(p, 0) + e
        for p, e in factorize(q.denominator).items():
            pr[p] = pr.get(p, 0) - e
        return Mag(pr)

    def __mul__(self, o):
        pr = dict(self.primes)
        for p, e in o.primes.items():
            pr[p] = pr.get(p, 0) + e
        return Mag(pr, self.pi + o.pi)

    def __truediv__(self, o):
        return self * o.pow(-1)

    def pow(self, e):
        e = Fraction(e)
        return Mag({p: x * e for p, x in self.primes.items()}, self.pi * e)

    def key(self):
        return (tuple(sorted(self.primes.items())), self.pi)

    def __eq__(self, o):
        return isinstance(o, Mag) and self.key() == o.key()

    def __hash__(self):
        return hash(self.key())

    def is_one(self):
        return not self.primes and self.pi == 0

    def is_rational(self):
        return self.pi == 0 and all(e.denominator == 1 for e in self.primes.values())

    def is_integer(self):
        return self.is_rational() and all(e > 0 for e in self.primes.values())

    def as_fraction(self):
        assert self.is_rational()
        q = Fraction(1)
        for p, e in self.primes.items():
            q *= Fraction(p) ** int(e)
        return q

    def approx(self, digits=60):
        """(lo, hi) rational enclosure, relative width about 10^-digits (exact point interval when rational)"""
        if self.is_rational():
            q = self.as_fraction()
            return q, q
        L = 1
        for e in list(self.primes.values()) + [self.pi]:
            L = L * e.denominator // gcd(L, e.denominator)
        q = Fraction(1)
        for p, e in self.primes.items():
            q *= Fraction(p) ** int(e * L)
        k = int(self.pi * L)
        if k >= 0:
            lo, hi = q * PI_LO ** k, q * PI_HI ** k
        else:
            lo, hi = q / PI_HI ** (-k), q / PI_LO ** (-k)
        if L == 1:
            return lo, hi
        # L-th root of an interval of positive rationals: scale to integers with 'digits' guard digits
        def root_lo(v):
            s = 10 ** (digits + 5)
            n = (v.numerator * s ** L) // v.denominator
            return Fraction(iroot_floor(n, L), s)

        def root_hi(v):
            s = 10 ** (digits + 5)
            n = -((-v.numerator * s ** L) // v.denominator)
            return Fraction(iroot_floor(n, L) + 1, s)
        return root_lo(lo), root_hi(hi)

    def log10_approx(self):
        from math import log10, pi as fpi
        return sum(float(e) * log10(p) for p, e in self.primes.items()) + float(self.pi) * log10(fpi)

    def __repr__(self):
        parts = ["%d^%s" % (p, e) for p, e in sorted(self.primes.items())]
        if self.pi:
            parts.append("pi^%s" % self.pi)
        return " ".join(parts) or "1"


ONE = Mag()
PI = Mag({}, 1)


def gcd_fractions(fs):
    """greatest rational g such that every f/g is an integer"""
    fs = [Fraction(f) for f in fs]
    num = 0
    den = 1
    for f in fs:
        den = den * f.denominator // gcd(den, f.denominator)
    for f in fs:
        num = gcd(num, int(f * den))
    return Fraction(num, den)


def dimvec(**kw):
    return tuple(Fraction(kw.get(d, 0)) for d in DIMS)


NODIM = dimvec()


def dim_mul(a, b):
    return tuple(x + y for x, y in zip(a, b))


def dim_pow(a, e):
    e = Fraction(e)
    return tuple(x * e for x in a)


class Unit:
    """value object: dimension, magnitude (relative to coherent SI), origin (kelvins; only meaningful for temperature)"""

    def __init__(self, dim, mag, origin=0):
        self.dim = tuple(Fraction(x) for x in dim)
        self.mag = mag
        self.origin = Fraction(origin)

    def __mul__(self, o):
        return Unit(dim_mul(self.dim, o.dim), self.mag * o.mag)

    def __truediv__(self, o):
        return Unit(dim_mul(self.dim, dim_pow(o.dim, -1)), self.mag / o.mag)

    def pow(self, e):
        return Unit(dim_pow(self.dim, e), self.mag.pow(e))

    def scaled(self, q):
        """scale by a rational (or a Mag)"""
        m = q if isinstance(q, Mag) else Mag.of(q)
        return Unit(self.dim, self.mag * m, self.origin)

    def same_dim(self, o):
        return self.dim == o.dim

    def key(self):
        return (self.dim, self.mag.key(), self.origin)

    def equivalent(self, o):
        return self.dim == o.dim and self.mag == o.mag


def ratio(u1, u2):
    """exact magnitude of u1 / u2 (same dimension required)"""
    assert u1.dim == u2.dim, "ratio of units of different dimension"
    return u1.mag / u2.mag


class Named(Unit):
    def __init__(self, cxx, dim, mag, maker=None, singular=None, symbol=None, origin=0, what=""):
        super().__init__(dim, mag, origin)
        self.cxx = cxx            # C++ unit type
        self.maker = maker        # quantity maker (au::...)
        self.singular = singular  # SingularNameFor instance (au::...), if the library defines one
        self.symbol = symbol      # au::symbols::...
        self.what = what          # the definition used


def _q(s):
    return Fraction(s)


# ---- coherent SI building blocks (dimension, magnitude 1)
_L = Unit(dimvec(Length=1), ONE)
_KG = Unit(dimvec(Mass=1), ONE)
_S = Unit(dimvec(Time=1), ONE)
_A = Unit(dimvec(Current=1), ONE)
_K = Unit(dimvec(Temperature=1), ONE)
_RAD = Unit(dimvec(Angle=1), ONE)
_BIT = Unit(dimvec(Information=1), ONE)
_MOL = Unit(dimvec(AmountOfSubstance=1), ONE)
_CD = Unit(dimvec(LuminousIntensity=1), ONE)
_1 = Unit(NODIM, ONE)

_N = _KG * _L / _S.pow(2)
_J = _N * _L
_W = _J / _S
_PA = _N / _L.pow(2)
_C = _A * _S
_V = _W / _A
_OHM = _V / _A
_WB = _V * _S

_INCH = _L.scaled(_q("0.0254"))            # international inch, 1959: 25.4 mm exactly
_FOOT = _L.scaled(_q("0.3048"))            # international foot: 0.3048 m exactly
_LB = _KG.scaled(_q("0.45359237"))         # avoirdupois pound: 0.45359237 kg exactly
_G0 = (_L / _S.pow(2)).scaled(_q("9.80665"))   # standard acceleration of gravity (CGPM 1901)
_LBF = _LB * _G0
_DEG = _RAD.scaled(PI).scaled(Fraction(1, 180))
_GAL = _INCH.pow(3).scaled(231)            # US liquid gallon: 231 cubic inches


def _n(cxx, u, maker=None, singular=None, symbol=None, origin=0, what=""):
    return Named(cxx, u.dim, u.mag, maker, singular, symbol, origin, what)


LIBRARY = [
    # SI base (Au's mass base unit is the gram: 1e-3 kg)
    _n("Meters", _L, "meters", "meter", "m", what="SI base"),
    _n("Grams", _KG.scaled(Fraction(1, 1000)), "grams", "gram", "g", what="1e-3 kg"),
    _n("Seconds", _S, "seconds", "second", "s", what="SI base"),
    _n("Amperes", _A, "amperes", "ampere", "A", what="SI base"),
    _n("Kelvins", _K, "kelvins", "kelvin", "K", what="SI base"),
    _n("Moles", _MOL, "moles", "mole", "mol", what="SI base"),
    _n("Candelas", _CD, "candelas", "candela", "cd", what="SI base"),
    _n("Radians", _RAD, "radians", "radian", "rad", what="angle base"),
    _n("Bits", _BIT, "bits", "bit", "b", what="information base"),
    _n("Unos", _1, "unos", None, None, what="dimensionless 1"),
    _n("Percent", _1.scaled(Fraction(1, 100)), "percent", None, "pct", what="1/100"),
    # time
    _n("Minutes", _S.scaled(60), "minutes", "minute", "min", what="60 s"),
    _n("Hours", _S.scaled(3600), "hours", "hour", "h", what="3600 s"),
    _n("Days", _S.scaled(86400), "days", "day", "d", what="86400 s"),
    # length
    _n("Inches", _INCH, "inches", "inch", "in", what="0.0254 m"),
    _n("Feet", _FOOT, "feet", "foot", "ft", what="0.3048 m"),
    _n("Yards", _L.scaled(_q("0.9144")), "yards", "yard", "yd", what="0.9144 m"),
    _n("Miles", _L.scaled(_q("1609.344")), "miles", "mile", "mi", what="1609.344 m (5280 ft)"),
    _n("Fathoms", _L.scaled(_q("1.8288")), "fathoms", "fathom", "ftm", what="6 ft = 1.8288 m"),
    _n("Furlongs", _L.scaled(_q("201.168")), "furlongs", "furlong", "fur", what="660 ft = 201.168 m"),
    _n("NauticalMiles", _L.scaled(1852), "nautical_miles", "nautical_mile", "nmi", what="1852 m"),
    # angle
    _n("Degrees", _DEG, "degrees", "degree", "deg", what="pi/180 rad"),
    _n("Revolutions", _RAD.scaled(PI).scaled(2), "revolutions", "revolution", "rev", what="2 pi rad"),
    _n("Arcminutes", _DEG.scaled(Fraction(1, 60)), "arcminutes", "arcminute", "am", what="1/60 degree"),
    _n("Arcseconds", _DEG.scaled(Fraction(1, 3600)), "arcseconds", "arcsecond", "as", what="1/3600 degree"),
    _n("Steradians", _RAD.pow(2), "steradians", "steradian", "sr", what="rad^2"),
    # information
    _n("Bytes", _BIT.scaled(8), "bytes", "byte", "B", what="8 bit"),
    # SI derived
    _n("Hertz", _S.pow(-1), "hertz", None, "Hz", what="1/s"),
    _n("Becquerel", _S.pow(-1), "becquerel", None, "Bq", what="1/s"),
    _n("Newtons", _N, "newtons", "newton", "N", what="kg m / s^2"),
    _n("Joules", _J, "joules", "joule", "J", what="N m"),
    _n("Watts", _W, "watts", "watt", "W", what="J / s"),
    _n("Pascals", _PA, "pascals", None, "Pa", what="N / m^2"),
    _n("Bars", _PA.scaled(100000), "bars", "bar", "bar", what="1e5 Pa"),
    _n("Coulombs", _C, "coulombs", "coulomb", "C", what="A s"),
    _n("Volts", _V, "volts", "volt", "V", what="W / A"),
    _n("Ohms", _OHM, "ohms", "ohm", "ohm", what="V / A"),
    _n("Siemens", _OHM.pow(-1), "siemens", "siemen", "S", what="1 / ohm"),
    _n("Farads", _C / _V, "farads", "farad", "F", what="C / V"),
    _n("Webers", _WB, "webers", "weber", "Wb", what="V s"),
    _n("Tesla", _WB / _L.pow(2), "tesla", None, "T", what="Wb / m^2"),
    _n("Henries", _WB / _A, "henries", "henry", "H", what="Wb / A"),
    _n("Grays", _J / _KG, "grays", "gray", "Gy", what="J / kg"),
    _n("Katals", _MOL / _S, "katals", "katal", "kat", what="mol / s"),
    _n("Lumens", _CD * _RAD.pow(2), "lumens", "lumen", "lm", what="cd sr"),
    _n("Lux", _CD * _RAD.pow(2) / _L.pow(2), "lux", None, "lx", what="lm / m^2"),
    # volume
    _n("Liters", _L.pow(3).scaled(Fraction(1, 1000)), "liters", "liter", "L", what="1e-3 m^3"),
    _n("USGallons", _GAL, "us_gallons", "us_gallon", "US_gal", what="231 in^3"),
    _n("USQuarts", _GAL.scaled(Fraction(1, 4)), "us_quarts", "us_quart", "US_qt", what="1/4 gallon"),
    _n("USPints", _GAL.scaled(Fraction(1, 8)), "us_pints", "us_pint", "US_pt", what="1/8 gallon"),
    # mass / force / acceleration / speed
    _n("PoundsMass", _LB, "pounds_mass", "pound_mass", "lb", what="0.45359237 kg"),
    _n("StandardGravity", _G0, "standard_gravity", None, "g_0", what="9.80665 m/s^2"),
    _n("PoundsForce", _LBF, "pounds_force", "pound_force", "lbf", what="lb * g_0"),
    _n("Slugs", _LBF * _S.pow(2) / _FOOT, "slugs", "slug", "slug", what="lbf s^2 / ft"),
    _n("Knots", _L.scaled(1852) / _S.scaled(3600), "knots", "knot", "kn", what="nautical mile per hour"),
    # temperature scales with an offset origin (origin in kelvins)
    _n("Celsius", _K, "celsius_qty", None, "degC_qty", origin=_q("273.15"), what="kelvin-sized, zero at 273.15 K"),
    _n("Fahrenheit", _K.scaled(Fraction(5, 9)), "fahrenheit_qty", None, "degF_qty", origin=_q("459.67") * Fraction(5, 9),
       what="5/9 K, zero at 459.67 degR"),
]
# declared next to Fahrenheit, not one of the 57 unit headers
RANKINES = _n("Rankines", _K.scaled(Fraction(5, 9)), "rankines", None, None, what="5/9 K")

BY_NAME = {u.cxx: u for u in LIBRARY}
assert len(LIBRARY) == 57 and len(BY_NAME) == 57

# ---- prefixes: (C++ template, applier function, exact factor)
SI_PREFIXES = [("Quetta", 30), ("Ronna", 27), ("Yotta", 24), ("Zetta", 21), ("Exa", 18), ("Peta", 15), ("Tera", 12),
               ("Giga", 9), ("Mega", 6), ("Kilo", 3), ("Hecto", 2), ("Deka", 1), ("Deci", -1), ("Centi", -2),
               ("Milli", -3), ("Micro", -6), ("Nano", -9), ("Pico", -12), ("Femto", -15), ("Atto", -18), ("Zepto", -21),
               ("Yocto", -24), ("Ronto", -27), ("Quecto", -30)]
BIN_PREFIXES = [("Kibi", 10), ("Mebi", 20), ("Gibi", 30), ("Tebi", 40), ("Pebi", 50), ("Exbi", 60), ("Zebi", 70),
                ("Yobi", 80)]
PREFIX = {}
for _name, _e in SI_PREFIXES:
    PREFIX[_name] = Mag({2: _e, 5: _e})
for _name, _e in BIN_PREFIXES:
    PREFIX[_name] = Mag({2: _e})
assert len(PREFIX) == 32


def prefixed(prefix, u):
    return Unit(u.dim, u.mag * PREFIX[prefix], u.origin)


def common_unit(units):
    """gcd unit of same-dimension units with rational pairwise ratios: returns (multipliers m_i = U_i / G, index of
    an input that *is* G or None, G as Unit)"""
    u0 = units[0]
    rs = []
    for u in units:
        r = ratio(u, u0)
        assert r.is_rational(), "irrational ratio"
        rs.append(r.as_fraction())
    g = gcd_fractions(rs)
    ms = [r / g for r in rs]
    assert all(m.denominator == 1 for m in ms)
    ms = [int(m) for m in ms]
    G = u0.scaled(g)
    return ms, G


def ulp_double(q):
    """ulp of the binade containing the positive rational q (double, normal range)"""
    q = Fraction(q)
    e = q.numerator.bit_length() - q.denominator.bit_length()
    if Fraction(2) ** e > q:
        e -= 1
    if Fraction(2) ** (e + 1) <= q:
        e += 1
    return Fraction(2) ** (e - 52)
