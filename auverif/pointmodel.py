"""Exact model of temperature-like point units: scale (in kelvins), origin as (value, representation unit).

Independent of Au's template code; the only datum taken from the library is how it *writes* its origins
(Celsius: 27315 centi-kelvin; Fahrenheit: 45967 centi-rankine), because that representation unit shows up
in integer arithmetic (DESIGN.md C09/C10).
"""
from fractions import Fraction
from math import gcd


def gcdf(*fs):
    fs = [Fraction(f) for f in fs if f is not None]
    g = fs[0]
    for f in fs[1:]:
        g = Fraction(gcd(g.numerator * f.denominator, f.numerator * g.denominator), g.denominator * f.denominator)
    return g


class PU:
    def __init__(self, name, cxx, scale, origin_val=None, origin_unit=None, decl=None):
        self.name = name
        self.cxx = cxx                      # C++ unit type expression
        self.scale = Fraction(scale)        # unit size in kelvins
        self.ov = origin_val                # integer value of origin (None = no origin member = ZERO)
        self.ou = Fraction(origin_unit) if origin_unit is not None else None   # unit of that value, in kelvins
        self.decl = decl                    # prelude declaration if generated

    @property
    def origin(self):                       # in kelvins
        return Fraction(0) if self.ov is None else self.ov * self.ou


KELVINS = PU("K", "Kelvins", 1)
CELSIUS = PU("degC", "Celsius", 1, 27315, Fraction(1, 100))
FAHRENHEIT = PU("degF", "Fahrenheit", Fraction(5, 9), 45967, Fraction(5, 900))
MILLIK = PU("mK", "Milli<Kelvins>", Fraction(1, 1000))
CENTIK = PU("cK", "Centi<Kelvins>", Fraction(1, 100))
KILOK = PU("kK", "Kilo<Kelvins>", 1000)
KILOC = PU("kdegC", "Kilo<Celsius>", 1000, 27315, Fraction(1, 100))      # a prefix scales the unit, the origin stays 273.15 K
MILLIC = PU("mdegC", "Milli<Celsius>", Fraction(1, 1000), 27315, Fraction(1, 100))
# units that share Celsius' (or Fahrenheit's) non-zero origin with scales that are not multiples of one another (anonymous rescalings inherit the origin)
C_X7 = PU("degCx7", "decltype(Celsius{} * mag<7>())", 7, 27315, Fraction(1, 100))
C_D3 = PU("degC_3", "decltype(Celsius{} / mag<3>())", Fraction(1, 3), 27315, Fraction(1, 100))
C_2_7 = PU("degC2_7", "decltype(Celsius{} * mag<2>() / mag<7>())", Fraction(2, 7), 27315, Fraction(1, 100))
CENTIF = PU("cdegF", "Centi<Fahrenheit>", Fraction(5, 900), 45967, Fraction(5, 900))
F_2_3 = PU("degF2_3", "decltype(Fahrenheit{} * mag<2>() / mag<3>())", Fraction(10, 27), 45967, Fraction(5, 900))
SAME_ORIGIN = [C_X7, C_D3, C_2_7, CENTIF, F_2_3]
LIB = [KELVINS, CELSIUS, FAHRENHEIT, MILLIK, CENTIK, KILOK]
LIB_EXT = LIB + [KILOC, MILLIC]


# ways to spell the unit an origin is written in: (maker expression, size in kelvins)
ORIGIN_BASES = {"kelvins": ("kelvins", Fraction(1)), "milli": ("milli(kelvins)", Fraction(1, 1000)), "kilo": ("kilo(kelvins)", Fraction(1000)),
                "centi": ("centi(kelvins)", Fraction(1, 100)), "rankines": ("rankines", Fraction(5, 9))}


def gen_unit(i, a, b, c, d, obase="kelvins", cn=1):
    """struct Gi : Kelvins * a / b with origin (<obase> * cn / c)(d)   [obase: kelvins, a prefixed form of it, or rankines]"""
    name = "G%d" % i
    base = "Kelvins{}"
    if a != 1:
        base += " * mag<%d>()" % a
    if b != 1:
        base += " / mag<%d>()" % b
    mk, size = ORIGIN_BASES[obase]
    if cn != 1:
        mk += " * mag<%d>()" % cn
    if c != 1:
        mk += " / mag<%d>()" % c
    if cn != 1 or c != 1:
        mk = "(%s)" % mk
    decl = "struct %s : decltype(%s) { static constexpr auto origin() { return %s(%d); } };" % (name, base, mk, d)
    return PU(name, name, Fraction(a, b), d, size * cn / c, decl)


def displacement(u_from, u_to):
    """origin(u_to) - origin(u_from) as the library forms it: (value, unit) or None for ZERO."""
    if u_from.origin == u_to.origin:
        return None
    if u_from.ov is None:
        return (u_to.ov, u_to.ou)
    if u_to.ov is None:
        return (-u_from.ov, u_from.ou)
    g = gcdf(u_from.ou, u_to.ou)
    return (int(u_to.ov * (u_to.ou / g) - u_from.ov * (u_from.ou / g)), g)


def conversion(u1, u2):
    """integer form of point conversion u1 -> u2: ((x*a + b) * p) / q ; returns a, b, p, q and exact rational map."""
    d = displacement(u1, u2)
    if d is None:
        inter = u1.scale
        a, b = 1, 0
    else:
        dv, du = d
        inter = gcdf(u1.scale, du)
        a = u1.scale / inter
        b = -dv * (du / inter)
        assert a.denominator == 1 and b.denominator == 1
        a, b = int(a), int(b)
    f = inter / u2.scale
    return a, b, f.numerator, f.denominator


def common_point_unit(units):
    low = min(units, key=lambda u: u.origin)
    gs = [u.scale for u in units]
    for u in units:
        d = displacement(low, u)
        if d is not None:
            gs.append(d[1])
    G = gcdf(*gs)
    res = []
    for u in units:
        m = u.scale / G
        off = (u.origin - low.origin) / G
        assert m.denominator == 1 and off.denominator == 1 and off >= 0, (u.name, m, off)
        res.append((int(m), int(off)))
    return G, low, res
