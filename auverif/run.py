"""Driver: run one property check end to end, write evidence, print VIOLATION / KNOWN-FINDING lines."""
import argparse
import hashlib
import importlib
import json
import os
import re
import sys
import time
import traceback

from . import framework as F
from . import terms as T
from . import smt, solve, irparse

VERIF = F.VERIF
KNOWN_FILE = os.path.join(VERIF, "known_findings.json")


def load_known(pid):
    try:
        data = json.load(open(KNOWN_FILE))
    except FileNotFoundError:
        return []
    return [f for f in data.get("findings", []) if f.get("property") == pid or pid in f.get("properties", [])]


def fmt_model(ob, model):
    out = {}
    for (n, s), v in zip(ob.vars, model):
        if s == T.BOOL:
            out[n] = bool(v)
        elif s == T.INT:
            out[n] = v
        else:
            out[n] = "0x%x" % v
    return out


def write_replay(check, ob, model, calls, verdict):
    d = os.path.join(VERIF, "replays", check.pid)
    os.makedirs(d, exist_ok=True)
    h = hashlib.sha1((ob.name + json.dumps(model)).encode()).hexdigest()[:10]
    path = os.path.join(d, "%s_%s.json" % (re.sub(r"[^\w.-]", "_", ob.name)[:80], h))
    srcs = {}
    for name in ob.kernels:
        if name in check.K:
            srcs[name] = check.K[name].kernel.line()
    json.dump({"property": check.pid, "tier": check.tier, "seed": check.seed, "obligation": ob.name,
               "key": ob.key, "note": ob.note, "vars": [n for n, _ in ob.vars], "model": model,
               "model_hex": fmt_model(ob, model), "kernel_sources": srcs, "prelude": check.prelude,
               "native_calls": calls, "verdict": verdict}, open(path, "w"), indent=1, default=str)
    return path


def _const_vars(ob, model):
    return [T.const_bool(bool(v)) if s == T.BOOL else (T.const_int(v) if s == T.INT else T.const_bv(v, s[1]))
            for (n, s), v in zip(ob.vars, model)]


def process_results(check, obs, known):
    """Classify solver outcomes; replay sat models; apply known findings (re-proving with the known inputs excluded,
    in parallel rounds). Returns counters."""
    preds = check.known_predicates()
    counters = {"discharged": 0, "claimed": 0, "stretch": 0, "stretch_discharged": 0, "closed": 0,
                "closed_ok": 0, "witness": 0, "witness_ok": 0, "skipped_domain": 0, "trivial": 0,
                "nontrivial": 0, "rejected": 0}
    pending = []
    for ob in obs:
        if ob.status == "skipped-domain":
            counters["skipped_domain"] += 1
            continue
        if ob.expect == "sat":
            counters["witness"] += 1
            if ob.status == "sat":
                counters["witness_ok"] += 1
            elif getattr(ob, "auto", False):
                if ob.status == "unsat":
                    check.extra_cov.setdefault("vacuous_obligations", []).append(ob.name[len("autowitness:"):])
            elif ob.kind == "claimed":
                check.inconclusive.append("witness %s is %s (vacuous obligation or unreachable kernel)" % (ob.name, ob.status))
            continue
        ob.is_closed = ob.kind == "closed" or not ob.vars
        if ob.kind == "stretch":
            counters["stretch"] += 1
        elif ob.is_closed:
            counters["closed"] += 1
        else:
            counters["claimed"] += 1
        if ob.trivial:
            counters["trivial"] += 1
        elif ob.vars:
            counters["nontrivial"] += 1
        ob.excluded = []
        ob.cur = ob
        pending.append(ob)
    rounds = 0
    while pending and rounds < 6:
        rounds += 1
        again = []
        for ob in pending:
            cur = ob.cur
            st = cur.status
            if st == "unsat" and getattr(ob, "refined", False):
                # the abstracted obligation has a counterexample that does not reproduce, and no realisable one exists in the refined sub-case
                check.inconclusive.append("%s: solver model %s of the abstracted obligation does not reproduce natively and the realisability "
                                          "refinement found no counterexample; not a verdict" % (ob.name, getattr(ob, "first_model", "?")))
                continue
            if st == "unsat":
                if ob.kind == "stretch":
                    counters["stretch_discharged"] += 1
                else:
                    counters["discharged"] += 1
                    if ob.is_closed:
                        counters["closed_ok"] += 1
                continue
            if st == "sat":
                model = cur.model if cur.model is not None else []
                if ob.vars and cur.model is None:
                    check.inconclusive.append("%s: sat but no model could be read" % ob.name)
                    continue
                try:
                    pv, qv, calls = check.replay(cur, model)
                except Exception as e:   # noqa
                    check.inconclusive.append("%s: replay failed: %r" % (ob.name, e))
                    continue
                if pv is True and qv is False:
                    hit = None
                    for f in known:
                        if f.get("status") != "known":
                            continue
                        if f.get("ob_pattern") and not re.search(f["ob_pattern"], ob.name):
                            continue
                        pf = preds.get(f["id"])
                        if pf is None:
                            continue
                        pt = pf(ob, _const_vars(ob, model))
                        if pt is not None and T.is_const(pt) and pt.attr:
                            hit = (f, pf)
                            break
                    if hit and rounds < 5:
                        f, pf = hit
                        if f["id"] not in [x[0] for x in check.findings_hit]:
                            print("KNOWN-FINDING: property=%s %s [first seen: %s at %s]" % (check.pid, f["what"], ob.name, fmt_model(ob, model)))
                        check.findings_hit.append((f["id"], ob.name, fmt_model(ob, model)))
                        ob.excluded.append(pf)
                        ex = list(ob.excluded)

                        def fn2(K, *vs, _b=ob.fn, _ex=ex, _ob=ob):
                            r = _b(K, *vs)
                            pre, post = r[0], r[1]
                            for p_ in _ex:
                                pt_ = p_(_ob, list(vs))
                                if pt_ is not None:
                                    pre = T.and_(pre, T.not_(pt_))
                            return (pre, post)
                        ob2 = F.Ob(ob.name, ob.vars, fn2, ob.kind, ob.expect, ob.routes, ob.key, ob.kernels, ob.timeout, ob.note)
                        ob.cur = ob2
                        again.append(ob)
                        continue
                    if ob.kind == "stretch":
                        check.notes.append("stretch obligation %s has a reproduced counterexample %s" % (ob.name, fmt_model(ob, model)))
                    path = write_replay(check, ob, model, calls, "reproduced")
                    check.violations.append((ob.name, path, fmt_model(ob, model)))
                    continue
                # an obligation that abstracts part of the code (e.g. a recursive call replaced by a free value under its contract) may offer
                # a realisability constraint: re-ask for a counterexample in which the abstracted value is the one the real code computes
                if getattr(ob, "realisable", None) is not None and not getattr(ob, "refined", False) and rounds < 5:
                    ob.refined = True

                    def fn3(K, *vs, _b=cur.fn, _r=ob.realisable):
                        r = _b(K, *vs)
                        return (T.and_(r[0], _r(K, *vs)), r[1])
                    ob3 = F.Ob(ob.name, ob.vars, fn3, ob.kind, ob.expect, getattr(ob, "realisable_routes", None) or ob.routes, ob.key, ob.kernels,
                               getattr(ob, "realisable_timeout", None) or ob.timeout, ob.note)
                    ob.cur = ob3
                    ob.first_model = fmt_model(ob, model)
                    again.append(ob)
                    continue
                # the solver's model may rest on an interpretation of an uninterpreted function (libm) or of an undefined value that the
                # real run does not share: search the kernel-argument boundary values for a natively reproducing witness before giving up
                if ob.vars and not getattr(ob, "reinterpreted", False) and getattr(ob, "realisable", None) is None and len(ob.vars) <= 3 \
                        and all(sv != T.INT for _, sv in ob.vars):
                    found = None
                    try:
                        cands = check.witness_candidates(ob)
                        for cand in cands:
                            pv2, qv2, calls2 = check.replay(cur, cand)
                            if pv2 is True and qv2 is False:
                                found = (cand, calls2)
                                break
                    except Exception:   # noqa
                        found = None
                    if found is not None:
                        cand, calls2 = found
                        check.notes.append("%s: the solver's counterexample %s did not reproduce (abstracted function / undefined value); a native "
                                           "search over boundary inputs found the reproducing witness %s" % (ob.name, fmt_model(ob, model), fmt_model(ob, cand)))
                        path = write_replay(check, ob, cand, calls2, "reproduced (witness found by native search after an unreproducible solver model)")
                        check.violations.append((ob.name, path, fmt_model(ob, cand)))
                        continue
                path = write_replay(check, ob, model, calls, "not reproduced pre=%r post=%r" % (pv, qv))
                why = ("the counterexample is for the width-reduced re-interpretation of the IR and does not lift to full width"
                       if getattr(ob, "reinterpreted", False) else "encoder or oracle error")
                check.inconclusive.append("%s: solver model %s does not reproduce natively (pre=%r post=%r); %s, see %s" % (
                    ob.name, fmt_model(ob, model), pv, qv, why, path))
                continue
            if st == "lowering-failed":
                # a compile-time verdict (the compiler's, not the solver's): the kernel line itself is ill-formed
                hitf = None
                for f in known:
                    if f.get("status") != "known":
                        continue
                    if f.get("ob_pattern") and not re.search(f["ob_pattern"], ob.name):
                        continue
                    pf = preds.get(f["id"])
                    pt = pf(ob, []) if pf is not None else None
                    if pt is not None and T.is_const(pt) and pt.attr:
                        hitf = f
                        break
                if hitf is not None:
                    if hitf["id"] not in [x[0] for x in check.findings_hit]:
                        print("KNOWN-FINDING: property=%s %s [first seen: %s]" % (check.pid, hitf["what"], ob.name))
                    check.findings_hit.append((hitf["id"], ob.name, {"lowering_stage": ob.key.get("compile_error", "")[:120]}))
                    counters["known_lowering"] = counters.get("known_lowering", 0) + 1
                    continue
                path = write_replay(check, ob, [], [], "lowering-failed: " + str(ob.key.get("compile_error", "")))
                check.violations.append((ob.name, path, {"lowering_stage": ob.key.get("compile_error", "")[:120]}))
                continue
            if st == "rejected":
                counters["rejected"] += 1
                if ob.kind != "stretch":
                    check.inconclusive.append("%s: could not be encoded: %s" % (ob.name, cur.detail))
                continue
            if ob.kind != "stretch":
                check.inconclusive.append("%s: not decided (%s) attempts=%s" % (ob.name, st, cur.attempts))
        if again:
            check.run_obligations([ob.cur for ob in again])
            for ob in again:
                ob.attempts = ob.attempts + ob.cur.attempts
        pending = again
    return counters


def run(check):
    known = load_known(check.pid)
    for f in known:
        if f.get("status") == "fixed":
            pass
    t0 = time.time()
    kernels = check.kernels()
    check.lower_all(kernels)
    t1 = time.time()
    bad = check.validate_translator()
    t2 = time.time()
    check.extra_cov["phase_seconds"] = {"lower_and_native_build": round(t1 - t0, 1), "translator_validation": round(t2 - t1, 1)}
    if bad:
        for b in bad[:10]:
            check.inconclusive.append("translator validation: %s inputs=%s: %s" % b)
    obs = check.obligations(check.K)
    only = os.environ.get("AUV_ONLY")      # development aid: restricts the run to matching obligations; such a run is marked inconclusive
    if only:
        import re
        obs = [ob for ob in obs if re.search(only, ob.name)]
        check.inconclusive.append("AUV_ONLY=%s set: development run over %d obligations, not a verdict" % (only, len(obs)))
    # automatic vacuity witnesses: the precondition of every claimed obligation must be satisfiable
    if getattr(check, "auto_witness", True):
        ws = []
        for ob in obs:
            if ob.expect != "unsat" or ob.fn is None or ob.status is not None or not ob.vars or ob.kind == "closed":
                continue

            def wfn(K, *vs, _f=ob.fn):
                r = _f(K, *vs)
                return r[0], T.TRUE
            w = F.Ob("autowitness:" + ob.name, ob.vars, wfn, kind="stretch", expect="sat", routes=ob.routes, key=ob.key,
                     kernels=ob.kernels, timeout=10, note="precondition is satisfiable (not vacuous)")
            w.auto = True
            ws.append(w)
        obs = obs + ws
    check.obs = obs
    t3 = time.time()
    check.run_obligations(obs)
    t4 = time.time()
    counters = process_results(check, obs, known)
    check.extra_cov["phase_seconds"].update({"build_obligations": round(t3 - t2, 1), "emit_and_solve": round(t4 - t3, 1),
                                             "classify_and_replay": round(time.time() - t4, 1)})
    slow = sorted([(round(ob.secs, 1), ob.name, ob.route) for ob in check.obs if ob.secs > 5], reverse=True)[:8]
    check.extra_cov["slowest_obligations"] = slow
    if os.environ.get("AUV_VERBOSE"):
        print("slowest:", slow)
        print("phases:", check.extra_cov["phase_seconds"], "compile", check.stats["compile_s"], "native", check.stats["native_build_s"])
    return counters


def sample_obs(check, n=4):
    out = []
    seen = set()
    for ob in check.obs:
        fam = ob.name.split(":")[0]
        if ob.trivial or ob.status not in ("unsat", "sat") or fam in seen or not getattr(ob, "_asr", None):
            continue
        seen.add(fam)
        try:
            txt = smt.emit_bv([ob._asr], []) if True else ""
        except Exception:   # noqa
            try:
                txt = smt.emit_int([ob._asr], [])
            except Exception:   # noqa
                txt = "(not printable)"
        srcs = [check.K[k].kernel.line() for k in ob.kernels if k in check.K][:4]
        out.append({"obligation": ob.name, "key": ob.key, "expect": ob.expect, "status": ob.status, "route": ob.route,
                    "solver_s": round(ob.secs, 3), "kernels": srcs, "smt2": txt[:3000]})
        if len(out) >= n:
            break
    if not out:
        # everything folded before the solver (structurally identical encodings): show such cases as they are
        seen = set()
        for ob in check.obs:
            fam = ob.name.split(":")[0]
            if ob.status != "unsat" or fam in seen or ob.fn is None:
                continue
            seen.add(fam)
            srcs = [check.K[k].kernel.line() for k in ob.kernels if k in check.K][:4]
            out.append({"obligation": ob.name, "key": ob.key, "expect": ob.expect, "status": ob.status, "route": ob.route,
                        "note": ob.note, "kernels": srcs,
                        "smt2": "(folded to false by the term constructors before any solver was called: both sides are the identical term)"})
            if len(out) >= n:
                break
    return out


def write_evidence(check, counters, wall, exit_code):
    os.makedirs(os.path.join(VERIF, "evidence"), exist_ok=True)
    functions = {}
    for name, h in check.K.items():
        fam = h.kernel.family
        d = functions.setdefault(fam, {"kernels": 0, "dropped": 0, "rejected": 0})
        d["kernels"] += 1
        if h.kernel.dropped:
            d["dropped"] += 1
        if h.error:
            d["rejected"] += 1
    nq = sum(len(ob.attempts) for ob in check.obs)
    solver = {r: {"queries": v[0], "seconds": round(v[1], 2)} for r, v in check.stats["solver_s"].items()}
    cov = {
        "evaluations": max(nq, 1) if check.obs else 0,
        "distinct_nontrivial": counters.get("nontrivial", 0),
        "rule": check.rule or ("one obligation = one (kernel instance, claim) pair, universally quantified over the kernel's "
                               "input values; distinct by (family, instance key); non-trivial = has at least one free "
                               "symbolic input and did not simplify to a constant before reaching a solver"),
        "samples": sample_obs(check),
        "obligations": counters.get("claimed", 0) + counters.get("closed", 0),
        "discharged": counters.get("discharged", 0),
        "claimed_obligations": counters.get("claimed", 0),
        "closed_obligations": counters.get("closed", 0),
        "closed_ok": counters.get("closed_ok", 0),
        "stretch_obligations": counters.get("stretch", 0),
        "stretch_discharged": counters.get("stretch_discharged", 0),
        "witness_queries": counters.get("witness", 0),
        "witness_sat": counters.get("witness_ok", 0),
        "simplified_before_solver": counters.get("trivial", 0),
        "obligations_skipped_out_of_domain": counters.get("skipped_domain", 0),
        "traces_validated_against_impl": check.stats["validated_points"],
        "translator_validation": {"kernels": check.stats["validated_kernels"], "points": check.stats["validated_points"],
                                  "builds": "clang++-14 -O1 sanitized-trap and g++ -O2, same TU, via byte-buffer shims"},
        "kernels_generated": check.stats["kernels_generated"],
        "kernels_dropped_by_domain": check.stats["kernels_dropped_by_domain"],
        "functions_encoded": functions,
        "bounds": check.bounds() if hasattr(check, "bounds") else {},
        "solver": solver,
        "solver_seconds_total": round(sum(v[1] for v in check.stats["solver_s"].values()), 2),
        "compile_seconds": round(check.stats["compile_s"], 2),
        "native_build_seconds": round(check.stats["native_build_s"], 2),
        "exhaustive": False,
        "known_findings_hit": [list(x) for x in check.findings_hit][:20],
        "inconclusive": check.inconclusive[:20],
        "notes": check.notes[:20],
        "exit_code": exit_code,
        "repo": F.REPO,
    }
    if check.level == "translation_validation":
        cov["programs"] = max(1, getattr(check, "programs", counters.get("claimed", 0) + counters.get("closed", 0)))
        cov["disagreements_checked"] = counters.get("nontrivial", 0)
    cov.update(check.extra_cov)
    ev = {"property_id": check.pid, "tier": check.tier, "seed": check.seed, "level": check.level, "coverage": cov,
          "assumptions": list(check.assumptions), "wall_s": round(wall, 2), "violations": len(check.violations)}
    path = os.path.join(VERIF, "evidence", check.pid + ".json")
    tmp = path + ".tmp"
    json.dump(ev, open(tmp, "w"), indent=1, default=str)
    os.replace(tmp, path)


def load_check(pid, tier, seed):
    mod = importlib.import_module("auverif.props." + pid)
    return mod.CHECK(tier, seed)


def main(argv=None):
    ap = argparse.ArgumentParser()
    ap.add_argument("pid")
    ap.add_argument("--tier", default=os.environ.get("VERIF_TIER", "quick"))
    ap.add_argument("--seed", type=int, default=int(os.environ.get("VERIF_SEED", "20260926")))
    ap.add_argument("--replay")
    ap.add_argument("--keep", action="store_true")
    a = ap.parse_args(argv)
    if a.tier not in ("quick", "thorough"):
        a.tier = "quick"
    t0 = time.time()
    if a.replay:
        return replay_main(a)
    check = load_check(a.pid, a.tier, a.seed)
    counters = {}
    code = 0
    try:
        counters = run(check)
    except F.Inconclusive as e:
        check.inconclusive.append(str(e))
    except Exception as e:   # noqa
        check.inconclusive.append("internal error: %s" % traceback.format_exc()[-1500:])
    if check.violations:
        code = 1
    elif check.inconclusive:
        code = 2
    wall = time.time() - t0
    try:
        write_evidence(check, counters, wall, code)
    finally:
        if not a.keep:
            check.cleanup()
        else:
            print("workdir kept:", check.workdir)
    for name, path, model in check.violations:
        print("VIOLATION property=%s replay=%s" % (check.pid, path))
        print("  obligation %s inputs %s" % (name, model))
    for msg in check.inconclusive[:20]:
        print("INCONCLUSIVE: " + msg)
    print("%s tier=%s: obligations=%d discharged=%d (closed %d/%d) stretch %d/%d witnesses %d/%d kernels=%d dropped=%d "
          "validated_points=%d wall=%.1fs exit=%d" % (
              check.pid, a.tier, counters.get("claimed", 0) + counters.get("closed", 0), counters.get("discharged", 0),
              counters.get("closed_ok", 0), counters.get("closed", 0),
              counters.get("stretch_discharged", 0), counters.get("stretch", 0), counters.get("witness_ok", 0),
              counters.get("witness", 0), check.stats["kernels_generated"], check.stats["kernels_dropped_by_domain"],
              check.stats["validated_points"], wall, code))
    return code


def replay_main(a):
    rec = json.load(open(a.replay))
    check = load_check(rec["property"], rec["tier"], rec["seed"])
    try:
        kernels = check.kernels()
        obs_needed = rec["obligation"]
        # lower everything that the obligation needs (cheap: only those kernels)
        names = set(rec.get("kernel_sources", {}).keys())
        ks = [k for k in kernels if k.name in names] or kernels
        check.lower_all(ks)
        for k in kernels:
            if k.name not in check.K:
                k.dropped = "(not built in replay mode)"
                check.K[k.name] = F.SymHandle(k, None, {})
        if rec.get("verdict", "").startswith("lowering-failed"):
            bad = [k for k in ks if k.dropped]
            for k in bad:
                print("  does not compile: %s\n    %s" % (k.line(), k.dropped))
            if bad:
                print("VIOLATION property=%s replay=%s" % (rec["property"], a.replay))
                return 1
            print("not reproduced on the current tree (kernels compile)")
            return 0
        obs = [ob for ob in check.obligations(check.K) if ob.name == obs_needed]
        if not obs:
            print("replay: obligation %s not found" % obs_needed)
            return 2
        ob = obs[0]
        pv, qv, calls = check.replay(ob, rec["model"])
        print("replay %s inputs=%s" % (ob.name, rec.get("model_hex")))
        for c in calls:
            print("  native:", c)
        print("  precondition=%r postcondition=%r" % (pv, qv))
        if pv is True and qv is False:
            print("VIOLATION property=%s replay=%s" % (rec["property"], a.replay))
            return 1
        print("not reproduced on the current tree")
        return 0
    finally:
        check.cleanup()


if __name__ == "__main__":
    sys.exit(main())
