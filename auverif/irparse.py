"""LLVM-14 textual IR -> simple SSA CFG objects.

Only the subset listed in DESIGN.md section 2.2 is understood; anything else raises
IRUnsupported with the offending text so that the kernel is rejected with a reason.
"""
import re


class IRUnsupported(Exception):
    pass


class Function:
    def __init__(self, name, ret_ty, params):
        self.name = name
        self.ret_ty = ret_ty
        self.params = params  # list of (ty, name)
        self.blocks = {}      # label -> list[Instr]
        self.order = []       # labels in textual order
        self.entry = None

    def ninstr(self):
        return sum(len(b) for b in self.blocks.values())


class Instr:
    __slots__ = ("res", "op", "ty", "args", "flags", "extra", "text")

    def __init__(self, res, op, ty, args, flags=(), extra=None, text=""):
        self.res = res
        self.op = op
        self.ty = ty
        self.args = args
        self.flags = tuple(flags)
        self.extra = extra
        self.text = text

    def __repr__(self):
        return "<%s>" % self.text


class Module:
    def __init__(self):
        self.functions = {}
        self.globals = {}   # name -> (ty, initializer-text, is_constant)
        self.declares = set()


_PARAM_ATTRS = {
    "noundef", "signext", "zeroext", "nonnull", "readonly", "readnone", "nocapture", "noalias",
    "returned", "inreg", "writeonly", "immarg", "nofree",
}

_define_re = re.compile(r"^define\s+(.*?)@([\w.$\"]+)\((.*)\)\s*[^()]*\{\s*$")


def split_top(s, sep=","):
    """Split s at top-level separators (outside (), [], {}, <>)."""
    out, depth, cur = [], 0, []
    i = 0
    while i < len(s):
        c = s[i]
        if c in "([{":
            depth += 1
        elif c in ")]}":
            depth -= 1
        elif c == "<" and not (i + 1 < len(s) and s[i + 1] == " "):
            # vector types not supported; '<' only appears in fcmp-free contexts here
            pass
        if c == sep and depth == 0:
            out.append("".join(cur).strip())
            cur = []
        else:
            cur.append(c)
        i += 1
    last = "".join(cur).strip()
    if last or out:
        out.append(last)
    return out


def parse_type_prefix(s):
    """Parse a type at the start of s; return (type_string, rest)."""
    s = s.lstrip()
    m = re.match(r"(i\d+|float|double|x86_fp80|void|half|ptr|label|metadata)", s)
    if m:
        ty = m.group(1)
        rest = s[m.end():]
    elif s.startswith("{") or s.startswith("["):
        close = {"{": "}", "[": "]"}[s[0]]
        depth = 0
        for i, c in enumerate(s):
            if c in "{[":
                depth += 1
            elif c in "}]":
                depth -= 1
                if depth == 0:
                    break
        ty = s[: i + 1]
        rest = s[i + 1:]
    elif s.startswith("%"):
        m = re.match(r"%[\w.\":$]+", s)
        ty = m.group(0)
        rest = s[m.end():]
    else:
        raise IRUnsupported("type: " + s[:60])
    # pointer stars / function pointer suffix
    while True:
        r2 = rest.lstrip()
        if r2.startswith("*"):
            ty += "*"
            rest = r2[1:]
        elif r2.startswith("("):
            # function type e.g. i32 (i32)*
            depth = 0
            for i, c in enumerate(r2):
                if c == "(":
                    depth += 1
                elif c == ")":
                    depth -= 1
                    if depth == 0:
                        break
            ty += r2[: i + 1]
            rest = r2[i + 1:]
        else:
            break
    return ty, rest


def strip_attrs(s):
    toks = s.split()
    while toks and (toks[0] in _PARAM_ATTRS or toks[0].startswith("align") or
                    toks[0].startswith("dereferenceable")):
        if toks[0] == "align":
            toks = toks[2:]
        else:
            toks = toks[1:]
    return " ".join(toks)


def parse_typed_operand(s):
    ty, rest = parse_type_prefix(s)
    return ty, strip_attrs(rest.strip())


def _strip_meta(line):
    # remove trailing ", !foo !n" and "#n" attribute refs
    line = re.sub(r",\s*![\w.]+\s+![\w.{}]+", "", line)
    line = re.sub(r",\s*align\s+\d+", "", line)
    return line.rstrip()


_binops = {"add", "sub", "mul", "udiv", "sdiv", "urem", "srem", "and", "or", "xor", "shl", "lshr",
           "ashr", "fadd", "fsub", "fmul", "fdiv", "frem"}
_casts = {"zext", "sext", "trunc", "fpext", "fptrunc", "sitofp", "uitofp", "fptosi", "fptoui",
          "bitcast", "ptrtoint", "inttoptr"}
_fmf = {"fast", "nnan", "ninf", "nsz", "arcp", "contract", "afn", "reassoc"}


def parse_instr(line):
    text = line.strip()
    line = _strip_meta(text)
    res = None
    m = re.match(r"(%[\w.\"]+)\s*=\s*(.*)$", line)
    if m:
        res, line = m.group(1), m.group(2)
    toks = line.split(None, 1)
    op = toks[0]
    rest = toks[1] if len(toks) > 1 else ""
    if op in ("tail", "musttail", "notail"):
        toks = rest.split(None, 1)
        op, rest = toks[0], toks[1]
    if op in _binops:
        flags = []
        while True:
            t = rest.split(None, 1)
            if t[0] in ("nsw", "nuw", "exact") or t[0] in _fmf:
                flags.append(t[0])
                rest = t[1]
            else:
                break
        ty, r = parse_type_prefix(rest)
        a, b = split_top(r)
        return Instr(res, op, ty, [a.strip(), b.strip()], flags, text=text)
    if op == "fneg":
        t = rest.split()
        while t[0] in _fmf:
            t = t[1:]
        return Instr(res, op, t[0], [t[1]], text=text)
    if op in ("icmp", "fcmp"):
        t = rest.split(None, 1)
        while t[0] in _fmf:
            t = t[1].split(None, 1)
        pred = t[0]
        ty, r = parse_type_prefix(t[1])
        a, b = split_top(r)
        return Instr(res, op, ty, [a.strip(), b.strip()], extra=pred, text=text)
    if op in _casts:
        ty, r = parse_type_prefix(rest)
        m2 = re.match(r"\s*(.*?)\s+to\s+(.*)$", r)
        v = m2.group(1)
        ty2, _ = parse_type_prefix(m2.group(2))
        return Instr(res, op, ty2, [v], extra=ty, text=text)
    if op == "select":
        parts = split_top(rest)
        c = parse_typed_operand(parts[0])
        a = parse_typed_operand(parts[1])
        b = parse_typed_operand(parts[2])
        return Instr(res, op, a[0], [c[1], a[1], b[1]], text=text)
    if op == "freeze":
        ty, v = parse_typed_operand(rest)
        return Instr(res, op, ty, [v], text=text)
    if op == "phi":
        ty, r = parse_type_prefix(rest)
        inc = []
        for part in split_top(r):
            m2 = re.match(r"\[\s*(.*?)\s*,\s*(%[\w.\"]+)\s*\]", part)
            inc.append((m2.group(1), m2.group(2)))
        return Instr(res, op, ty, inc, text=text)
    if op == "br":
        if rest.startswith("label"):
            return Instr(None, "br", None, [rest.split()[1]], text=text)
        parts = split_top(rest)
        c = parse_typed_operand(parts[0])[1]
        return Instr(None, "condbr", None, [c, parts[1].split()[1], parts[2].split()[1]], text=text)
    if op == "switch":
        m2 = re.match(r"(.*?),\s*label\s+(%[\w.\"]+)\s*\[(.*)\]", rest)
        ty, v = parse_typed_operand(m2.group(1))
        cases = re.findall(r"i\d+\s+(-?\d+),\s*label\s+(%[\w.\"]+)", m2.group(3))
        return Instr(None, "switch", ty, [v, m2.group(2), cases], text=text)
    if op == "ret":
        if rest.strip() == "void":
            return Instr(None, "ret", "void", [], text=text)
        ty, v = parse_typed_operand(rest)
        return Instr(None, "ret", ty, [v], text=text)
    if op == "unreachable":
        return Instr(None, "unreachable", None, [], text=text)
    if op == "call":
        # strip call attrs and fast-math flags
        while True:
            t = rest.split(None, 1)
            if t[0] in _fmf or t[0] in _PARAM_ATTRS or t[0] in ("fastcc", "ccc") or t[0].startswith("dereferenceable"):
                rest = t[1]
            elif t[0] == "align":
                rest = t[1].split(None, 1)[1]
            else:
                break
        ty, r = parse_type_prefix(rest)
        r = r.strip()
        m2 = re.match(r"(@[\w.$\"]+)\((.*)\)(\s*#\d+)?\s*$", r)
        if not m2:
            raise IRUnsupported("indirect or odd call: " + text)
        args = []
        inner = m2.group(2).strip()
        if inner:
            for part in split_top(inner):
                args.append(parse_typed_operand(part))
        return Instr(res, "call", ty, args, extra=m2.group(1), text=text)
    if op == "extractvalue":
        ty, r = parse_type_prefix(rest)
        parts = split_top(r)
        return Instr(res, op, ty, [parts[0].strip()], extra=[int(p) for p in parts[1:]], text=text)
    if op == "insertvalue":
        ty, r = parse_type_prefix(rest)
        parts = split_top(r)
        ety, ev = parse_typed_operand(parts[1])
        return Instr(res, op, ty, [parts[0].strip(), ev], extra=([int(p) for p in parts[2:]], ety),
                     text=text)
    if op == "load":
        if rest.startswith("volatile"):
            raise IRUnsupported("volatile load")
        ty, r = parse_type_prefix(rest)
        parts = split_top(r)
        pty, pv = parse_typed_operand(parts[1])
        return Instr(res, op, ty, [pv], extra=pty, text=text)
    if op == "store":
        parts = split_top(rest)
        vty, vv = parse_typed_operand(parts[0])
        pty, pv = parse_typed_operand(parts[1])
        return Instr(None, op, vty, [vv, pv], extra=pty, text=text)
    if op == "getelementptr":
        inb = False
        if rest.startswith("inbounds"):
            inb = True
            rest = rest[len("inbounds"):].strip()
        parts = split_top(rest)
        base_ty = parts[0]
        pty, pv = parse_typed_operand(parts[1])
        idx = [parse_typed_operand(p) for p in parts[2:]]
        return Instr(res, op, base_ty, [pv] + idx, flags=("inbounds",) if inb else (), text=text)
    if op == "alloca":
        parts = split_top(rest)
        return Instr(res, op, parts[0], [], text=text)
    raise IRUnsupported("instruction: " + text)


def parse_module(text):
    mod = Module()
    cur = None
    cur_label = None
    # a switch with more than a couple of cases is printed over several lines: join "switch ... [" with its case lines up to "]"
    joined = []
    pending = None
    for raw in text.splitlines():
        if pending is not None:
            pending += " " + raw.strip()
            if raw.strip().startswith("]"):
                joined.append(pending)
                pending = None
            continue
        st = raw.strip()
        if st.startswith("switch ") and st.endswith("[") :
            pending = raw.rstrip()
            continue
        joined.append(raw)
    for raw in joined:
        line = raw.rstrip()
        if not line or line.startswith(";") or line.startswith("!") or line.startswith("source_filename") \
                or line.startswith("target ") or line.startswith("attributes ") or line.startswith("$"):
            continue
        if cur is None:
            if line.startswith("define"):
                m = _define_re.match(line)
                if not m:
                    raise IRUnsupported("define: " + line)
                head, name, params = m.group(1), m.group(2), m.group(3)
                # head: linkage/attrs + return type (last type token)
                head_toks = head.split()
                # find return type: scan from the right for something parseable as a type
                ret_ty = None
                for i in range(len(head_toks)):
                    cand = " ".join(head_toks[i:])
                    try:
                        ty, rest = parse_type_prefix(cand)
                        if rest.strip() == "":
                            ret_ty = ty
                            break
                    except IRUnsupported:
                        continue
                if ret_ty is None:
                    raise IRUnsupported("return type: " + line)
                plist = []
                if params.strip():
                    for k, p in enumerate(split_top(params)):
                        if p.strip() == "...":
                            raise IRUnsupported("varargs")
                        ty, rest = parse_type_prefix(p)
                        rest = strip_attrs(rest.strip())
                        plist.append((ty, rest if rest else "%" + str(k)))
                cur = Function(name, ret_ty, plist)
                # unnamed entry block gets label %<n> where n = number of unnamed params
                nun = sum(1 for _, n in plist if re.match(r"%\d+$", n))
                cur_label = "%" + str(nun)
                cur.entry = cur_label
                cur.blocks[cur_label] = []
                cur.order.append(cur_label)
            elif line.startswith("declare"):
                m = re.search(r"@([\w.$\"]+)\(", line)
                if m:
                    mod.declares.add(m.group(1))
            elif line.startswith("@"):
                m = re.match(r"(@[\w.$\"]+)\s*=\s*(.*)$", line)
                mod.globals[m.group(1)] = m.group(2)
            continue
        if line == "}":
            mod.functions[cur.name] = cur
            cur = None
            continue
        m = re.match(r"^([\w.\"]+):", line)
        if m:
            cur_label = "%" + m.group(1)
            cur.blocks[cur_label] = []
            cur.order.append(cur_label)
            continue
        ins = parse_instr(line)
        cur.blocks[cur_label].append(ins)
    # a named entry block: first label line overrides
    for f in mod.functions.values():
        if not f.blocks[f.entry] and len(f.order) > 1:
            del f.blocks[f.entry]
            f.order.pop(0)
            f.entry = f.order[0]
    return mod
