"""Independent exact model pieces: arithmetic type ranges, factor grids (DESIGN.md section 5)."""
from fractions import Fraction
from math import gcd, isqrt

from .framework import CTYPES, ct_range, promoted, INT_REPS

LIB_RATIOS = [
    (381, 1250), (1250, 381), (12, 1), (1, 12), (3, 1), (5280, 1), (1, 5280), (201168, 125), (60, 1), (3600, 1),
    (1, 86400), (9, 5), (5, 9), (1000, 1), (1, 1000), (1000000, 1), (1, 1000000), (10 ** 9, 1), (1, 10 ** 9),
    (10 ** 12, 1), (10 ** 18, 1), (1, 10 ** 18), (1024, 1), (1, 1024), (1 << 20, 1), (1, 1 << 30),
    (45359237, 10 ** 8), (196133, 20000), (1852, 1), (1, 1852), (2, 3), (3, 2), (7, 11), (100, 3), (1, 3), (1, 2), (2, 1),
]

BIG_PRIMES = [2 ** 31 - 1, 2 ** 32 + 15, 2 ** 61 - 1, 2 ** 63 - 25, 2 ** 63 + 29, 2 ** 64 - 59]


def coprime_fix(n, d):
    """step d to a coprime neighbour (keeps n)"""
    if n < 1:
        n = 1
    if d < 1:
        d = 1
    k = 0
    while gcd(n, d + k) != 1:
        k += 1
    return n, d + k


def boundary_numbers(ct):
    lo, hi = ct_range(ct)
    p = promoted(ct)
    plo, phi = ct_range(p)
    w = CTYPES[ct][1]
    out = {hi - 1, hi, hi + 1, phi - 1, phi, phi + 1, phi // hi - 1, phi // hi, phi // hi + 1,
           isqrt(phi) - 1, isqrt(phi), isqrt(phi) + 1, isqrt(hi), isqrt(hi) + 1,
           2147, hi // 2147 if hi >= 2147 else 3, hi // 2147 + 1}
    for k in (w - 2, w - 1, w, 31, 32, 63):
        if 1 <= k <= 63:
            out |= {(1 << k) - 1, 1 << k, (1 << k) + 1}
    if -lo != hi:           # signed: |min|
        out |= {-lo, -lo - 1}
    return sorted(x for x in out if 1 <= x < (1 << 64))


def factor_grid(ct, tier, rng):
    """List of coprime (N, D) for rep ct."""
    lo, hi = ct_range(ct)
    out = []
    seen = set()

    def add(n, d):
        n, d = int(n), int(d)
        if n < 1 or d < 1 or n >= (1 << 64) or d >= (1 << 64):
            return
        g = gcd(n, d)
        n, d = n // g, d // g
        if (n, d) in seen or (n, d) == (1, 1):
            return
        seen.add((n, d))
        out.append((n, d))

    QUICK_LIB = [(381, 1250), (12, 1), (1, 12), (5280, 1), (3600, 1), (1, 86400), (9, 5), (5, 9), (1000, 1), (1, 1000),
                 (10 ** 9, 1), (1, 10 ** 6), (1024, 1), (45359237, 10 ** 8), (1250, 381), (100, 3)]
    lib = LIB_RATIOS if tier == "thorough" else QUICK_LIB
    for n, d in lib:
        add(n, d)
    b = boundary_numbers(ct)
    phi = ct_range(promoted(ct))[1]
    if tier == "quick":
        pick = b[:: max(1, len(b) // 8)]
        pick = sorted(set(pick) | {hi, hi + 1, phi, phi // hi, phi // hi + 1})
    else:
        pick = b
    for j, x in enumerate(pick):
        add(x, 1)
        add(1, x)
        shapes = [coprime_fix(x, 3), coprime_fix(3, x), coprime_fix(7, x), coprime_fix(x, 7)]
        if tier == "quick":
            add(*shapes[j % 4])
            add(*shapes[(j + 2) % 4])
        else:
            for sh in shapes:
                add(*sh)
    if tier == "thorough":
        for p in BIG_PRIMES:
            add(p, 1)
            add(1, p)
            add(p, 2)
            add(3, p)
    else:
        add(2 ** 31 - 1, 1)
        add(1, 2 ** 31 - 1)
        add(2 ** 61 - 1, 2)
        add(3, 2 ** 61 - 1)
        add(2 ** 63 - 25, 1)
        add(1, 2 ** 63 - 25)
    # two large coprime numbers that both fit the rep: factors just below and just above 1 whose numerator is near max(T)
    # (for a sub-int rep the product x*N then approaches max(T)^2, the limit of the promoted type)
    import sympy
    p2 = int(sympy.prevprime(min(hi, 2 ** 63) + 1))
    p1 = int(sympy.prevprime(p2))
    add(p1, p2)
    add(p2, p1)
    half = int(sympy.nextprime(hi // 2 + 1))
    add(half, p2)
    if tier == "thorough":
        for x in pick[::3]:
            for y in pick[1::4]:
                add(x, y)
        nrand = 60
        for _ in range(nrand):
            nb = rng.randrange(1, 64)
            db = rng.randrange(1, 64)
            add(rng.getrandbits(nb) | 1, rng.getrandbits(db) | 1)
    return out


def conversion_compiles(ct, n, d):
    """Model of the domain 'the conversion compiles' for a same-rep integral conversion."""
    lo, hi = ct_range(ct)
    phi = ct_range(promoted(ct))[1]
    if d == 1:
        return n <= hi
    if n == 1:
        return d <= hi
    return n <= phi and d <= phi
