"""Hash-consed term DAG shared by the encoder, the oracles, the emitters and the evaluator.

Sorts: ('bv', w) | 'bool' | 'int'.  Floating-point values are carried as bit-vectors
(float: 32, double: 64, x86_fp80: 79 = SMT (_ FloatingPoint 15 64) layout without the explicit
integer bit) and only interpreted as FP inside the fp.* operators.
"""
import sys

sys.setrecursionlimit(100000)

BOOL = "bool"
INT = "int"


def BV(w):
    return ("bv", w)


FMT = {"float": (8, 24), "double": (11, 53), "x86_fp80": (15, 64)}


def fmt_width(fmt):
    return fmt[0] + fmt[1]


class T:
    __slots__ = ("op", "args", "sort", "attr", "_h", "uid")
    _table = {}
    _next = [0]

    def __repr__(self):
        return show(self, 4)


def mk(op, args, sort, attr=None):
    key = (op, attr, sort, tuple(a.uid for a in args))
    t = T._table.get(key)
    if t is None:
        t = T()
        t.op = op
        t.args = tuple(args)
        t.sort = sort
        t.attr = attr
        t.uid = T._next[0]
        T._next[0] += 1
        T._table[key] = t
    return t


def show(t, depth=3):
    if t.op == "const":
        return str(t.attr) if t.sort != BOOL else ("true" if t.attr else "false")
    if t.op == "var":
        return str(t.attr)
    if depth == 0:
        return "..."
    a = " ".join(show(x, depth - 1) for x in t.args)
    at = "" if t.attr is None else "[%s]" % (t.attr,)
    return "(%s%s %s)" % (t.op, at, a)


# ---------------------------------------------------------------- constructors

def const_bv(v, w):
    return mk("const", (), BV(w), v & ((1 << w) - 1))


def const_bool(b):
    return mk("const", (), BOOL, bool(b))


TRUE = const_bool(True)
FALSE = const_bool(False)


def const_int(v):
    return mk("const", (), INT, int(v))


def var(name, sort):
    return mk("var", (), sort, name)


def is_const(t):
    return t.op == "const"


def width(t):
    assert t.sort[0] == "bv", t
    return t.sort[1]


def _sgn(v, w):
    return v - (1 << w) if v >> (w - 1) else v


_BV_FOLD = {
    "bvadd": lambda a, b, w: a + b,
    "bvsub": lambda a, b, w: a - b,
    "bvmul": lambda a, b, w: a * b,
    "bvand": lambda a, b, w: a & b,
    "bvor": lambda a, b, w: a | b,
    "bvxor": lambda a, b, w: a ^ b,
    "bvudiv": lambda a, b, w: (a // b) if b else (1 << w) - 1,
    "bvurem": lambda a, b, w: (a % b) if b else a,
    "bvshl": lambda a, b, w: (a << b) if b < w else 0,
    "bvlshr": lambda a, b, w: (a >> b) if b < w else 0,
}


def _sdiv(a, b, w):
    sa, sb = _sgn(a, w), _sgn(b, w)
    if sb == 0:
        return 1 if sa < 0 else (1 << w) - 1
    q = abs(sa) // abs(sb)
    return -q if (sa < 0) != (sb < 0) else q


def _srem(a, b, w):
    sa, sb = _sgn(a, w), _sgn(b, w)
    if sb == 0:
        return sa
    r = abs(sa) % abs(sb)
    return -r if sa < 0 else r


def _ashr(a, b, w):
    sa = _sgn(a, w)
    return sa >> min(b, w - 1)


_BV_FOLD["bvsdiv"] = _sdiv
_BV_FOLD["bvsrem"] = _srem
_BV_FOLD["bvashr"] = _ashr


def bvop(op, a, b):
    w = width(a)
    assert a.sort == b.sort, (op, a.sort, b.sort)
    if is_const(a) and is_const(b):
        return const_bv(_BV_FOLD[op](a.attr, b.attr, w), w)
    # light identities
    if op in ("bvadd", "bvor", "bvxor", "bvsub", "bvshl", "bvlshr", "bvashr") and is_const(b) and b.attr == 0:
        return a
    if op in ("bvadd", "bvor", "bvxor") and is_const(a) and a.attr == 0:
        return b
    if op == "bvmul":
        if is_const(b) and b.attr == 1:
            return a
        if is_const(a) and a.attr == 1:
            return b
    if op in ("bvudiv", "bvsdiv") and is_const(b) and b.attr == 1:
        return a
    return mk(op, (a, b), a.sort)


def bvnot(a):
    w = width(a)
    if is_const(a):
        return const_bv(~a.attr, w)
    return mk("bvnot", (a,), a.sort)


def bvneg(a):
    return bvop("bvsub", const_bv(0, width(a)), a)


def eq(a, b):
    assert a.sort == b.sort, (a.sort, b.sort, a, b)
    if a is b:
        return TRUE
    if is_const(a) and is_const(b):
        return const_bool(a.attr == b.attr)
    if a.sort == BOOL:
        if is_const(a):
            return b if a.attr else not_(b)
        if is_const(b):
            return a if b.attr else not_(a)
    if a.uid > b.uid:
        a, b = b, a
    return mk("eq", (a, b), BOOL)


def ne(a, b):
    return not_(eq(a, b))


def bvcmp(op, a, b):
    """op in ult ule ugt uge slt sle sgt sge"""
    w = width(a)
    assert a.sort == b.sort
    if op in ("ugt", "uge", "sgt", "sge"):
        a, b = b, a
        op = {"ugt": "ult", "uge": "ule", "sgt": "slt", "sge": "sle"}[op]
    if is_const(a) and is_const(b):
        x, y = a.attr, b.attr
        if op[0] == "s":
            x, y = _sgn(x, w), _sgn(y, w)
        return const_bool(x < y if op.endswith("lt") else x <= y)
    if a is b:
        return const_bool(op.endswith("le"))
    return mk("bv" + op, (a, b), BOOL)


def not_(a):
    assert a.sort == BOOL
    if is_const(a):
        return const_bool(not a.attr)
    if a.op == "not":
        return a.args[0]
    return mk("not", (a,), BOOL)


def and_(*xs):
    out = []
    seen = set()
    for x in xs:
        assert x.sort == BOOL, x
        if is_const(x):
            if not x.attr:
                return FALSE
            continue
        if x.op == "and":
            for y in x.args:
                if y.uid not in seen:
                    seen.add(y.uid)
                    out.append(y)
            continue
        if x.uid not in seen:
            seen.add(x.uid)
            out.append(x)
    for x in out:
        if x.op == "not" and x.args[0].uid in seen:
            return FALSE
    if not out:
        return TRUE
    if len(out) == 1:
        return out[0]
    return mk("and", out, BOOL)


def or_(*xs):
    out = []
    seen = set()
    for x in xs:
        assert x.sort == BOOL, x
        if is_const(x):
            if x.attr:
                return TRUE
            continue
        if x.op == "or":
            for y in x.args:
                if y.uid not in seen:
                    seen.add(y.uid)
                    out.append(y)
            continue
        if x.uid not in seen:
            seen.add(x.uid)
            out.append(x)
    for x in out:
        if x.op == "not" and x.args[0].uid in seen:
            return TRUE
    if not out:
        return FALSE
    if len(out) == 1:
        return out[0]
    return mk("or", out, BOOL)


def xor_(a, b):
    return not_(eq(a, b))


def implies(a, b):
    return or_(not_(a), b)


def ite(c, a, b):
    assert c.sort == BOOL and a.sort == b.sort, (c.sort, a.sort, b.sort)
    if is_const(c):
        return a if c.attr else b
    if a is b:
        return a
    if a.sort == BOOL:
        if is_const(a) and is_const(b):
            return c if a.attr else not_(c)
        if is_const(a):
            return or_(c, b) if a.attr else and_(not_(c), b)
        if is_const(b):
            return or_(not_(c), a) if b.attr else and_(c, a)
    return mk("ite", (c, a, b), a.sort)


def zext(a, w):
    w0 = width(a)
    assert w >= w0
    if w == w0:
        return a
    if is_const(a):
        return const_bv(a.attr, w)
    return mk("zext", (a,), BV(w), w)


def sext(a, w):
    w0 = width(a)
    assert w >= w0
    if w == w0:
        return a
    if is_const(a):
        return const_bv(_sgn(a.attr, w0), w)
    return mk("sext", (a,), BV(w), w)


def extract(a, hi, lo):
    w0 = width(a)
    assert 0 <= lo <= hi < w0
    if lo == 0 and hi == w0 - 1:
        return a
    if is_const(a):
        return const_bv(a.attr >> lo, hi - lo + 1)
    return mk("extract", (a,), BV(hi - lo + 1), (hi, lo))


def trunc(a, w):
    return extract(a, w - 1, 0)


def concat(a, b):
    if is_const(a) and is_const(b):
        return const_bv((a.attr << width(b)) | b.attr, width(a) + width(b))
    return mk("concat", (a, b), BV(width(a) + width(b)))


def bool_to_bv(c, w=1):
    return ite(c, const_bv(1, w), const_bv(0, w))


def bv1_to_bool(a):
    return eq(a, const_bv(1, 1))


# ---- floating point (bit-vector carried)

def fp_bin(op, fmt, a, b):
    """op in add sub mul div rem; RNE."""
    w = fmt_width(fmt)
    assert width(a) == w and width(b) == w
    if is_const(a) and is_const(b):
        from . import fpeval
        r = fpeval.binop(op, fmt, a.attr, b.attr)
        if r is not None:
            return const_bv(r, w)
    return mk("fp." + op, (a, b), BV(w), fmt)


def fp_un(op, fmt, a):
    """op in sqrt, rtz rtn rtp rna rne (round to integral)"""
    w = fmt_width(fmt)
    assert width(a) == w
    if is_const(a):
        from . import fpeval
        r = fpeval.unop(op, fmt, a.attr)
        if r is not None:
            return const_bv(r, w)
    return mk("fp." + op, (a,), BV(w), fmt)


def fp_cmp(pred, fmt, a, b):
    """pred in oeq ogt oge olt ole one ord ueq ugt uge ult ule une uno"""
    if pred == "true":
        return TRUE
    if pred == "false":
        return FALSE
    if is_const(a) and is_const(b):
        from . import fpeval
        return const_bool(fpeval.cmp(pred, fmt, a.attr, b.attr))
    return mk("fp.cmp", (a, b), BOOL, (pred, fmt))


def fp_cvt(f1, f2, a):
    if f1 == f2:
        return a
    if is_const(a):
        from . import fpeval
        r = fpeval.cvt(f1, f2, a.attr)
        if r is not None:
            return const_bv(r, fmt_width(f2))
    return mk("fp.cvt", (a,), BV(fmt_width(f2)), (f1, f2))


def fp_from_int(signed, fmt, a):
    if is_const(a):
        from . import fpeval
        r = fpeval.from_int(signed, fmt, a.attr, width(a))
        if r is not None:
            return const_bv(r, fmt_width(fmt))
    return mk("fp.from_sint" if signed else "fp.from_uint", (a,), BV(fmt_width(fmt)), fmt)


def fp_to_int(signed, fmt, a, w):
    """RTZ conversion; the value for out-of-range input is unspecified (UB is asserted separately)."""
    if is_const(a):
        from . import fpeval
        r = fpeval.to_int(signed, fmt, a.attr, w)
        if r is not None:
            return const_bv(r, w)
    return mk("fp.to_sint" if signed else "fp.to_uint", (a,), BV(w), (fmt, w))


def fp_exp_bits(fmt, a):
    eb, sb = fmt
    return extract(a, eb + sb - 2, sb - 1)


def fp_frac_bits(fmt, a):
    eb, sb = fmt
    return extract(a, sb - 2, 0)


def fp_sign(fmt, a):
    eb, sb = fmt
    return eq(extract(a, eb + sb - 1, eb + sb - 1), const_bv(1, 1))


def fp_isnan(fmt, a):
    eb, sb = fmt
    return and_(eq(fp_exp_bits(fmt, a), const_bv(-1, eb)), ne(fp_frac_bits(fmt, a), const_bv(0, sb - 1)))


def fp_isinf(fmt, a):
    eb, sb = fmt
    return and_(eq(fp_exp_bits(fmt, a), const_bv(-1, eb)), eq(fp_frac_bits(fmt, a), const_bv(0, sb - 1)))


def fp_isfinite(fmt, a):
    eb, sb = fmt
    return ne(fp_exp_bits(fmt, a), const_bv(-1, eb))


def fp_abs(fmt, a):
    w = fmt_width(fmt)
    return bvop("bvand", a, const_bv((1 << (w - 1)) - 1, w))


def fp_neg(fmt, a):
    w = fmt_width(fmt)
    return bvop("bvxor", a, const_bv(1 << (w - 1), w))


def fp_copysign(fmt, a, b):
    w = fmt_width(fmt)
    return bvop("bvor", bvop("bvand", a, const_bv((1 << (w - 1)) - 1, w)),
                bvop("bvand", b, const_bv(1 << (w - 1), w)))


def uf(name, sort, args):
    return mk("uf", tuple(args), sort, name)


# ---- mathematical integers (oracle side)

def sval(a):
    if is_const(a):
        return const_int(_sgn(a.attr, width(a)))
    return mk("sval", (a,), INT)


def uval(a):
    if is_const(a):
        return const_int(a.attr)
    if a.op == "zext":
        return uval(a.args[0])
    return mk("uval", (a,), INT)


def b2i(c):
    return ite(c, const_int(1), const_int(0))


def _floordiv(a, b):
    return a // b


_INT_FOLD = {
    "iadd": lambda a, b: a + b,
    "isub": lambda a, b: a - b,
    "imul": lambda a, b: a * b,
}


def iop(op, a, b):
    assert a.sort == INT and b.sort == INT
    if is_const(a) and is_const(b):
        if op in _INT_FOLD:
            return const_int(_INT_FOLD[op](a.attr, b.attr))
        if op == "idiv" and b.attr != 0:   # SMT-LIB div: a = b*q + r, 0 <= r < |b|
            q = a.attr // b.attr if b.attr > 0 else -(a.attr // -b.attr)
            return const_int(q)
        if op == "imod" and b.attr != 0:
            return const_int(a.attr % abs(b.attr))
    if op == "imul":
        if is_const(a) and a.attr == 1:
            return b
        if is_const(b) and b.attr == 1:
            return a
    if op in ("iadd", "isub") and is_const(b) and b.attr == 0:
        return a
    if op == "iadd" and is_const(a) and a.attr == 0:
        return b
    return mk(op, (a, b), INT)


def iadd(a, b):
    return iop("iadd", a, b)


def isub(a, b):
    return iop("isub", a, b)


def imul(a, b):
    return iop("imul", a, b)


def idiv(a, b):
    """SMT-LIB Euclidean division."""
    return iop("idiv", a, b)


def imod(a, b):
    return iop("imod", a, b)


def ineg(a):
    return isub(const_int(0), a)


def ile(a, b):
    assert a.sort == INT and b.sort == INT
    if is_const(a) and is_const(b):
        return const_bool(a.attr <= b.attr)
    return mk("ile", (a, b), BOOL)


def ilt(a, b):
    assert a.sort == INT and b.sort == INT
    if is_const(a) and is_const(b):
        return const_bool(a.attr < b.attr)
    return mk("ilt", (a, b), BOOL)


def ige(a, b):
    return ile(b, a)


def igt(a, b):
    return ilt(b, a)


def iabs(a):
    return ite(ilt(a, const_int(0)), ineg(a), a)


def in_range(a, lo, hi):
    return and_(ile(const_int(lo), a), ile(a, const_int(hi)))


def itrunc_div(a, b):
    """C-style truncating division for Int terms with constant positive b or general sign handling."""
    q = idiv(iabs(a), iabs(b))
    neg = xor_(ilt(a, const_int(0)), ilt(b, const_int(0)))
    return ite(neg, ineg(q), q)


# ---- traversal helpers

def subterms(roots):
    seen = {}
    order = []
    stack = [(r, False) for r in roots]
    while stack:
        t, done = stack.pop()
        if done:
            order.append(t)
            continue
        if t.uid in seen:
            continue
        seen[t.uid] = t
        stack.append((t, True))
        for a in t.args:
            if a.uid not in seen:
                stack.append((a, False))
    return order


def free_vars(roots):
    return [t for t in subterms(roots) if t.op == "var"]


def substitute(root, mapping):
    """mapping: uid -> term. Rebuilds through the smart constructors' raw mk (no refolding) except
    when all args become const, where rebuild() folds."""
    memo = {}
    for t in subterms([root]):
        if t.uid in mapping:
            memo[t.uid] = mapping[t.uid]
        elif not t.args:
            memo[t.uid] = t
        else:
            nargs = tuple(memo[a.uid] for a in t.args)
            if all(n is o for n, o in zip(nargs, t.args)):
                memo[t.uid] = t
            else:
                memo[t.uid] = rebuild(t, nargs)
    return memo[root.uid]


def rebuild(t, args):
    op = t.op
    if op in _BV_FOLD:
        return bvop(op, *args)
    if op == "bvnot":
        return bvnot(args[0])
    if op == "eq":
        return eq(*args)
    if op in ("bvult", "bvule", "bvslt", "bvsle"):
        return bvcmp(op[2:], *args)
    if op == "not":
        return not_(args[0])
    if op == "and":
        return and_(*args)
    if op == "or":
        return or_(*args)
    if op == "ite":
        return ite(*args)
    if op == "zext":
        return zext(args[0], t.attr)
    if op == "sext":
        return sext(args[0], t.attr)
    if op == "extract":
        return extract(args[0], *t.attr)
    if op == "concat":
        return concat(*args)
    if op in ("fp.add", "fp.sub", "fp.mul", "fp.div", "fp.rem"):
        return fp_bin(op[3:], t.attr, *args)
    if op in ("fp.sqrt", "fp.rtz", "fp.rtn", "fp.rtp", "fp.rna", "fp.rne"):
        return fp_un(op[3:], t.attr, args[0])
    if op == "fp.cmp":
        return fp_cmp(t.attr[0], t.attr[1], *args)
    if op == "fp.cvt":
        return fp_cvt(t.attr[0], t.attr[1], args[0])
    if op in ("fp.from_sint", "fp.from_uint"):
        return fp_from_int(op == "fp.from_sint", t.attr, args[0])
    if op in ("fp.to_sint", "fp.to_uint"):
        return fp_to_int(op == "fp.to_sint", t.attr[0], args[0], t.attr[1])
    if op == "uf":
        return uf(t.attr, t.sort, args)
    if op == "sval":
        return sval(args[0])
    if op == "uval":
        return uval(args[0])
    if op in ("iadd", "isub", "imul", "idiv", "imod"):
        return iop(op, *args)
    if op == "ile":
        return ile(*args)
    if op == "ilt":
        return ilt(*args)
    raise ValueError("rebuild: " + op)
