#!/bin/sh
# Offline setup: build the native kernel runner. Everything else is Python run from source.
set -e
cd "$(dirname "$0")"
mkdir -p build evidence
g++ -O1 -o build/runner auverif/runner.cc -ldl
python3-vt -c "import z3, numpy" 
echo setup ok
