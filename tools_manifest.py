#!/usr/bin/env python3
"""Regenerates MANIFEST.json from the table below (kept in one place so it is always valid)."""
import json, os
HERE = os.path.dirname(os.path.abspath(__file__))
CHECKS = {}
NA = {}
exec(open(os.path.join(HERE, "manifest_table.py")).read())
props = [json.loads(l)["id"] for l in open(os.path.join(HERE, "properties.jsonl"))]
checks = []
for pid in props:
    if pid in CHECKS:
        c = CHECKS[pid]
        checks.append({
            "property_id": pid,
            "quick_cmd": "./check %s --tier quick" % pid,
            "thorough_cmd": "./check %s --tier thorough" % pid,
            "evidence_file": "/verif/evidence/%s.json" % pid,
            "replay_cmd_template": "./check %s --replay {path}" % pid,
            "engine": "auverif",
            "level_claimed": {"category": c["category"], "text": c["text"], "design_ref": "DESIGN.md section 6, " + pid},
            "level_note": c["note"],
            "technique": c["technique"],
        })
man = {
    "version": 1,
    "setup_cmd": "./setup.sh",
    "hooks": {"guard": "AU_VERIF", "enable": "none needed: kernels reach everything through public API or au::detail names; no hook commits",
              "baseline_off_cmd": "cmake --build /repo/_build -j16 && ctest --test-dir /repo/_build -j8 --timeout 900",
              "source_commits": [], "add_only": True},
    "engines": [{"name": "auverif", "path": "/verif/auverif", "serves_properties": sorted(CHECKS),
                 "kind_free_text": "generated extern-C kernels over the real Au templates -> clang++-14 -O1 LLVM IR with UBSan trap blocks -> own IR->SMT "
                                   "encoder (bit-vector/FP and integer emissions) -> z3 5.1 / cvc5 1.0.3; counterexamples replayed natively (clang UBSan + g++)"}],
    "checks": checks,
    "notes": "Exit codes: 0 held, 1 VIOLATION (reproduced natively), 2 INCONCLUSIVE (encoding could not be built or a claimed obligation undecided; never a VIOLATION line). "
             "Known findings: /verif/known_findings.json.",
    "not_applicable": [{"property_id": p, "reason": NA.get(p, "check not built yet in this round")} for p in props if p not in CHECKS],
}
json.dump(man, open(os.path.join(HERE, "MANIFEST.json"), "w"), indent=1)
print("MANIFEST.json:", len(checks), "checks,", len(man["not_applicable"]), "not applicable")
